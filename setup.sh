#!/bin/bash
# Offline setup after a fresh restore: regenerate Gen/ from /repo and pre-build the Coq development so that
# the per-property checks only re-check what changed.  Never fails the setup: a file that does not build is
# reported by the check that needs it.
cd "$(dirname "$0")"
export PYINS_REPO="${PYINS_REPO:-/repo}"
export PYTHONPATH="$PYINS_REPO" PYTHONHASHSEED=0 NUMBA_DISABLE_PERFORMANCE_WARNINGS=1
mkdir -p evidence replays .work coq/Cases
/venv/bin/python -W ignore tools/gen.py > .work/setup_gen.log 2>&1 || echo "setup: translator reported a problem (see checks)"
/venv/bin/python - <<'PY'
import sys; sys.path.insert(0, 'tools')
import common
common.ensure_makefile()
ok, log = common.coq_make([], timeout=3000)
print("setup: coq build", "ok" if ok else "INCOMPLETE (reported by the checks that need the failing file)")
PY
exit 0
