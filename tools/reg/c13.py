"""Registry entries for Gen/C13Gen.v (C13, and the buffer-independence premise of C02).

  (all Coq names carry the prefix c13_ : other Gen modules trace some of the same functions)
  kstep2d_fresh / kstep3d_fresh   one kernel step on buffers whose row 1 is pre-filled with UNDECLARED
                                  symbolic garbage: the printer rejects any output that mentions it
                                  (free variable), and the numeric validation pre-fills NaN, so an
                                  unwritten component fails closed either way.
  t3d2d                           InsErrorModel(False)._transform_3d_2d(VN, VE)          (9 x 7)
  out2d                           InsErrorModel(False).transform_to_output(pva)           (9 x 7)
  correct2d                       InsErrorModel(False).correct_pva(pva, x), x in R^7
  poserr2d / velerr2d             position / NED-velocity error Jacobians without lever arm (2 x 7)
"""
import numpy as np
import pandas as pd

import gen
import sym
from sym import Sym
from gen import LAT, LON, ALT, VEL, ANG, PITCH

from pyins import error_model, _numba_integrate as ni
from pyins.util import TRAJECTORY_COLS

MOD = 'C13Gen'


# concrete meaning of the opaque call nodes used by the kernel traces (only for the numeric validation
# of the IR when Gen/NumbaIntegrate is not regenerated in the same run; overridden by its traces otherwise)
def _mfr_entry(i, j):
    def f(x, y, z):
        m = np.empty((3, 3))
        ni.mat_from_rotvec(np.array([x, y, z], dtype=float), m)
        return float(m[i, j])
    return f


for _i in range(3):
    for _j in range(3):
        sym.EVAL_CALLS.setdefault(f"mat_from_rotvec_m{_i}{_j}", _mfr_entry(_i, _j))
sym.EVAL_CALLS.setdefault('nb_gravity_g', lambda lat, alt: float(ni.gravity(lat, alt)))


def _free_vars(nid):
    seen, out, stack = set(), set(), [nid]
    while stack:
        i = stack.pop()
        if i in seen:
            continue
        seen.add(i)
        n = sym.CTX.nodes[i]
        if n[0] == 'var':
            out.add(n[1])
        elif n[0] == 'const':
            pass
        else:
            stack.extend(n[2:] if n[0] == 'call' else n[1:])
    return out


def _kernel_fresh(V, A, with_altitude):
    """One kernel step into buffers whose row 1 holds garbage.  Fails closed (TraceError) if any of the
    15 components of the new row depends on the garbage (symbolic run: undeclared variables garbage_*;
    concrete run: NaN).  Only alt and VD are emitted to Coq (the other components are the step2d_* /
    step3d_* definitions of Gen/NumbaIntegrate.v)."""
    symbolic = not isinstance(V('dt'), float)
    if symbolic:
        g = lambda shape, tag: sym._obj(np.array(
            [Sym.var(f"garbage_{tag}{k}") for k in range(int(np.prod(shape)))], dtype=object).reshape(shape))
        lla = sym._fill((2, 3), 0.0)
        vel = sym._fill((2, 3), 0.0)
        mat = sym._fill((2, 3, 3), 0.0)
        lla[1] = g((3,), 'l')
        vel[1] = g((3,), 'v')
        mat[1] = g((3, 3), 'm')
    else:
        lla = np.full((2, 3), np.nan)
        vel = np.full((2, 3), np.nan)
        mat = np.full((2, 3, 3), np.nan)
    lla[0] = A([V('lat'), V('lon'), V('alt')])
    vel[0] = A([V('VN'), V('VE'), V('VD')])
    mat[0] = A([[V(f'C{i}{j}') for j in range(3)] for i in range(3)])
    theta = A([[V('th0'), V('th1'), V('th2')]])
    dv = A([[V('dv0'), V('dv1'), V('dv2')]])
    dt = A([V('dt')])
    f = gen._pyf(ni.integrate) if symbolic else ni.integrate
    f(dt, lla, vel, mat, theta, dv, 0, with_altitude)
    outs = gen._kernel_outs(lla, vel, mat)
    declared = {p for p, _ in gen.KPARAMS}
    for name, val in outs.items():
        if symbolic:
            extra = _free_vars(sym.lift(val).nid) - declared
            if extra:
                raise sym.TraceError(f"kernel step: component {name} of row j+1 depends on {sorted(extra)} "
                                     f"(previous buffer content), not only on row j, increment, dt, flag")
        elif not np.isfinite(float(val)):
            raise sym.TraceError(f"kernel step: component {name} of row j+1 is not written by the kernel")
    return {'alt': outs['alt'], 'VD': outs['VD']}


# gravity is inlined (no branches); mat_from_rotvec stays an opaque call (it only feeds the attitude
# matrix, which is checked for garbage-freeness above but not emitted)
KEXTRA_FRESH = [(ni, 'mat_from_rotvec', gen._stub_mfr), (ni, 'gravity', gen._pyf(ni.gravity))]
# any further jitted helper the kernel may be split into is traced through its python function
KEXTRA_FRESH += [(ni, _n, _o.py_func) for _n, _o in list(vars(ni).items())
                 if hasattr(_o, 'py_func') and _n not in ('integrate', 'mat_from_rotvec', 'gravity')]


@gen.traced(MOD, 'c13_kstep2d_fresh', gen.KPARAMS, fast=('dt', 'th0', 'th1', 'th2', 'dv0', 'dv1', 'dv2'),
            extra=KEXTRA_FRESH)
def _(V, A):
    return _kernel_fresh(V, A, False)


@gen.traced(MOD, 'c13_kstep3d_fresh', gen.KPARAMS, fast=('dt', 'th0', 'th1', 'th2', 'dv0', 'dv1', 'dv2'),
            extra=KEXTRA_FRESH)
def _(V, A):
    return _kernel_fresh(V, A, True)


# ----- error_model.py, with_altitude = False ----------------------------------

def _out(name, m):
    m = np.asarray(m, dtype=object)
    return {f"{name}{i}{j}": m[i, j] for i in range(m.shape[0]) for j in range(m.shape[1])}


@gen.traced(MOD, 'c13_t3d2d', [('VN', VEL), ('VE', VEL)])
def _(V, A):
    em = error_model.InsErrorModel(False)
    return _out('t', em._transform_3d_2d(V('VN'), V('VE')))


PVA = [('lat', LAT), ('lon', LON), ('alt', ALT), ('VN', VEL), ('VE', VEL), ('VD', (-5.0, 5.0)),
       ('roll', (-179.0, 179.0)), ('pitch', PITCH), ('heading', (-179.0, 179.0))]


def _pva(V):
    vals = [V(n) for n, _ in PVA]
    if isinstance(vals[0], float):
        return pd.Series(vals, index=TRAJECTORY_COLS)
    return pd.Series(sym._obj(vals), index=TRAJECTORY_COLS, dtype=object)


@gen.traced(MOD, 'c13_out2d', PVA, tol=1e-9)
def _(V, A):
    em = error_model.InsErrorModel(False)
    return _out('o', em.transform_to_output(_pva(V)))


X2D = [(f'x{i}', (-3.0, 3.0)) for i in range(4)] + [(f'x{i}', (-1e-2, 1e-2)) for i in range(4, 7)]


@gen.traced(MOD, 'c13_correct2d', PVA + X2D, tol=1e-8)
def _(V, A):
    em = error_model.InsErrorModel(False)
    x = A([V(f'x{i}') for i in range(7)])
    r = em.correct_pva(_pva(V), x)
    vals = r.values if isinstance(r, pd.Series) else r
    return dict(zip(TRAJECTORY_COLS, vals))


@gen.traced(MOD, 'c13_poserr2d', PVA)
def _(V, A):
    em = error_model.InsErrorModel(False)
    return _out('h', em.position_error_jacobian(_pva(V)))


@gen.traced(MOD, 'c13_velerr2d', PVA)
def _(V, A):
    em = error_model.InsErrorModel(False)
    return _out('h', em.ned_velocity_error_jacobian(_pva(V)))
