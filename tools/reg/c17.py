"""C17 — attitude representations: extra traced functions (Gen module C17Gen).

  phi_to_delta_rph      error_model._phi_to_delta_rph on a single symbolic rph
  phi_to_delta_rph_arr  the same on a stacked (2, 3) input, second row (row-wise equality with the single form)
  mat_from_rph_arr      transform.mat_from_rph on a stacked (2, 3) input, second row
  mat_to_rph_arr        transform.mat_to_rph(mat_from_rph(.)) on a stacked input, second row
"""
import gen
from gen import traced, out_mat, ANG, PITCH
from pyins import transform, error_model

RPH = [('roll', ANG), ('pitch', PITCH), ('heading', ANG)]


@traced('C17Gen', 'phi_to_delta_rph', RPH)
def _(V, A):
    return out_mat('t', error_model._phi_to_delta_rph(A([V('roll'), V('pitch'), V('heading')])))


@traced('C17Gen', 'phi_to_delta_rph_arr', RPH)
def _(V, A):
    other = [1.0, 2.0, 3.0]
    return out_mat('t', error_model._phi_to_delta_rph(
        A([other, [V('roll'), V('pitch'), V('heading')]]))[1])


@traced('C17Gen', 'mat_from_rph_arr', [('roll', ANG), ('pitch', (-90.0, 90.0)), ('heading', ANG)])
def _(V, A):
    other = [1.0, 2.0, 3.0]
    return out_mat('m', transform.mat_from_rph(A([other, [V('roll'), V('pitch'), V('heading')]]))[1])


@traced('C17Gen', 'mat_to_rph_arr', [('roll', (-179.0, 179.0)), ('pitch', PITCH), ('heading', (-179.0, 179.0))],
        tol=1e-9)
def _(V, A):
    other = [1.0, 2.0, 3.0]
    m = transform.mat_from_rph(A([other, [V('roll'), V('pitch'), V('heading')]]))
    return dict(zip(('roll', 'pitch', 'heading'), transform.mat_to_rph(m)[1]))
