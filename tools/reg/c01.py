"""C01 — one row of strapdown.compute_increments_from_imu for both sensor types (Gen module C01Gen).

The LIVE function is called on a 2-sample IMU DataFrame whose six data columns and whose index
(time stamps t0, t0+dt) hold symbolic values (same recipe as tools/reg/c15.py: pandas keeps them
in object blocks, nothing in pyins or pandas is stubbed).  Parameter names:
  a<k> / e<k>  gyro sample at the start / end of the interval, axis k   (rate type)  -- for the
               increment type the "start" row is the sample of the PREVIOUS interval (p), the
               "end" row the sample of the CURRENT interval (c)
  fa<k>/fe<k>  the same for the accelerometer
Outputs: th0..2 (theta_x,y,z), dv0..2 (dv_x,y,z), odt (column dt).
"""
import pandas as pd
import gen
from pyins import strapdown
from pyins.util import GYRO_COLS, ACCEL_COLS

_COLS = [('odt', 'dt'), ('th0', 'theta_x'), ('th1', 'theta_y'), ('th2', 'theta_z'),
         ('dv0', 'dv_x'), ('dv1', 'dv_y'), ('dv2', 'dv_z')]


def _params(gy, ac):
    return ([('dt', (0.001, 0.05))] +
            [(f'a{i}', gy) for i in range(3)] + [(f'e{i}', gy) for i in range(3)] +
            [(f'fa{i}', ac) for i in range(3)] + [(f'fe{i}', ac) for i in range(3)] +
            [('t0', (0.0, 100.0))])


def _run(V, A, sensor_type):
    data = A([[V(f'a{i}') for i in range(3)] + [V(f'fa{i}') for i in range(3)],
              [V(f'e{i}') for i in range(3)] + [V(f'fe{i}') for i in range(3)]])
    t0 = V('t0')
    imu = pd.DataFrame(data=data, index=pd.Index([t0, t0 + V('dt')]), columns=GYRO_COLS + ACCEL_COLS)
    out = strapdown.compute_increments_from_imu(imu, sensor_type)
    if out.shape != (1, 7) or list(out.columns) != [c for _, c in _COLS]:
        raise gen.TraceError(f"compute_increments_from_imu: unexpected table {out.shape} {list(out.columns)}")
    return {nm: out[col].values[0] for nm, col in _COLS}


@gen.traced('C01Gen', 'inc_rate', _params((-3.0, 3.0), (-30.0, 30.0)), fast=('dt', 't0'), tol=1e-13)
def _(V, A):
    return _run(V, A, 'rate')


@gen.traced('C01Gen', 'inc_incr', _params((-0.15, 0.15), (-1.5, 1.5)), fast=('dt', 't0'), tol=1e-13)
def _(V, A):
    return _run(V, A, 'increment')
