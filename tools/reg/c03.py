"""C03 — IMU synthesiser (Gen module C03Gen), traced from the LIVE pyins.sim code.

  incr_readings   sim._compute_increment_readings(dt, a, b, c, d, e) for ONE sampling interval in the
                  layout generate_imu uses (dt : (1, 1); a..e : (1, 3)); outputs gyros0..2, accels0..2.
                  a, b, c = RotationSpline.interpolator.c[2], c[1], c[0] (rotation vector of the interval
                  theta(tau) = a tau + b tau^2 + c tau^3), d, e = constant / slope of the specific force
                  resolved in the body axes of the interval start.
  imu_rate        sim.generate_imu(time=[t0, t1], lla (2,3), rph (2,3), velocity_n (2,3), 'rate'):
                  the accelerometer reading of BOTH rows (f0_*, f1_*) plus the returned trajectory row 0
                  (pass-through).  Straight-line kinematics around the splines: inertial longitude,
                  v_i = C_in v_n + Omega x r_i, C_ib = C_in C_nb, accel = C_ib^T (a_i - g_i).
  imu_incr        the same call with sensor_type='increment' (row 1 of the result = the interval
                  [t0, t1]): d, e from the acceleration spline coefficients and gravitation, the call of
                  _compute_increment_readings kept opaque (prints as `incr_readings_*`).

Library primitives (scipy splines) enter only through their documented contract:
  * CubicHermiteSpline(x, y, dydx): THE piecewise cubic with p(x_k) = y_k, p'(x_k) = dydx_k, PPoly
    coefficient layout c[m, k] = coefficient of (x - x_k)^(3-m); `.derivative()` differentiates the
    polynomials; evaluation at a breakpoint x_k uses interval min(k, n-2).  `_Hermite` below is that
    contract written out on symbolic values; the validation run compares it with the real scipy class
    (the concrete run of each entry uses the unpatched scipy CubicHermiteSpline).
  * RotationSpline: opaque.  Only `.interpolator.c` (shape (4, n-1, 3), rotation-vector cubic per
    interval, c[3] = 0) is read in the increment branch: the three coefficient rows are PARAMETERS
    (ra*, rb*, rc*) of imu_incr -- in the trace and in the validation run alike a stand-in object
    carrying those arrays replaces the class.  In the rate branch the gyro output is not traced.

Reading of one more binary64 constant as an exact real (like pi/180 in sym.PI_CONSTS):
np.rad2deg(earth.RATE) is read as RATE * (180 / PI).
"""
import numpy as np
import sym
import gen
from gen import traced, LAT, LON
from pyins import sim, earth

# the float np.rad2deg(7.292115e-05) is read as the real number RATE * 180 / pi
sym.PI_CONSTS[float(np.rad2deg(earth.RATE))] = "((1458423 / 20000000000) * (180 / PI))"


# ---------------------------------------------------------------------------
# _compute_increment_readings

_V5 = [f'{v}{i}' for v in 'abcde' for i in range(3)]
_RNG = {'a': (-1.0, 1.0), 'b': (-3.0, 3.0), 'c': (-5.0, 5.0), 'd': (-30.0, 30.0), 'e': (-50.0, 50.0)}


@traced('C03Gen', 'incr_readings',
        [('dt', (0.005, 0.1))] + [(n, _RNG[n[0]]) for n in _V5], fast=('dt',), tol=1e-11)
def _(V, A):
    vec = lambda p: A([[V(f'{p}{i}') for i in range(3)]])
    gyros, accels = sim._compute_increment_readings(
        A([[V('dt')]]), vec('a'), vec('b'), vec('c'), vec('d'), vec('e'))
    if np.shape(gyros) != (1, 3) or np.shape(accels) != (1, 3):
        raise gen.TraceError("_compute_increment_readings: unexpected shapes")
    o = gen.out_vec('gyros', gyros[0])
    o.update(gen.out_vec('accels', accels[0]))
    return o


# ---------------------------------------------------------------------------
# contract of scipy.interpolate.CubicHermiteSpline / PPoly on symbolic values

class _PPoly:
    def __init__(self, c, x):
        self.c = c          # (k, n-1, 3) object array
        self.x = x          # (n,) object array

    def derivative(self, nu=1):
        c = self.c
        for _ in range(nu):
            k = c.shape[0]
            if k == 1:
                c = sym._fill(c.shape, 0.0)
            else:
                c = sym._obj([c[m] * float(k - 1 - m) for m in range(k - 1)])
        return _PPoly(c, self.x)

    def __call__(self, x, nu=0):
        p = self.derivative(nu) if nu else self
        n = len(self.x)
        rows = []
        for xv in np.atleast_1d(x):
            hit = [j for j in range(n) if self.x[j] == xv]      # Sym equality = same IR node
            if not hit:
                raise gen.TraceError("spline evaluated off the breakpoints")
            k = min(hit[0], n - 2)
            tau = xv - self.x[k]
            acc = p.c[0, k]
            for m in range(1, p.c.shape[0]):
                acc = acc * tau + p.c[m, k]
            rows.append(acc)
        return sym._obj(rows)


class _Hermite(_PPoly):
    def __init__(self, x, y, dydx):
        x = sym._as_sym_array(x, False)
        y = sym._as_sym_array(y, False)
        dydx = sym._as_sym_array(dydx, False)
        dx = np.diff(x)[:, None]
        slope = np.diff(y, axis=0) / dx
        t = (dydx[:-1] + dydx[1:] - 2 * slope) / dx
        c = sym._obj([t / dx, (slope - dydx[:-1]) / dx - t, dydx[:-1], y[:-1]])
        super().__init__(c, x)


class _Interp:
    def __init__(self, c):
        self.c = c


def _rot_spline_with(coef):
    """stand-in for RotationSpline: carries the given interpolator coefficients, nothing else."""
    class _RotSpline:
        def __init__(self, times, rotations):
            self.interpolator = _Interp(coef)

        def __call__(self, times, order=0):
            return np.zeros((len(times), 3))      # gyro of the rate branch: not traced
    return _RotSpline


class _RotFromMatrix:
    """Rotation.from_matrix(mat_ib) is only handed to the RotationSpline stand-in."""
    @staticmethod
    def from_matrix(m):
        return m


_PT = [('t0', (0.0, 100.0)), ('t1', (0.0, 100.0)),
       ('lat0', LAT), ('lon0', LON), ('alt0', (-500.0, 20000.0)),
       ('lat1', LAT), ('lon1', LON), ('alt1', (-500.0, 20000.0)),
       ('roll0', (-180.0, 180.0)), ('pitch0', (-90.0, 90.0)), ('heading0', (-180.0, 180.0)),
       ('roll1', (-180.0, 180.0)), ('pitch1', (-90.0, 90.0)), ('heading1', (-180.0, 180.0)),
       ('VN0', (-300.0, 300.0)), ('VE0', (-300.0, 300.0)), ('VD0', (-30.0, 30.0)),
       ('VN1', (-300.0, 300.0)), ('VE1', (-300.0, 300.0)), ('VD1', (-30.0, 30.0))]
_ROT = [(f'r{v}{i}', rng) for v, rng in (('a', (-1.0, 1.0)), ('b', (-3.0, 3.0)), ('c', (-5.0, 5.0)))
        for i in range(3)]


def _domain(env, rng):
    """a physically meaningful pair of samples: the second one lies v*h (+ a perturbation of the
    size of a 30 m/s^2 manoeuvre) away from the first, so that a_i and g_i have the same magnitude."""
    h = rng.uniform(0.02, 0.1)
    env = dict(env)
    env['t1'] = env['t0'] + h
    rn, _, rp = earth.principal_radii(env['lat0'], env['alt0'])
    acc = [rng.uniform(-30, 30) for _ in range(3)]
    for k, nm in enumerate(('VN', 'VE', 'VD')):
        env[nm + '1'] = env[nm + '0'] + acc[k] * h
    jig = [rng.uniform(-1, 1) * 5 * h * h for _ in range(3)]
    dn = 0.5 * (env['VN0'] + env['VN1']) * h + jig[0]
    de = 0.5 * (env['VE0'] + env['VE1']) * h + jig[1]
    dd = 0.5 * (env['VD0'] + env['VD1']) * h + jig[2]
    env['lat1'] = env['lat0'] + np.rad2deg(dn / rn)
    env['lon1'] = env['lon0'] + np.rad2deg(de / rp)
    env['alt1'] = env['alt0'] - dd
    for nm in ('roll', 'pitch', 'heading'):
        env[nm + '1'] = env[nm + '0'] + rng.uniform(-3, 3)
    env['pitch1'] = max(-90.0, min(90.0, env['pitch1']))
    return {k: float(v) for k, v in env.items()}


def _call_generate_imu(V, A, sensor_type, rot_coef=None):
    symbolic = not isinstance(V('t0'), float)
    time = A([V('t0'), V('t1')])
    lla = A([[V(f'{n}{k}') for n in ('lat', 'lon', 'alt')] for k in (0, 1)])
    rph = A([[V(f'{n}{k}') for n in ('roll', 'pitch', 'heading')] for k in (0, 1)])
    vel = A([[V(f'{n}{k}') for n in ('VN', 'VE', 'VD')] for k in (0, 1)])
    extra = []
    if symbolic:
        extra.append((sim, 'CubicHermiteSpline', _Hermite))
    if symbolic or rot_coef is not None:
        extra.append((sim, 'RotationSpline', _rot_spline_with(rot_coef)))
        extra.append((sim, 'Rotation', _RotFromMatrix))
    with gen.patched([], extra):
        traj, imu = sim.generate_imu(time, lla, rph, vel, sensor_type)
    if traj.shape != (2, 9) or imu.shape != (2, 6):
        raise gen.TraceError("generate_imu: unexpected table shapes")
    return traj, imu


@traced('C03Gen', 'imu_rate', _PT, tol=1e-4, domain=_domain, nval=40)
def _(V, A):
    traj, imu = _call_generate_imu(V, A, 'rate')
    acc = imu[['accel_x', 'accel_y', 'accel_z']].values
    o = {}
    for k in (0, 1):
        o.update(gen.out_vec(f'f{k}_', acc[k]))
    row = traj.values[0]
    o.update({f'traj0_{c}': row[j] for j, c in enumerate(traj.columns)})
    return o


def _stub_incr(dt, a, b, c, d, e):
    args = [dt[0, 0]] + [v[0, i] for v in (a, b, c, d, e) for i in range(3)]
    g = sym._obj([[sym.Sym.call(f'incr_readings_gyros{i}', *args) for i in range(3)]])
    f = sym._obj([[sym.Sym.call(f'incr_readings_accels{i}', *args) for i in range(3)]])
    return g, f


@traced('C03Gen', 'imu_incr', _PT + _ROT, tol=1e-4, domain=_domain, nval=40,
        extra=[(sim, '_compute_increment_readings', _stub_incr)])
def _(V, A):
    coef = A([[[V(f'r{v}{i}') for i in range(3)]] for v in 'cba'] + [[[0.0, 0.0, 0.0]]])
    traj, imu = _call_generate_imu(V, A, 'increment', rot_coef=coef)
    val = imu.values
    o = gen.out_vec('gyro', val[1, :3])
    o.update(gen.out_vec('accel', val[1, 3:]))
    return o
