"""Registry entries for Gen/C11Gen.v (C11: result compensation of the feedforward filter).

The LIVE `pyins.filters._compute_feedforward_result` is traced on one recorded row with symbolic entries:

  ffres   error_model.n_states = 9, one gyro and one accel parameter.  Symbolic: the computed trajectory
          row (lat lon alt VN VE VD roll pitch heading), the nominal latitude / altitude (the only nominal
          entries the function reads besides what transform_to_output reads), the 9 x 9 matrix T returned
          by error_model.transform_to_output(trajectory_nominal) (t00..t88: the error model is a mock whose
          transform is the symbolic matrix), the state x (x0..x8, xg, xa).  Outputs: the compensated
          trajectory row and the gyro / accel estimates.  earth.principal_radii is traced inline.
  ffsd    error_model.n_states = 2, one gyro and one accel parameter.  Symbolic: T (9 x 2), P (4 x 4).
          Outputs: trajectory_sd (9 entries), gyro_sd, accel_sd.
"""
import numpy as np
import pandas as pd

import gen
import sym
from sym import Sym, TraceError
from gen import LAT, LON, ALT, VEL, PITCH

from pyins import filters
from pyins.util import TRAJECTORY_COLS, TRAJECTORY_ERROR_COLS

MOD = 'C11Gen'
RH = (-179.0, 179.0)
PVA = [('lat', LAT), ('lon', LON), ('alt', ALT), ('VN', VEL), ('VE', VEL), ('VD', (-30.0, 30.0)),
       ('roll', RH), ('pitch', PITCH), ('heading', RH)]


class _Model:
    def __init__(self, n_states, states, T=None):
        self.n_states = n_states
        self.states = states
        self._T = T

    def transform_to_output(self, trajectory):
        if len(trajectory) != 1:
            raise TraceError("mock error model: one row expected")
        return self._T


def _frame(rows, cols, symbolic):
    if symbolic:
        return pd.DataFrame(sym._obj(rows), index=pd.Index([5.0], name='time'), columns=cols, dtype=object)
    return pd.DataFrame(np.array(rows, dtype=float), index=pd.Index([5.0], name='time'), columns=cols)


def _run(V, A, ni, with_P):
    symbolic = not isinstance(V('t00'), float)
    n = ni + 2
    T = A([[[V(f't{i}{j}') for j in range(ni)] for i in range(9)]])
    if with_P:
        x = A([[0.0] * n])
        P = A([[[V(f'p{i}{j}') for j in range(n)] for i in range(n)]])
        traj = _frame([[0.0] * 9], TRAJECTORY_COLS, symbolic)
        nominal = _frame([[45.0, 0.0, 0.0, 0.0, 0.0, 0.0, 0.0, 0.0, 0.0]], TRAJECTORY_COLS, symbolic)
    else:
        x = A([[V(f'x{i}') for i in range(ni)] + [V('xg'), V('xa')]])
        P = A([np.eye(n).tolist()])
        traj = _frame([[V(c) for c, _ in PVA]], TRAJECTORY_COLS, symbolic)
        nominal = _frame([[V('nlat'), 0.0, V('nalt'), 0.0, 0.0, 0.0, 0.0, 0.0, 0.0]], TRAJECTORY_COLS, symbolic)
    em = _Model(ni, None, T)
    gm = _Model(1, ['bias_x'])
    am = _Model(1, ['bias_y'])
    before = (np.array(x, copy=True), np.array(P, copy=True))
    res = filters._compute_feedforward_result(x, P, nominal, traj, em, gm, am)
    trajectory, trajectory_sd, gyro, gyro_sd, accel, accel_sd = res
    if list(trajectory.columns) != TRAJECTORY_COLS or list(trajectory_sd.columns) != TRAJECTORY_ERROR_COLS:
        raise TraceError("_compute_feedforward_result: unexpected columns")
    if list(gyro.columns) != ['bias_x'] or list(accel.columns) != ['bias_y'] or \
            list(gyro_sd.columns) != ['bias_x'] or list(accel_sd.columns) != ['bias_y']:
        raise TraceError("_compute_feedforward_result: unexpected sensor columns")
    for df in res:
        if len(df) != 1 or list(df.index) != [5.0]:
            raise TraceError("_compute_feedforward_result: unexpected index")
    out = {}
    if with_P:
        for k, c in enumerate(TRAJECTORY_ERROR_COLS):
            out['sd_' + ('e' + c if c in ('VN', 'VE', 'VD') else c)] = trajectory_sd.iloc[0, k]
        out['sd_gyro'] = gyro_sd.iloc[0, 0]
        out['sd_accel'] = accel_sd.iloc[0, 0]
    else:
        for k, c in enumerate(TRAJECTORY_COLS):
            out[c] = trajectory.iloc[0, k]
        out['gyro'] = gyro.iloc[0, 0]
        out['accel'] = accel.iloc[0, 0]
    return out


T9 = [(f't{i}{j}', (-2.0, 2.0)) for i in range(9) for j in range(9)]
X9 = [(f'x{i}', (-5.0, 5.0)) for i in range(9)] + [('xg', (-1.0, 1.0)), ('xa', (-1.0, 1.0))]


@gen.traced(MOD, 'ffres', PVA + [('nlat', LAT), ('nalt', ALT)] + T9 + X9,
            fast=tuple(n for n, _ in X9), tol=1e-9)
def _(V, A):
    return _run(V, A, 9, False)


T2 = [(f't{i}{j}', (-2.0, 2.0)) for i in range(9) for j in range(2)]
P4 = [(f'p{i}{j}', (0.0, 1.0)) for i in range(4) for j in range(4)]


def _psd_domain(env, rng):
    """P = B B^T + small diagonal so that every variance is positive"""
    env = dict(env)
    B = np.array([[rng.uniform(-1, 1) for _ in range(4)] for _ in range(4)])
    P = B.dot(B.T) + 0.05 * np.eye(4)
    for i in range(4):
        for j in range(4):
            env[f'p{i}{j}'] = float(P[i, j])
    return env


@gen.traced(MOD, 'ffsd', T2 + P4, domain=_psd_domain, tol=1e-9)
def _(V, A):
    return _run(V, A, 2, True)


# ==========================================================================================
# Matrix-granularity trace of the two assembly functions (Gen/C11Mx.v)
#
# `pyins.filters._initialize_covariance` and `_compute_error_propagation_matrices` are called LIVE with
# symbolic matrices of tools/gen_mx.py (dummy prime dimensions, so every integer the code computes --
# n_states, n_noises, the slice bounds -- identifies a block boundary) and mock model objects whose
# attributes are those symbolic matrices.  The recorded terms are generic in the seven block sizes
# (ni ng na vg va qg qa; d3 = 3 sensor axes, d9 = 9 output states are kept as dimension variables and
# instantiated in the theorems).  Extensions of the gen_mx numpy proxy used here (all fail closed):
#   np.zeros((9, 9)) followed by scalar assignments on the diagonal  ->  the opaque parameter Ppva; the
#       recorded (index, value) pairs must be exactly the documented diagonal (checked below);
#   np.hstack of vectors  ->  col_mx;   (hstack(...)) ** 2 inside np.diag  ->  the primitive diag_sq
#       (Model/FilterFlow.v: diag_mx of the squared entries);
#   kalman.compute_process_matrices is replaced by a recorder: the traced outputs are its arguments F, Q.
# Validation on every run: the IR is evaluated with numpy on REAL model objects (random enable masks, both
# altitude modes, so all block sizes including 0 occur) against what the live functions build.
# ==========================================================================================

MX_DIMS = [('ni', 7), ('ng', 5), ('na', 3), ('vg', 2), ('va', 11), ('qg', 13), ('qa', 17), ('d3', 19), ('d9', 23)]

MX_HEADER = """(* GENERATED by /verif/tools/reg/c11.py (matrix tracer tools/gen_mx.py) from $PYINS_REPO/pyins/filters.py -- do not edit. *)
From mathcomp Require Import all_ssreflect all_algebra.
From PV Require Import Spec.LibSpecsMx Model.FilterFlow.
Set Implicit Arguments.
Unset Strict Implicit.
Import GRing.Theory.
Local Open Scope ring_scope.
"""


def _mx_trace(which):
    """which = 'icov' | 'epm'.  Returns (entry dict, Trace, param nodes, return nodes).
    Robust against behaviour-preserving rewrites of the traced functions: the parameters are created up
    front in a FIXED order (the generated Section variables and hence the argument order of the generated
    definitions do not depend on the order in which the code reads the model attributes), only the OUTPUT
    definitions are emitted (no names derived from local variables), and the equivalent numpy spellings are
    accepted (hstack / concatenate, q**2 / np.square(q) / q*q, G @ np.diag(s) / G * s, .T / .transpose())."""
    import gen_mx as G
    from pyins.error_model import InsErrorModel
    t = G.Trace(MX_DIMS)
    pn = []

    def var(name, rd, cd=None):
        nd = G.Node(t, 'var', (name,), (rd,), None if cd is None else (cd,))
        nd.name = name
        pn.append((name, (rd,) if cd is None else (rd, cd), nd))
        return G.SymMat(nd, G.Buf(input=name))
    info = dict(diag=None, cpm=None)
    if which == 'icov':
        V = dict(T=var('T', 'ni', 'd9'), Ppva=var('Ppva', 'd9', 'd9'), Pg=var('Pg', 'ng', 'ng'), Pa=var('Pa', 'na', 'na'))
    else:
        V = dict(Fii=var('Fii', 'ni', 'ni'), Fig=var('Fig', 'ni', 'd3'), Fia=var('Fia', 'ni', 'd3'),
                 Hg=var('Hg', 'd3', 'ng'), Ha=var('Ha', 'd3', 'na'), Fg=var('Fg', 'ng', 'ng'), Fa=var('Fa', 'na', 'na'),
                 Jg=var('Jg', 'd3', 'vg'), Ja=var('Ja', 'd3', 'va'), Gg=var('Gg', 'ng', 'qg'), Ga=var('Ga', 'na', 'qa'),
                 v_g=var('v_g', 'vg'), v_a=var('v_a', 'va'), q_g=var('q_g', 'qg'), q_a=var('q_a', 'qa'))

    class DiagBuilder:
        """np.zeros((9, 9)) of _initialize_covariance: scalar assignments on the diagonal only"""

        def __init__(self):
            self.items = {}
            self.used = False

        def __setitem__(self, key, val):
            if self.used or not (isinstance(key, tuple) and len(key) == 2 and key[0] == key[1]
                                 and isinstance(key[0], (int, np.integer))):
                raise G.TraceError(f"P_pva: assignment {key!r} is not a diagonal element")
            if int(key[0]) in self.items:
                raise G.TraceError("P_pva: diagonal element assigned twice")
            self.items[int(key[0])] = float(val)

        def use(self):
            self.used = True
            info['diag'] = dict(self.items)
            return V['Ppva']

    class QVec:
        """the stacked noise intensities; .squared after q**2 / np.square(q) / q*q"""

        def __init__(self, node, squared=False):
            self.node = node
            self.squared = squared

        def _sq(self):
            if self.squared:
                raise G.TraceError("the stacked intensities are squared twice")
            return QVec(self.node, True)

        def __pow__(self, p):
            if p != 2:
                raise G.TraceError("q ** p: only the square of the stacked intensities is modelled")
            return self._sq()

        def __mul__(self, o):
            if o is self:
                return self._sq()
            raise G.TraceError("product of the stacked intensities with something else")

    def diag_node(v):
        if not isinstance(v, QVec) or not v.squared:
            raise G.TraceError("only diag(q ** 2) of the stacked intensities is modelled")
        return G.SymMat(G.Node(t, 'prim', ('diag_sq', (v.node,)), v.node.rdim, v.node.rdim))

    def stack(parts, axis=0):
        if axis not in (0, None):
            raise G.TraceError("concatenate: axis")
        nodes = [G._mat(p_, 'hstack') for p_ in parts]
        if any(n_.cdim is not None for n_ in nodes):
            raise G.TraceError("hstack / concatenate: only vectors")
        rdims = tuple(n_.rdim for n_ in nodes)
        blocks = {(i, 0): n_ for i, n_ in enumerate(nodes)}
        rdim = tuple(a for d in rdims for a in d)
        return QVec(G.Node(t, 'grid', (rdims, (None,), blocks), rdim, None))

    class Np(G._NpProxy):
        def zeros(self, shape, dtype=float, order='C'):
            if not isinstance(shape, (int, np.integer)) and tuple(shape) == (9, 9):
                return DiagBuilder()
            return G._NpProxy.zeros(self, shape, dtype, order)

        def hstack(self, parts):
            return stack(parts)

        def concatenate(self, parts, axis=0):
            return stack(parts, axis)

        def square(self, v):
            if isinstance(v, QVec):
                return v._sq()
            raise G.TraceError("np.square of a matrix")

        def power(self, v, p):
            return v ** p

        def diag(self, v):
            return diag_node(v)

        def multiply(self, a, b):
            return a * b

        def transpose(self, a):
            return a.T

        def matmul(self, a, b):
            return a @ b

        def dot(self, a, b):
            return a @ b

    orig_matmul, orig_mul, orig_rmul = G.SymMat.__matmul__, G.SymMat.__mul__, G.SymMat.__rmul__

    def matmul(self, o):
        if isinstance(o, DiagBuilder):
            o = o.use()
        return orig_matmul(self, o)

    def mul(self, o):
        # G * s with s = squared stacked intensities: scaling of the columns = G @ diag(s)
        if isinstance(o, QVec):
            return orig_matmul(self, diag_node(o))
        return orig_mul(self, o)

    class ErrorModel:
        n_states = t.dims['ni']

        def transform_to_internal(self, pva):
            return V['T']

        def system_matrices(self, pva):
            return V['Fii'], V['Fig'], V['Fia']
    for a in ('DRN', 'DRE', 'DRD', 'DVN', 'DVE', 'DVD', 'DROLL', 'DPITCH', 'DHEADING'):
        setattr(ErrorModel, a, getattr(InsErrorModel, a))

    class SensorModel:
        def __init__(self, s, ns, nq, nv):
            self.tag = s
            self.n_states, self.n_noises, self.n_output_noises = t.dims[ns], t.dims[nq], t.dims[nv]
            if which == 'icov':
                self.P = V['P' + s]
            else:
                self.F, self.G, self.J = V['F' + s], V['G' + s], V['J' + s]
                self.v, self.q = V['v_' + s], V['q_' + s]

        def output_matrix(self, readings=None):
            return V['H' + self.tag]

    class Kalman:
        @staticmethod
        def compute_process_matrices(*args, **kw):
            if info['cpm'] is not None:
                raise G.TraceError("compute_process_matrices called twice")
            vals = list(args) + list(kw.values())
            if len(vals) != 3:
                raise G.TraceError("compute_process_matrices: three arguments expected")
            info['cpm'] = tuple(vals)
            return vals[0], vals[1]
    em = ErrorModel()
    gm = SensorModel('g', 'ng', 'qg', 'vg')
    am = SensorModel('a', 'na', 'qa', 'va')
    fn = filters._initialize_covariance if which == 'icov' else filters._compute_error_propagation_matrices
    G.TR = t
    G.SymMat.__matmul__, G.SymMat.__mul__, G.SymMat.__rmul__ = matmul, mul, mul
    saved_kalman = filters.kalman
    try:
        with G.patched(filters):
            filters.np = Np()
            filters.kalman = Kalman
            try:
                if which == 'icov':
                    out = fn('pva0', 2.0, 3.0, 5.0, 7.0, em, gm, am)
                else:
                    out = fn('pva', 'gyro', 'accel', 'time_delta', em, gm, am)
            finally:
                filters.kalman = saved_kalman
        outs = out if isinstance(out, tuple) else (out,)
        rets = []
        for i, o in enumerate(outs):
            if not isinstance(o, G.SymMat):
                raise G.TraceError(f"{which}: return value {i} is {type(o).__name__}, not a symbolic matrix")
            rets.append(o._use())
    finally:
        G.TR = None
        G.SymMat.__matmul__, G.SymMat.__mul__, G.SymMat.__rmul__ = orig_matmul, orig_mul, orig_rmul
    if which == 'icov':
        want = {InsErrorModel.DRN: 4.0, InsErrorModel.DRE: 4.0, InsErrorModel.DRD: 4.0,
                InsErrorModel.DVN: 9.0, InsErrorModel.DVE: 9.0, InsErrorModel.DVD: 9.0,
                InsErrorModel.DROLL: 25.0, InsErrorModel.DPITCH: 25.0, InsErrorModel.DHEADING: 49.0}
        if info['diag'] != want:
            raise G.TraceError(f"_initialize_covariance: P_pva diagonal {info['diag']} is not "
                               f"(pos, pos, pos, vel, vel, vel, level, level, azimuth)^2 = {want}")
    else:
        if info['cpm'] is None or info['cpm'][2] != 'time_delta':
            raise G.TraceError("_compute_error_propagation_matrices: compute_process_matrices not called with time_delta")
    for nd in t.nodes:                      # no names derived from the traced function's local variables
        if nd.op != 'var':
            nd.name = None
    e = dict(func=which, prefix=which, dims=MX_DIMS)
    return e, t, pn, rets


def _mx_validate(rng, nval=24):
    """numpy evaluation of the traced IR against the live functions on REAL model objects"""
    import gen_mx as G
    from pyins import inertial_sensor, kalman, sim
    from pyins.error_model import InsErrorModel
    traces = {w: _mx_trace(w) for w in ('icov', 'epm')}
    traj, _ = sim.generate_sine_velocity_motion(0.5, 10, [50, 60, 100], [3, -2, 0.2], [2, 2, 0.3])
    worst, combos = 0.0, set()

    def model():
        def mask(p):
            return np.array([rng.random() < p for _ in range(3)], float)
        style = rng.choice(['none', 'full', 'rand', 'rand'])
        if style == 'none':
            return inertial_sensor.EstimationModel()
        if style == 'full':
            return inertial_sensor.EstimationModel(bias_sd=1e-2, noise=1e-3, bias_walk=1e-4, scale_misal_sd=1e-3)
        b = mask(0.6)
        return inertial_sensor.EstimationModel(
            bias_sd=b * rng.uniform(0.1, 1), noise=mask(0.6) * rng.uniform(0.1, 1),
            bias_walk=b * mask(0.5) * rng.uniform(0.1, 1),
            scale_misal_sd=np.array([[rng.random() < 0.3 for _ in range(3)] for _ in range(3)], float) * 0.1)

    def evaluate(which, env, sizes, diag_nodes=True):
        e, t, pn, rets = traces[which]
        memo = {}
        for nd in t.nodes:                                   # the diag_sq primitive (not known to gen_mx)
            if nd.op == 'prim' and nd.args[0] == 'diag_sq':
                v = G.eval_node(nd.args[1][0], env, sizes, memo)
                memo[nd.uid] = np.diag(v ** 2)
        return [G.eval_node(r, env, sizes, memo) for r in rets]
    for k in range(nval):
        alt = bool(k % 2)
        em = InsErrorModel(alt)
        gm, am = model(), model()
        pva = traj.iloc[rng.randrange(len(traj))]
        sizes = dict(ni=em.n_states, ng=gm.n_states, na=am.n_states, vg=gm.n_output_noises, va=am.n_output_noises,
                     qg=gm.n_noises, qa=am.n_noises, d3=3, d9=9)
        combos.add(tuple(sorted(sizes.items())))
        sig = [rng.uniform(0.1, 10) for _ in range(4)]
        # _initialize_covariance
        P_live = filters._initialize_covariance(pva, *sig, em, gm, am)
        env = dict(T=em.transform_to_internal(pva),
                   Ppva=np.diag(np.array([sig[0]] * 3 + [sig[1]] * 3 + [sig[2]] * 2 + [sig[3]]) ** 2),
                   Pg=gm.P, Pa=am.P)
        (P_ir,) = evaluate('icov', env, sizes)
        # _compute_error_propagation_matrices
        gyro = np.array([rng.uniform(-1, 1) for _ in range(3)])
        accel = np.array([rng.uniform(-10, 10) for _ in range(3)])
        seen = []
        orig = kalman.compute_process_matrices

        def rec(F, Q, dt):
            seen.append((np.array(F, copy=True), np.array(Q, copy=True), dt))
            return orig(F, Q, dt)
        kalman.compute_process_matrices = rec
        try:
            filters._compute_error_propagation_matrices(pva, gyro, accel, 0.5, em, gm, am)
        finally:
            kalman.compute_process_matrices = orig
        Fii, Fig, Fia = em.system_matrices(pva)
        env = dict(Fii=Fii, Fig=Fig, Fia=Fia, Hg=gm.output_matrix(gyro), Ha=am.output_matrix(accel),
                   Fg=gm.F, Fa=am.F, Gg=gm.G, Ga=am.G, Jg=gm.J, Ja=am.J, v_g=gm.v, v_a=am.v, q_g=gm.q, q_a=am.q)
        F_ir, Q_ir = evaluate('epm', env, sizes)
        for name, got, want in (('P0', P_ir, P_live), ('F', F_ir, seen[0][0]), ('Q', Q_ir, seen[0][1])):
            got = np.asarray(got, float).reshape(np.asarray(want).shape)
            err = float(np.abs(got - want).max(initial=0.0)) / max(1.0, float(np.abs(want).max(initial=0.0)))
            if not err <= 1e-12:
                raise G.TraceError(f"matrix trace validation: {name} differs from the live function by {err:.2e} at {sizes}")
            worst = max(worst, err)
    return [dict(function='_initialize_covariance + _compute_error_propagation_matrices [matrix trace]',
                 samples=nval, nodes=sum(len(tr[1].nodes) for tr in traces.values()), paths=1,
                 dimension_tuples=len(combos), max_rel_err=worst)], traces


def generate_mx(seed=0, write=True):
    """trace + validate + (re)write coq/Gen/C11Mx.v; returns (stats, changed)"""
    import os
    import random
    import gen_mx as G
    stats, traces = _mx_validate(random.Random(seed))
    parts = [G.print_entry(*traces[w]) for w in ('icov', 'epm')]
    body = MX_HEADER + "\n" + "\n".join(parts)
    path = os.path.join(G.GEN_DIR, 'C11Mx.v')
    old = open(path).read() if os.path.exists(path) else None
    changed = []
    if write and old != body:
        with open(path, 'w') as f:
            f.write(body)
        changed.append(path)
    return stats, changed, body


def run_generate_mx(r):
    """harness hook"""
    import time
    import traceback
    import common
    t0 = time.time()
    try:
        with common.Lock():
            stats, changed, _ = generate_mx(seed=r.seed)
        r.coverage.setdefault('translator', []).extend(stats)
        r.evaluations += sum(s['samples'] for s in stats)
        r.log(f"translator (matrix trace of the assembly functions): validated on {stats[0]['samples']} real model "
              f"configurations ({stats[0]['dimension_tuples']} size tuples), {len(changed)} Gen file(s) changed, "
              f"{time.time() - t0:.1f}s")
        return True
    except Exception as ex:
        r.broken('translator', type(ex).__name__, traceback.format_exc())
        return False
