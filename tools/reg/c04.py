"""C04 — INS error model (Gen module C04Gen).

Traced from the LIVE code on a symbolic pandas Series `pva`
(lat lon alt VN VE VD roll pitch heading):

  sysmat3d   InsErrorModel(True).system_matrices(pva)   -> F00..F88 (9x9), G00..G82 (B_gyro 9x3), A00..A82 (B_accel 9x3)
  sysmat2d   InsErrorModel(False).system_matrices(pva)  -> F00..F66 (7x7), G00..G62, A00..A62
  tr32 / tr23  InsErrorModel(False)._transform_3d_2d(VN, VE) (9x7) and TRANSFORM_2D_3D (7x9)
  prop3d / prop2d
             one step of the recursion of error_model.propagate_errors: the REAL function is run on a two-row
             trajectory; only InsErrorModel.system_matrices / transform_to_internal / transform_to_output are
             replaced (both while tracing and while validating) by stand-ins that return the symbolic stacks
             Fa,Fb (n x n), Ga,Gb, Aa,Ab (n x 3) and identity transforms, so that the outputs x0..x{n-1} are
             model_error row 1 as a function of (dt, F_k, F_k+1, B_k, B_k+1, x, gyro_error, accel_error).
             prop3d3 / prop2d3: the same on a THREE-row trajectory with two different symbolic intervals dt1, dt2
             (outputs x* = row 1, z* = row 2): each step must use its own interval.
             The second row of model_error is exactly what the loop `x[i+1] = Phi[i].dot(x[i]) + delta_sensor[i]*dt[i]`
             produced.  To keep the Coq text small only a 2-state / 1-sensor-axis instance would be too special, so
             the instance is n states with a DENSE symbolic F: the printed definitions are the general formula.
"""
import numpy as np
import pandas as pd

import gen
import sym
from sym import Sym, TraceError
from gen import traced, LAT, LON, ALT, VEL, PITCH
from pyins import error_model, util
from pyins.error_model import InsErrorModel

COLS = ['lat', 'lon', 'alt', 'VN', 'VE', 'VD', 'roll', 'pitch', 'heading']
RH = (-179.0, 179.0)
PVA = [('lat', LAT), ('lon', LON), ('alt', ALT), ('VN', VEL), ('VE', VEL), ('VD', VEL),
       ('roll', RH), ('pitch', PITCH), ('heading', RH)]


def series(V, A, cols):
    vals = [V(c) for c in cols]
    if isinstance(vals[0], float):
        return pd.Series(data=np.array(vals, dtype=float), index=cols)
    return pd.Series(data=sym._obj(vals), index=cols)


def outs(prefix, a, shape):
    a = np.asarray(a)
    if a.shape != shape:
        raise TraceError(f"system_matrices: unexpected shape {a.shape} for {prefix}, wanted {shape}")
    return {f"{prefix}{i}{j}": a[i, j] for i in range(shape[0]) for j in range(shape[1])}


def _sysmat(with_altitude):
    def run(V, A):
        em = InsErrorModel(with_altitude)
        n = em.n_states
        F, Bg, Ba = em.system_matrices(series(V, A, COLS))
        o = outs('F', F, (n, n))
        o.update(outs('G', Bg, (n, 3)))
        o.update(outs('A', Ba, (n, 3)))
        return o
    return run


traced('C04Gen', 'sysmat3d', PVA)(_sysmat(True))
traced('C04Gen', 'sysmat2d', PVA)(_sysmat(False))


# ----- the 7-state reduction matrices (the same live objects system_matrices uses) ----------

def _plain(prefix, a, shape):
    a = np.asarray(a)
    if a.shape != shape:
        raise TraceError(f"unexpected shape {a.shape} for {prefix}, wanted {shape}")
    return {f"{prefix}{i}{j}": a[i, j] for i in range(shape[0]) for j in range(shape[1])}


@traced('C04Gen', 'tr32', [('VN', VEL), ('VE', VEL)])
def _(V, A):
    return _plain('t', InsErrorModel(False)._transform_3d_2d(V('VN'), V('VE')), (9, 7))


@traced('C04Gen', 'tr23', [])
def _(V, A):
    m = InsErrorModel.TRANSFORM_2D_3D
    if A([1.0]).dtype == object:
        m = sym._obj(m)
    return _plain('t', m, (7, 9))


# ----- one step of propagate_errors' recursion --------------------------------------------

class _Traj:
    """The two-row trajectory seen by propagate_errors: it only uses .index and .iloc[0] (the rest goes through
    the InsErrorModel methods that are replaced below)."""

    def __init__(self, index):
        self.index = index
        self.iloc = [None]


def _prop(n, rows=2):
    """rows = 2: one step (dt);  rows = 3: two steps with DIFFERENT intervals dt1, dt2 (outputs x* = model_error row 1,
    z* = row 2), so that a recursion that used one interval for every step cannot trace to the same definitions."""
    letters = 'abc'[:rows]
    dts = ['dt'] if rows == 2 else ['dt1', 'dt2']
    names_F = [f"F{r}{i}{j}" for r in letters for i in range(n) for j in range(n)]
    names_G = [f"G{r}{i}{j}" for r in letters for i in range(n) for j in range(3)]
    names_A = [f"A{r}{i}{j}" for r in letters for i in range(n) for j in range(3)]
    params = ([(d, (0.1, 2.0)) for d in dts] + [(m, (-1.0, 1.0)) for m in names_F + names_G + names_A] +
              [(f"x{i}", (-1.0, 1.0)) for i in range(n)] +
              [(f"eg{i}", (-1.0, 1.0)) for i in range(3)] + [(f"ea{i}", (-1.0, 1.0)) for i in range(3)])

    def run(V, A):
        symbolic = not isinstance(V(dts[0]), float)
        stack = lambda p, m: A([[[V(f"{p}{r}{i}{j}") for j in range(m)] for i in range(n)] for r in letters])
        Fs, Gs, As = stack('F', n), stack('G', 3), stack('A', 3)
        x_init = A([V(f"x{i}") for i in range(n)])
        t0 = 3.0
        times = [t0]
        for d in dts:
            times.append(times[-1] + V(d))
        index = A(times)
        cols9 = util.TRAJECTORY_ERROR_COLS

        class EM(InsErrorModel):
            def system_matrices(self, trajectory):
                return Fs, Gs, As

            def transform_to_internal(self, pva):
                m = np.zeros((n, 9))
                m[:, :n] = np.eye(n)
                return sym._obj(m) if symbolic else m

            def transform_to_output(self, trajectory):
                m = np.zeros((rows, 9, n))
                m[:, :n, :] = np.eye(n)
                return sym._obj(m) if symbolic else m

        pva_error = pd.Series(data=(sym._obj(list(x_init) + [0.0] * (9 - n)) if symbolic
                                    else np.hstack([x_init, np.zeros(9 - n)])), index=cols9)
        saved = error_model.InsErrorModel
        error_model.InsErrorModel = EM
        try:
            zeros = [0.0] * rows
            traj = pd.DataFrame(index=index, columns=['lat'], data=(sym._obj(zeros) if symbolic else zeros))
            terr, merr = error_model.propagate_errors(
                traj, pva_error, A([V(f"eg{i}") for i in range(3)]), A([V(f"ea{i}") for i in range(3)]),
                with_altitude=(n == 9))
        finally:
            error_model.InsErrorModel = saved
        if merr.shape != (rows, n) or list(merr.columns) != InsErrorModel(n == 9).states:
            raise TraceError("propagate_errors: unexpected model_error layout")
        row0 = merr.values[0]
        for i in range(n):
            a, b = row0[i], x_init[i]
            if symbolic and not (isinstance(a, Sym) and a == b):
                raise TraceError("propagate_errors: row 0 of model_error is not the initial error")
            if not symbolic and float(a) != float(b):
                raise TraceError("propagate_errors: row 0 of model_error is not the initial error")
        out = {f"x{i}": merr.values[1][i] for i in range(n)}
        if rows == 3:
            out.update({f"z{i}": merr.values[2][i] for i in range(n)})
        return out
    return params, run


for _n, _tag in ((9, '3d'), (7, '2d')):
    _p, _r = _prop(_n)
    traced('C04Gen', f'prop{_tag}', _p, fast=('dt',), nval=8)(_r)
    _p, _r = _prop(_n, rows=3)
    traced('C04Gen', f'prop{_tag}3', _p, nval=8)(_r)
