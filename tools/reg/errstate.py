"""C05 / C06 — error-state coordinates and measurement models (Gen module ErrState).

Everything is traced from the LIVE classes on a symbolic pandas Series `pva`
(lat lon alt VN VE VD roll pitch heading [rate_x rate_y rate_z]):

  wrap180                       util.to_180_range on a one-element pandas Series (the code path
                                compute_state_difference uses)
  to_output3d / to_output2d     InsErrorModel(with_altitude).transform_to_output(pva)   9x9 / 9x7
  t32 / t23                     _transform_3d_2d(VN, VE) 9x7 / TRANSFORM_2D_3D 7x9
  to_internal3d / to_internal2d transform_to_internal(pva); np.linalg.inv is a PRIMITIVE: its result is the
                                symbolic matrix inv00..inv88 (the 81 parameters of these functions);
  to_internal3d_arg / 2d_arg    the matrix handed to np.linalg.inv (outputs a00..a88, function of pva), so that
                                Coq can check it is to_output3d
  correct3d / correct2d         correct_pva(pva, x) for symbolic x (from_rotvec -> rotvec_mij, as_euler -> euler_*)
  perturb_pva                   sim.perturb_pva(pva, e)
  state_diff                    transform.compute_state_difference(Series, Series) (to_180_range -> wrap180_r)
  posjac*/nedjac*/bodyjac*      the three *_error_jacobian helpers, both modes, lever arm None / symbolic
  pos* / ned* / body*           Position / NedVelocity / BodyVelocity .compute_matrices at a present time:
                                z, H, R entries (measured value, lever arm, rates, sd symbolic); the same
                                object must return None at an absent time, else tracing fails.
"""
import numpy as np
import pandas as pd

import gen
import sym
from sym import Sym, TraceError
from gen import traced, out_mat, out_vec, LAT, LON, ALT, VEL, PITCH
from pyins import transform, error_model, util, sim, measurements
from pyins.error_model import InsErrorModel

COLS = ['lat', 'lon', 'alt', 'VN', 'VE', 'VD', 'roll', 'pitch', 'heading']
RATES = ['rate_x', 'rate_y', 'rate_z']
RH = (-179.0, 179.0)
PVA = [('lat', LAT), ('lon', LON), ('alt', ALT), ('VN', VEL), ('VE', VEL), ('VD', (-30.0, 30.0)),
       ('roll', RH), ('pitch', PITCH), ('heading', RH)]
RATE_P = [(c, (-1.0, 1.0)) for c in RATES]
LEVER_P = [(f'l{i}', (-3.0, 3.0)) for i in range(3)]
SD_P = [('sd', (0.1, 5.0))]
X9 = [(f'x{i}', (-1e-3, 1e-3)) for i in range(9)]
X7 = [(f'x{i}', (-1e-3, 1e-3)) for i in range(7)]


def series(V, A, cols):
    """A pandas Series of the inputs (object dtype while tracing, float64 while validating)."""
    vals = [V(c) for c in cols]
    if isinstance(vals[0], float):
        return pd.Series(data=np.array(vals, dtype=float), index=cols)
    return pd.Series(data=sym._obj(vals), index=cols)


def vec(V, A, names):
    return A([V(n) for n in names])


def outs(prefix, a):
    a = np.asarray(a)
    if a.ndim == 1:
        return {f"{prefix}{i}": a[i] for i in range(a.shape[0])}
    return {f"{prefix}{i}{j}": a[i, j] for i in range(a.shape[0]) for j in range(a.shape[1])}


# ----- util.to_180_range on the pandas path ---------------------------------------

@traced('ErrState', 'wrap180', [('angle', (-2000.0, 2000.0))])
def _(V, A):
    a = V('angle')
    s = pd.Series(data=np.array([a], dtype=float) if isinstance(a, float) else sym._obj([a]), index=['roll'])
    return {'r': util.to_180_range(s).iloc[0]}


def _stub_to_180(angle):
    if isinstance(angle, pd.Series):
        return pd.Series(data=sym._obj([Sym.call('wrap180_r', v) for v in angle.values]), index=angle.index)
    raise TraceError("to_180_range stub: only the Series form is used by compute_state_difference(Series, Series)")


# ----- transform_to_output / _transform_3d_2d / TRANSFORM_2D_3D -----------------------

@traced('ErrState', 'to_output3d', PVA)
def _(V, A):
    return outs('t', InsErrorModel(True).transform_to_output(series(V, A, COLS)))


@traced('ErrState', 'to_output2d', PVA)
def _(V, A):
    return outs('t', InsErrorModel(False).transform_to_output(series(V, A, COLS)))


@traced('ErrState', 't32', [('VN', VEL), ('VE', VEL)])
def _(V, A):
    return outs('t', InsErrorModel(False)._transform_3d_2d(V('VN'), V('VE')))


@traced('ErrState', 't23', [])
def _(V, A):
    m = InsErrorModel.TRANSFORM_2D_3D
    if A([1.0]).dtype == object:
        m = sym._obj(m)
    return outs('t', m)


# ----- transform_to_internal: np.linalg.inv as a primitive ----------------------------

INV_P = [(f'inv{i}{j}', (-1.0, 1.0)) for i in range(9) for j in range(9)]
_inv_args = []


def _stub_inv(a):
    a = sym._as_sym_array(a, False)
    if a.shape != (9, 9):
        raise TraceError("np.linalg.inv stub: expected the 9x9 output transform")
    _inv_args.append(a)
    return sym._obj([[Sym.var(f'inv{i}{j}') for j in range(9)] for i in range(9)])


class _LinalgStub:
    inv = staticmethod(_stub_inv)


class _NpWithInv(sym.NpProxy):
    linalg = _LinalgStub


_np_inv = _NpWithInv()


def _inv_domain(env, rng):
    """validation: draw a pva, the inv parameters are the true inverse of its true output transform."""
    env = dict(env)
    for c, rg in PVA:
        env[c] = rng.uniform(*rg)
    pva = pd.Series(data=[env[c] for c in COLS], index=COLS)
    m = np.linalg.inv(InsErrorModel(True).transform_to_output(pva))
    for i in range(9):
        for j in range(9):
            env[f'inv{i}{j}'] = float(m[i, j])
    return env


def _to_internal(V, A, with_altitude, want):
    em = InsErrorModel(with_altitude)
    if isinstance(V('lat'), float):
        pva = series(V, A, COLS)
        res = em.transform_to_internal(pva)
        arg = em._transform_to_output_3d(pva)
    else:
        pva = series(V, A, COLS)
        del _inv_args[:]
        res = em.transform_to_internal(pva)
        if len(_inv_args) != 1:
            raise TraceError("transform_to_internal: np.linalg.inv not called exactly once")
        arg = _inv_args[0]
    return outs('t', res) if want == 't' else outs('a', arg)


def _reg_internal():
    for wa, tag in ((True, '3d'), (False, '2d')):
        # result as a function of the primitive's result only (the 81 symbols inv00..inv88)
        traced('ErrState', f'to_internal{tag}', INV_P, domain=_inv_domain, tol=1e-9,
               extra=[(error_model, 'np', _np_inv)])(
            lambda V, A, wa=wa: _to_internal(V, A, wa, 't'))
        # the matrix handed to np.linalg.inv, as a function of pva
        traced('ErrState', f'to_internal{tag}_arg', PVA, extra=[(error_model, 'np', _np_inv)])(
            lambda V, A, wa=wa: _to_internal(V, A, wa, 'a'))


_reg_internal()


# ----- correct_pva / perturb_pva / compute_state_difference -----------------------------

def _xdomain(scale):
    def d(env, rng):
        env = dict(env)
        # a few samples with a larger rotation so that the Rodrigues stub is exercised away from 0
        if rng.random() < 0.3:
            for k in env:
                if k.startswith('x'):
                    env[k] = rng.uniform(-scale, scale)
        return env
    return d


@traced('ErrState', 'correct3d', PVA + X9, fast=tuple(f'x{i}' for i in range(9)), tol=1e-9,
        domain=_xdomain(0.5))
def _(V, A):
    r = InsErrorModel(True).correct_pva(series(V, A, COLS), vec(V, A, [f'x{i}' for i in range(9)]))
    if list(r.index) != COLS:
        raise TraceError("correct_pva: unexpected index")
    return dict(zip(COLS, r.values))


@traced('ErrState', 'correct2d', PVA + X7, fast=tuple(f'x{i}' for i in range(7)), tol=1e-9,
        domain=_xdomain(0.5))
def _(V, A):
    r = InsErrorModel(False).correct_pva(series(V, A, COLS), vec(V, A, [f'x{i}' for i in range(7)]))
    if list(r.index) != COLS:
        raise TraceError("correct_pva: unexpected index")
    return dict(zip(COLS, r.values))


ERR_COLS = ['north', 'east', 'down', 'VN', 'VE', 'VD', 'roll', 'pitch', 'heading']
E9 = ([(f'e{i}', (-10.0, 10.0)) for i in range(3)] + [(f'e{i}', (-1.0, 1.0)) for i in range(3, 6)] +
      [(f'e{i}', (-0.5, 0.5)) for i in range(6, 9)])


@traced('ErrState', 'perturb_pva', PVA + E9, fast=tuple(f'e{i}' for i in range(9)))
def _(V, A):
    pva = series(V, A, COLS)
    err = series(lambda c: V('e%d' % ERR_COLS.index(c)), A, ERR_COLS)
    r = sim.perturb_pva(pva, err)
    if list(r.index) != COLS:
        raise TraceError("perturb_pva: unexpected index")
    return dict(zip(COLS, r.values))


PVA1 = [(c + '1', r) for c, r in PVA]
PVA2 = [(c + '2', r) for c, r in PVA]


@traced('ErrState', 'state_diff', PVA1 + PVA2, extra=[(util, 'to_180_range', _stub_to_180)])
def _(V, A):
    a = series(lambda c: V(c + '1'), A, COLS)
    b = series(lambda c: V(c + '2'), A, COLS)
    d = transform.compute_state_difference(a, b)
    if list(d.index) != ERR_COLS:
        raise TraceError("compute_state_difference: unexpected index")
    return dict(zip(ERR_COLS, d.values))


# ----- *_error_jacobian helpers -----------------------------------------------------------

def _jac(kind, with_altitude, lever, rates):
    def run(V, A):
        pva = series(V, A, COLS + (RATES if rates else []))
        em = InsErrorModel(with_altitude)
        l = vec(V, A, ['l0', 'l1', 'l2']) if lever else None
        if kind == 'pos':
            return outs('H', em.position_error_jacobian(pva, l))
        if kind == 'ned':
            return outs('H', em.ned_velocity_error_jacobian(pva, l))
        return outs('H', em.body_velocity_error_jacobian(pva))
    return run


def _reg_jac():
    for wa, tag in ((True, '3d'), (False, '2d')):
        traced('ErrState', f'posjac{tag}', PVA)(_jac('pos', wa, False, False))
        traced('ErrState', f'posjac{tag}_l', PVA + LEVER_P)(_jac('pos', wa, True, False))
        traced('ErrState', f'nedjac{tag}', PVA)(_jac('ned', wa, False, False))
        traced('ErrState', f'nedjac{tag}_l', PVA + RATE_P + LEVER_P)(_jac('ned', wa, True, True))
        traced('ErrState', f'nedjac{tag}_l_norate', PVA + LEVER_P)(_jac('ned', wa, True, False))
        traced('ErrState', f'bodyjac{tag}', PVA)(_jac('body', wa, False, False))


_reg_jac()


# ----- the three Measurement classes ----------------------------------------------------------

TIME = 12.5          # the (dyadic) epoch present in the data
ABSENT = 12.75       # an epoch that is not


def _frame(V, A, cols, names):
    vals = [V(n) for n in names]
    if isinstance(vals[0], float):
        return pd.DataFrame(data=np.array([vals], dtype=float), index=[TIME], columns=cols)
    return pd.DataFrame(data=sym._obj([vals]), index=[TIME], columns=cols)


def _meas(kind, with_altitude, lever, rates):
    def run(V, A):
        pva = series(V, A, COLS + (RATES if rates else []))
        em = InsErrorModel(with_altitude)
        l = vec(V, A, ['l0', 'l1', 'l2']) if lever else None
        sd = V('sd')
        if kind == 'pos':
            m = measurements.Position(_frame(V, A, ['lat', 'lon', 'alt'], ['mlat', 'mlon', 'malt']), sd, l)
        elif kind == 'ned':
            m = measurements.NedVelocity(_frame(V, A, ['VN', 'VE', 'VD'], ['mVN', 'mVE', 'mVD']), sd, l)
        else:
            m = measurements.BodyVelocity(_frame(V, A, ['VX', 'VY', 'VZ'], ['mVX', 'mVY', 'mVZ']), sd)
        if m.compute_matrices(ABSENT, pva, em) is not None:
            raise TraceError("compute_matrices returned something at a time absent from the data")
        z, H, R = m.compute_matrices(TIME, pva, em)
        z = np.asarray(z)
        H = np.asarray(H)
        R = np.asarray(R)
        if z.ndim != 1 or H.shape[0] != z.shape[0] or R.shape != (z.shape[0], z.shape[0]) or \
                H.shape[1] != em.n_states:
            raise TraceError("compute_matrices: inconsistent shapes")
        o = outs('z', z)
        o.update(outs('H', H))
        o.update(outs('R', R))
        return o
    return run


MPOS = [('mlat', LAT), ('mlon', LON), ('malt', ALT)]
MNED = [('mVN', VEL), ('mVE', VEL), ('mVD', (-30.0, 30.0))]
MBODY = [('mVX', VEL), ('mVY', VEL), ('mVZ', VEL)]


def _reg_meas():
    for wa, tag in ((True, '3d'), (False, '2d')):
        traced('ErrState', f'pos{tag}', PVA + MPOS + SD_P)(_meas('pos', wa, False, False))
        traced('ErrState', f'pos{tag}_l', PVA + MPOS + LEVER_P + SD_P)(_meas('pos', wa, True, False))
        traced('ErrState', f'ned{tag}', PVA + MNED + SD_P)(_meas('ned', wa, False, False))
        traced('ErrState', f'ned{tag}_rate', PVA + RATE_P + MNED + SD_P)(_meas('ned', wa, False, True))
        traced('ErrState', f'ned{tag}_l', PVA + RATE_P + MNED + LEVER_P + SD_P)(_meas('ned', wa, True, True))
        traced('ErrState', f'ned{tag}_l_norate', PVA + MNED + LEVER_P + SD_P)(_meas('ned', wa, True, False))
        traced('ErrState', f'body{tag}', PVA + MBODY + SD_P)(_meas('body', wa, False, False))
        traced('ErrState', f'body{tag}_rate', PVA + RATE_P + MBODY + SD_P)(_meas('body', wa, False, True))


_reg_meas()


# ----- the three measurement simulators on a one-row trajectory ------------------------------------------
# The generators draw `error_sd * rng.randn(n, 3)`.  They are called UNMODIFIED with a RandomState whose
# randn returns the symbolic row (n0, n1, n2) and with the symbolic error_sd `s`: the injected error is s*n,
# "noise switched off" is the instance s = 0.  (They take no lever arm / body rates: the simulated value is
# the quantity at the IMU.)

NOISE_P = [('s', (0.0, 3.0)), ('n0', (-2.0, 2.0)), ('n1', (-2.0, 2.0)), ('n2', (-2.0, 2.0))]


def _sim(kind):
    def run(V, A):
        vals = [V(c) for c in COLS]
        concrete = isinstance(vals[0], float)
        data = np.array([vals], dtype=float) if concrete else sym._obj([vals])
        traj = pd.DataFrame(data=data, index=[TIME], columns=COLS)
        noise = [V('n0'), V('n1'), V('n2')]
        calls = []

        class FixedNoise(np.random.RandomState):
            def randn(self, *shape):
                if shape != (1, 3):
                    raise TraceError("simulator: unexpected randn shape")
                calls.append(shape)
                return np.array([noise], dtype=float) if concrete else sym._obj([noise])

        rng = FixedNoise(0)
        if kind == 'pos':
            df, cols = sim.generate_position_measurements(traj, V('s'), rng), ['lat', 'lon', 'alt']
        elif kind == 'ned':
            df, cols = sim.generate_ned_velocity_measurements(traj, V('s'), rng), ['VN', 'VE', 'VD']
        else:
            df, cols = sim.generate_body_velocity_measurements(traj, V('s'), rng), ['VX', 'VY', 'VZ']
        if len(calls) != 1 or list(df.columns) != cols or list(df.index) != [TIME]:
            raise TraceError("simulator: unexpected noise draws / frame layout")
        return dict(zip(cols, df.values[0]))
    return run


traced('ErrState', 'sim_pos', PVA + NOISE_P, fast=('s',))(_sim('pos'))
traced('ErrState', 'sim_ned', PVA + NOISE_P, fast=('s',))(_sim('ned'))
traced('ErrState', 'sim_body', PVA + NOISE_P, fast=('s',))(_sim('body'))
