"""C15 — per-row formulas of strapdown.compute_increments_from_imu (Gen module C15Gen).

The LIVE function is called on a 3-sample IMU DataFrame whose six data columns and whose
index (time stamps t0, t0+dt1, t0+dt1+dt2) hold symbolic values: pandas keeps them in
object-dtype blocks / an object Index, `imu[cols].values`, `np.diff(imu.index)`,
`np.hstack`, `np.cross` (np_proxy) and the result DataFrame all work on them unchanged, so
NOTHING in pyins or pandas is stubbed or patched for this trace (no `extra=`).

Outputs, for each of the two result rows r = 1, 2 (row 2 sees a previous interval):
  r<r>_stamp  index label of the row      r<r>_dt   column 'dt'
  r<r>_th0..2 columns theta_x,y,z          r<r>_dv0..2 columns dv_x,y,z
The row count (2 = 3 - 1) and the column names are asserted while tracing (fail closed).
"""
import pandas as pd
import gen
from pyins import strapdown
from pyins.util import GYRO_COLS, ACCEL_COLS

_COLS = [('dt', 'dt'), ('th0', 'theta_x'), ('th1', 'theta_y'), ('th2', 'theta_z'),
         ('dv0', 'dv_x'), ('dv1', 'dv_y'), ('dv2', 'dv_z')]


def _params(gy, ac):
    p = []
    for k in range(3):
        p += [(f'w{k}{i}', gy) for i in range(3)]
        p += [(f'f{k}{i}', ac) for i in range(3)]
    return p + [('t0', (0.0, 100.0)), ('dt1', (0.001, 0.16)), ('dt2', (0.001, 0.16))]


def _run(V, A, sensor_type):
    data = A([[V(f'{c}{k}{i}') for c in 'wf' for i in range(3)] for k in range(3)])
    t0 = V('t0')
    t1 = t0 + V('dt1')
    t2 = t1 + V('dt2')
    imu = pd.DataFrame(data=data, index=pd.Index([t0, t1, t2]), columns=GYRO_COLS + ACCEL_COLS)
    out = strapdown.compute_increments_from_imu(imu, sensor_type)
    if out.shape != (2, 7) or list(out.columns) != [c for _, c in _COLS]:
        raise gen.TraceError(f"compute_increments_from_imu: unexpected table {out.shape} {list(out.columns)}")
    o = {}
    for r in (1, 2):
        o[f'r{r}_stamp'] = out.index[r - 1]
        for nm, col in _COLS:
            o[f'r{r}_{nm}'] = out[col].values[r - 1]
    return o


_FAST = ('t0', 'dt1', 'dt2')


@gen.traced('C15Gen', 'cii_rate', _params((-3.0, 3.0), (-30.0, 30.0)), fast=_FAST, tol=1e-14)
def _(V, A):
    return _run(V, A, 'rate')


@gen.traced('C15Gen', 'cii_incr', _params((-0.5, 0.5), (-5.0, 5.0)), fast=_FAST, tol=1e-14)
def _(V, A):
    return _run(V, A, 'increment')
