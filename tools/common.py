"""Shared machinery of the checks: Coq build, case evaluation, evidence, violations."""
import os
import sys
import re
import json
import time
import fcntl
import shutil
import subprocess

VERIF = os.path.dirname(os.path.dirname(os.path.abspath(__file__)))
COQ = os.path.join(VERIF, 'coq')
REPO = os.environ.get('PYINS_REPO', '/repo')
PY = '/venv/bin/python'
ENV = dict(os.environ, PYTHONPATH=REPO, PYTHONHASHSEED='0', PYINS_REPO=REPO,
           NUMBA_DISABLE_PERFORMANCE_WARNINGS='1', OMP_NUM_THREADS='1', OPENBLAS_NUM_THREADS='1',
           MKL_NUM_THREADS='1')

# axioms of the standard library that property theorems may depend on
AXIOM_WHITELIST = [
    r'ClassicalDedekindReals\.sig_forall_dec',
    r'ClassicalDedekindReals\.sig_not_dec',
    r'FunctionalExtensionality\.functional_extensionality_dep',
    r'Classical_Prop\.classic',
    r'PrimInt63\.\w+', r'Uint63\.\w+', r'Uint63Axioms\.\w+',   # primitive integers (Interval)
    r'PrimFloat\.\w+', r'FloatAxioms\.\w+', r'FloatOps\.\w+',    # primitive floats (Interval)
    r'Eqdep\.Eq_rect_eq\.eq_rect_eq', r'JMeq\.JMeq_eq',
    r'ProofIrrelevance\.proof_irrelevance',
    r'ClassicalEpsilon\.constructive_indefinite_description',
    r'PropExtensionality\.propositional_extensionality',
    r'Epsilon\.epsilon_statement', r'ClassicalUniqueChoice\.\w+', r'IndefiniteDescription\.\w+',
]
_AX_RE = re.compile(r'^(?:' + '|'.join(AXIOM_WHITELIST) + r')$')


class Lock:
    def __init__(self, path=os.path.join(COQ, '.lock')):
        self.path = path

    def __enter__(self):
        self.f = open(self.path, 'w')
        fcntl.flock(self.f, fcntl.LOCK_EX)
        return self

    def __exit__(self, *a):
        fcntl.flock(self.f, fcntl.LOCK_UN)
        self.f.close()


def sh(cmd, timeout, cwd=None, env=None):
    try:
        p = subprocess.run(cmd, shell=isinstance(cmd, str), cwd=cwd, env=env or ENV,
                           stdout=subprocess.PIPE, stderr=subprocess.STDOUT,
                           timeout=timeout, text=True)
        return p.returncode, p.stdout
    except subprocess.TimeoutExpired as e:
        out = e.stdout.decode() if isinstance(e.stdout, bytes) else (e.stdout or '')
        return 124, out + f"\n[timeout after {timeout}s]"


def ensure_makefile():
    mk = os.path.join(COQ, 'Makefile')
    proj = os.path.join(COQ, '_CoqProject')
    vs = sorted(os.path.relpath(os.path.join(d, f), COQ)
                for d, _, fs in os.walk(COQ) for f in fs
                if f.endswith('.v') and '/Cases' not in d and not f.startswith('.'))
    head = [l for l in open(proj).read().splitlines() if not l.endswith('.v')]
    new = "\n".join(head + vs) + "\n"
    if open(proj).read() != new or not os.path.exists(mk):
        with open(proj, 'w') as f:
            f.write(new)
        rc, out = sh(['coq_makefile', '-f', '_CoqProject', '-o', 'Makefile'], 120, cwd=COQ)
        if rc != 0:
            raise RuntimeError(out)


def coq_make(targets, timeout=1500, jobs=16):
    """make the given .vo targets (paths relative to coq/).  Returns (ok, log)."""
    with Lock():
        ensure_makefile()
        rc, out = sh(['timeout', str(timeout), 'make', f'-j{jobs}', '-k'] + list(targets),
                     timeout + 30, cwd=COQ)
    return rc == 0, out


def coqc_file(relpath, timeout=300):
    """Compile one file directly (no make); returns (ok, output)."""
    rc, out = sh(['timeout', str(timeout), 'coqc', '-Q', '.', 'PV', '-w',
                  '-notation-overridden,-deprecated-hint-without-locality,-ambiguous-paths,'
                  '-redundant-canonical-projection,-deprecated-instance-without-locality',
                  relpath],
                 timeout + 10, cwd=COQ)
    return rc == 0, out


def parse_assumptions(output):
    """Parse the output of a Props file made of `Print Assumptions thm.` commands.
    Returns list of axiom names (deduplicated), and the number of 'Closed' answers."""
    axioms = []
    closed = output.count('Closed under the global context')
    in_ax = False
    for line in output.splitlines():
        if line.startswith('Axioms:'):
            in_ax = True
            continue
        if in_ax:
            m = re.match(r'^([A-Za-z_][\w\.\']*)\s*(:.*)?$', line)
            if m and not line.startswith(' '):
                axioms.append(m.group(1))
            elif line.strip() == '' or line.startswith(' '):
                continue
            else:
                in_ax = False
    return sorted(set(axioms)), closed


def bad_axioms(axioms):
    return [a for a in axioms if not _AX_RE.match(a)]


def theorems_in(relpath):
    txt = open(os.path.join(COQ, relpath)).read()
    return re.findall(r'^(?:Theorem|Lemma|Example|Corollary)\s+([\w\']+)', txt, re.M)


def forbidden_words(paths):
    """grep the development for declarations that would add axioms or disable checks."""
    bad = []
    pat = re.compile(r'\b(Admitted|admit|Axiom|Axioms|Parameter|Parameters|Conjecture|'
                     r'Admit Obligations|Unset Guard Checking|Unset Positivity Checking|'
                     r'Unset Universe Checking|bypass_check|Hypothesis|Hypotheses|Variable|Variables)\b')
    for p in paths:
        txt = open(p).read()
        txt = re.sub(r'\(\*.*?\*\)', '', txt, flags=re.S)
        depth = 0
        for ln, line in enumerate(txt.splitlines(), 1):
            if re.match(r'\s*Section\b', line):
                depth += 1
            if re.match(r'\s*End\b', line) and depth > 0:
                depth -= 1
                continue
            for m in pat.finditer(line):
                w = m.group(1)
                if w in ('Hypothesis', 'Hypotheses', 'Variable', 'Variables') and depth > 0:
                    continue
                bad.append(f"{p}:{ln}: {w}")
    return bad


def eval_cases(name, text, timeout=600):
    """Write coq/Cases/<name>.v, compile it, return (ok, stdout); remove the files."""
    d = os.path.join(COQ, 'Cases')
    os.makedirs(d, exist_ok=True)
    base = f"{name}_{os.getpid()}"
    path = os.path.join(d, base + '.v')
    with open(path, 'w') as f:
        f.write(text)
    try:
        ok, out = coqc_file(os.path.join('Cases', base + '.v'), timeout)
    finally:
        for ext in ('.v', '.vo', '.vok', '.vos', '.glob', '.aux'):
            for p in (os.path.join(d, base + ext), os.path.join(d, '.' + base + ext)):
                if os.path.exists(p):
                    os.remove(p)
    return ok, out


def write_json(path, obj):
    os.makedirs(os.path.dirname(path), exist_ok=True)
    tmp = path + '.tmp'
    with open(tmp, 'w') as f:
        json.dump(obj, f, indent=1, default=str)
    os.replace(tmp, path)


def load_known_findings():
    """known_findings.txt: lines `finding: property=Cxx key=<key> <text>` or `fixed: ...`."""
    out = []
    p = os.path.join(VERIF, 'known_findings.txt')
    if os.path.exists(p):
        for line in open(p):
            line = line.strip()
            m = re.match(r'^finding:\s+property=(\w+)\s+key=(\S+)\s+(.*)$', line)
            if m:
                out.append(dict(property=m.group(1), key=m.group(2), text=m.group(3)))
    return out
