"""Self-validation against seeded changes (DESIGN.md section 8).

  seedtest.py verify <dir>            confirm a candidate (patch.diff + demo.py): applies to a scratch worktree of
                                      /repo, the baseline test suite still passes with it, demo fails with / passes without
  seedtest.py run <seeded-id> [Cxx..] run the registered check(s) against the change: scratch worktree + scratch copy of
                                      /verif (PYINS_REPO points at the worktree), so /repo itself is never touched while
                                      other work is going on; prints the VIOLATION lines and the exit status
  seedtest.py inrepo <seeded-id> [Cxx..]   the literal protocol: git -C /repo apply; ./check; git -C /repo checkout -- .

Scratch trees live under /tmp/seedrun and are removed afterwards.
"""
import os
import sys
import json
import shutil
import subprocess

VERIF = os.path.dirname(os.path.dirname(os.path.abspath(__file__)))
REPO = '/repo'
PY = '/venv/bin/python'
SCR = '/tmp/seedrun'
BASE_FAIL = {'pyins/tests/test_sim.py::test_Turntable'}


def sh(cmd, cwd=None, env=None, timeout=3600):
    p = subprocess.run(cmd, shell=True, cwd=cwd, env=env, stdout=subprocess.PIPE, stderr=subprocess.STDOUT,
                       text=True, timeout=timeout)
    return p.returncode, p.stdout


def worktree(tag, patch=None):
    os.makedirs(SCR, exist_ok=True)
    wt = os.path.join(SCR, f"wt_{tag}_{os.getpid()}")
    rc, out = sh(f"git -C {REPO} worktree add -q --detach {wt} HEAD")
    if rc:
        raise RuntimeError(out)
    if patch:
        rc, out = sh(f"git apply {patch}", cwd=wt)
        if rc:
            drop(wt)
            raise RuntimeError("patch does not apply: " + out)
    return wt


def drop(wt):
    sh(f"git -C {REPO} worktree remove --force {wt}")
    shutil.rmtree(wt, ignore_errors=True)


def envfor(wt):
    return dict(os.environ, PYTHONPATH=wt, PYTHONHASHSEED='0', NUMBA_DISABLE_PERFORMANCE_WARNINGS='1')


def verify(d):
    d = os.path.abspath(d)
    patch = os.path.join(d, 'patch.diff')
    demo = os.path.join(d, 'demo.py')
    res = {}
    wt = worktree('v', patch)
    try:
        rc, out = sh(f"{PY} -W ignore {demo}", cwd=wt, env=envfor(wt), timeout=900)
        res['demo_with_change'] = dict(rc=rc, tail=out[-600:])
        rc, out = sh(f"{PY} -m pytest -q -p no:cacheprovider --timeout=900 --continue-on-collection-errors "
                     f"-x --deselect pyins/tests/test_sim.py::test_Turntable 2>&1 | tail -5",
                     cwd=wt, env=envfor(wt), timeout=3000)
        res['suite_with_change'] = out.strip().splitlines()[-1] if out.strip() else ''
        res['suite_ok'] = (' passed' in res['suite_with_change'] and 'failed' not in res['suite_with_change']
                           and 'error' not in res['suite_with_change'])
    finally:
        drop(wt)
    wt = worktree('c')
    try:
        rc, out = sh(f"{PY} -W ignore {demo}", cwd=wt, env=envfor(wt), timeout=900)
        res['demo_without_change'] = dict(rc=rc, tail=out[-300:])
    finally:
        drop(wt)
    res['valid'] = bool(res['suite_ok'] and res['demo_with_change']['rc'] != 0
                        and res['demo_without_change']['rc'] == 0)
    print(json.dumps(res, indent=1))
    return 0 if res['valid'] else 1


def run(sid, checks, tier='quick'):
    d = os.path.join(VERIF, 'seeded', sid)
    meta = json.load(open(os.path.join(d, 'meta.json'))) if os.path.exists(os.path.join(d, 'meta.json')) else {}
    checks = checks or [meta.get('property', sid.split('_')[0])]
    wt = worktree('r', os.path.join(d, 'patch.diff'))
    vt = os.path.join(SCR, f"verif_{os.getpid()}")
    try:
        sh(f"rsync -a --exclude .git --exclude .work --exclude replays {VERIF}/ {vt}/")
        out_all = {}
        for c in checks:
            env = dict(os.environ, PYINS_REPO=wt)
            rc, out = sh(f"./check {c} --tier {tier}", cwd=vt, env=env, timeout=7200)
            viol = [l for l in out.splitlines() if l.startswith(('VIOLATION', 'KNOWN-FINDING'))]
            brk = [l for l in out.splitlines() if 'BROKEN' in l][:6]
            rep = None
            for l in viol:
                if 'replay=' in l:
                    p = l.split('replay=')[1].split()[0]
                    if os.path.exists(p):
                        try:
                            rep = json.load(open(p))
                        except Exception:
                            rep = open(p).read()[:2000]
                        break
            out_all[c] = dict(exit=rc, lines=viol, broken=brk,
                              replay_excerpt=json.dumps(rep, default=str)[:1500] if rep is not None else None)
            print(f"== {sid} vs {c}: exit {rc}")
            for l in viol + brk:
                print("   ", l[:300])
        return out_all
    finally:
        drop(wt)
        shutil.rmtree(vt, ignore_errors=True)


def inrepo(sid, checks, tier='quick'):
    d = os.path.join(VERIF, 'seeded', sid)
    meta = json.load(open(os.path.join(d, 'meta.json'))) if os.path.exists(os.path.join(d, 'meta.json')) else {}
    checks = checks or [meta.get('property', sid.split('_')[0])]
    rc, out = sh(f"git -C {REPO} apply {os.path.join(d, 'patch.diff')}")
    if rc:
        print(out)
        return {}
    res = {}
    try:
        for c in checks:
            rc, out = sh(f"./check {c} --tier {tier}", cwd=VERIF, timeout=7200)
            viol = [l for l in out.splitlines() if l.startswith(('VIOLATION', 'KNOWN-FINDING'))]
            res[c] = dict(exit=rc, lines=viol)
            print(f"== {sid} vs {c}: exit {rc}")
            for l in viol:
                print("   ", l[:300])
    finally:
        sh(f"git -C {REPO} checkout -- .")
    return res


def record(sid, checks):
    """verify (or reuse .work/verify_<sid>.json), run the checks, write seeded/<sid>/meta.json"""
    d = os.path.join(VERIF, 'seeded', sid)
    vfile = os.path.join(VERIF, '.work', f'verify_{sid}.json')
    ver = None
    if os.path.exists(vfile):
        try:
            ver = json.load(open(vfile))
        except Exception:
            ver = None
    if ver is None:
        import io
        import contextlib
        buf = io.StringIO()
        with contextlib.redirect_stdout(buf):
            verify(d)
        ver = json.loads(buf.getvalue())
        with open(vfile, 'w') as f:
            json.dump(ver, f, indent=1)
    prop = sid.split('_')[0]
    res = run(sid, checks or [prop])
    notes = open(os.path.join(d, 'notes.md')).read() if os.path.exists(os.path.join(d, 'notes.md')) else ''
    meta = dict(
        id=sid, property=prop,
        origin="written by an independent sub-agent that saw only the property text and a scratch worktree of /repo",
        needs_to_manifest=notes.strip()[:1500],
        confirmed=dict(
            suite_with_change=ver.get('suite_with_change'), suite_ok=ver.get('suite_ok'),
            demo_with_change_rc=ver['demo_with_change']['rc'], demo_without_change_rc=ver['demo_without_change']['rc'],
            how="tools/seedtest.py verify: patch applied in a scratch worktree of /repo; baseline suite run there "
                "(test_Turntable, which fails on the unmodified tree, deselected); demo.py run with and without the change"),
        valid=ver.get('valid'),
        checks_run={c: dict(cmd=f"PYINS_REPO=<worktree with patch> ./check {c} --tier quick (scratch copy of /verif)",
                            exit=v['exit'], lines=[l.split(' replay=')[0] + (' ' + l.split()[-1] if l.endswith('no-failing-input-found') else '')
                                                   for l in v['lines']][:6],
                            broken=[b[:200] for b in v['broken']][:4],
                            replay_excerpt=v.get('replay_excerpt'))
                    for c, v in res.items()},
        detected=any(v['exit'] != 0 for v in res.values()),
        detected_with_concrete_replay=any(v['exit'] != 0 and any('no-failing-input-found' not in l and l.startswith('VIOLATION')
                                                                 for l in v['lines']) for v in res.values()))
    with open(os.path.join(d, 'meta.json'), 'w') as f:
        json.dump(meta, f, indent=1)
    print(json.dumps({k: meta[k] for k in ('id', 'valid', 'detected', 'detected_with_concrete_replay')}))


if __name__ == '__main__':
    cmd = sys.argv[1]
    if cmd == 'verify':
        sys.exit(verify(sys.argv[2]))
    elif cmd == 'run':
        r = run(sys.argv[2], sys.argv[3:])
        sys.exit(0)
    elif cmd == 'record':
        record(sys.argv[2], sys.argv[3:])
    elif cmd == 'inrepo':
        inrepo(sys.argv[2], sys.argv[3:])
