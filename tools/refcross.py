"""Harmless-rewrite round: each behaviour-preserving refactoring (seeded/REF_<module>_<i>/patch.diff) against the checks of
every property anchored in the file it touches.  A check should exit 0; exit 1 can only be `no-failing-input-found`
(a proof / correspondence that is too syntactic) - a concrete replay on a harmless rewrite would be a false alarm.
Writes seeded/REFACTOR.json.   python tools/refcross.py [jobs]"""
import os
import re
import sys
import json
import glob
import subprocess
from concurrent.futures import ThreadPoolExecutor

VERIF = os.path.dirname(os.path.dirname(os.path.abspath(__file__)))
props = {}
for l in open(os.path.join(VERIF, 'properties.jsonl')):
    p = json.loads(l)
    props[p['id']] = set(p['anchors']['files'])
jobs = []
for d in sorted(glob.glob(os.path.join(VERIF, 'seeded', 'REF_*', 'patch.diff'))):
    sid = os.path.basename(os.path.dirname(d))
    if not re.search(os.environ.get('REF_FILTER', '.'), sid):
        continue
    files = set(re.findall(r'^\+\+\+ b/(\S+)', open(d).read(), re.M))
    for pid, anchors in sorted(props.items()):
        if files & anchors:
            jobs.append((sid, pid))
out_path = os.environ.get('REF_OUT') or os.path.join(VERIF, 'seeded', 'REFACTOR.json')
res = json.load(open(out_path)) if os.path.exists(out_path) else {}


def run(job):
    sid, pid = job
    if pid in res.get(sid, {}):
        return sid, pid, res[sid][pid]
    p = subprocess.run([sys.executable, os.path.join(VERIF, 'tools', 'seedtest.py'), 'run', sid, pid],
                       stdout=subprocess.PIPE, stderr=subprocess.STDOUT, text=True)
    m = re.search(r'exit (\d+)', p.stdout)
    rc = int(m.group(1)) if m else -1
    conc = any(l.strip().startswith('VIOLATION') and 'no-failing-input-found' not in l for l in p.stdout.splitlines())
    brk = [l.strip()[:160] for l in p.stdout.splitlines() if 'BROKEN' in l][:2]
    o = ('ok (exit 0)' if rc == 0 else 'FALSE ALARM with a replay' if conc else 'alarm, no-failing-input-found'
         if rc == 1 else 'error')
    return sid, pid, dict(outcome=o, broken=brk)


n = int(sys.argv[1]) if len(sys.argv) > 1 else 4
print(len(jobs), 'runs')
with ThreadPoolExecutor(n) as ex:
    for sid, pid, o in ex.map(run, jobs):
        res.setdefault(sid, {})[pid] = o
        json.dump(res, open(out_path, 'w'), indent=1, sort_keys=True)
        print(sid, pid, o['outcome'], o['broken'][:1], flush=True)
