"""Regenerates /verif/MANIFEST.json from the table below (python3 tools/manifest.py).
A property is listed under `checks` only when tools/props/<id>.py exists and is in CLAIMED."""
import os
import json

VERIF = os.path.dirname(os.path.dirname(os.path.abspath(__file__)))

COMMON_NOTE = (
    "Trusted: Coq 8.16.1 kernel (coqc; vm_compute for case evaluation, no native_compute); axioms only those "
    "the standard library declares, as printed by Print Assumptions under every theorem and copied into the "
    "evidence file (classical reals: sig_forall_dec, sig_not_dec, functional_extensionality_dep, classic; "
    "Interval proofs additionally the Uint63/PrimFloat primitive interface); none declared here. "
    "Binary64 rounding, numba compilation and scipy/numpy/pandas internals are modelled (written specs in "
    "coq/Spec/LibSpecs*.v validated numerically each run), not verified. ")

# id -> dict(text, note, technique, design)
CLAIMED = {}


def claim(pid, text, note, technique, design):
    CLAIMED[pid] = dict(text=text, note=note, technique=technique, design=design)


claim('C16',
      "Theorems over the reals about the formulas GENERATED from /repo on every run (symbolic tracing of earth.py, "
      "the geodetic functions of transform.py and the compiled gravity copy): ECEF point on the WGS-84 ellipsoid, "
      "altitude along the ellipsoid normal, NED frame columns = north/east/down, orthonormal and right-handed, "
      "partial derivatives of ECEF = (pi/180) x principal radii x frame axes (is_derive), perturb/difference "
      "first-order identity, gravity copies equal, gravitation = gravity - centrifugal, parities, Earth rate = "
      "frame's image of the polar axis. Partial: accuracy of Olson's ecef_to_lla series, the curvature matrix and "
      "lla_to_ned first-order statements are checked numerically on the implementation only.",
      COMMON_NOTE + "Translator tools/sym.py+ir2coq.py trusted for recording the operations numpy applied; "
      "validated every run by evaluating the IR against the real functions (60 inputs per function, 1e-11).",
      "Rocq proof over generated real-number model (translator: symbolic tracing), Coquelicot is_derive, field/nra",
      "DESIGN.md 4/C16")

claim('C18',
      "Theorems (a) over the reals about util.to_180_range as GENERATED from /repo (scalar and array paths: range "
      "(-180,180], congruence mod 360, uniqueness) and (b) about the hand-written executable model Model/StateDiff.v of "
      "transform.resample_state / compute_state_difference (tables over Q, scipy Slerp as a Section variable with its "
      "two endpoint premises): antisymmetry when the medians differ / on common stamps, self-difference exactly zero, "
      "sub-sampling zero exactly in the cases where the code interpolates the full table, angle range incl. the repaired "
      "swapped branch, every cell spelled out (NED metres with rn/rp at the mean point), resampling (knots reproduced, "
      "linear elsewhere, span clipping, column order, sorted). The model is tied to the code by a correspondence run "
      "(same generated table pairs through the model by vm_compute and through the real functions). Four recorded "
      "findings (known_findings.txt) are exhibited in the model by vm_compute and printed as KNOWN-FINDING. Partial: "
      "first-order recovery of a perturbation and shortest-arc Slerp are checked numerically only.",
      COMMON_NOTE + "Model tie: generator quality bounds the correspondence (distribution in the evidence file).",
      "Rocq proof over hand-written executable model + vm_compute correspondence; generated real-number model for to_180_range",
      "DESIGN.md 4/C18")

REASON_TODO = "check not built yet (framework under construction; see DESIGN.md section 4 for the planned proof)"


def main():
    ids = [json.loads(l)['id'] for l in open(os.path.join(VERIF, 'properties.jsonl'))]
    checks, na = [], []
    for pid in ids:
        have = os.path.exists(os.path.join(VERIF, 'tools', 'props', pid + '.py'))
        if pid in CLAIMED and have:
            c = CLAIMED[pid]
            checks.append(dict(
                property_id=pid,
                quick_cmd=f"./check {pid} --tier quick",
                thorough_cmd=f"./check {pid} --tier thorough",
                evidence_file=f"/verif/evidence/{pid}.json",
                replay_cmd_template=f"./check {pid} --replay {{path}}",
                engine="coq-pv",
                level_claimed=dict(category="proof", text=c['text'], design_ref=c['design']),
                level_note=c['note'],
                technique=c['technique']))
        else:
            na.append(dict(property_id=pid, reason=REASON_TODO))
    man = dict(
        version=1,
        setup_cmd="./setup.sh",
        hooks=dict(
            guard="PYINS_VERIF",
            enable="no source hooks are needed; checks run /repo as it is with PYTHONPATH=/repo",
            baseline_off_cmd="cd /repo && /venv/bin/python -m pytest -ra -q -p no:cacheprovider --timeout=900 "
                             "--continue-on-collection-errors",
            source_commits=[],
            add_only=True),
        engines=[dict(name="coq-pv", path="/verif/coq",
                      serves_properties=[c['property_id'] for c in checks],
                      kind_free_text="Coq 8.16.1 development (-Q coq PV): Gen/ regenerated from /repo by the tracing "
                                     "translator tools/gen.py on every run, hand-written Model/ tied by vm_compute "
                                     "correspondence, Proofs/, Props/ (theorem + Print Assumptions only)")],
        checks=checks,
        notes="Single entry point ./check <id> --tier quick|thorough [--replay f]; see DESIGN.md. "
              "known_findings.txt lists repaired defects (fixed:) and recorded findings (finding:).",
        not_applicable=na)
    with open(os.path.join(VERIF, 'MANIFEST.json'), 'w') as f:
        json.dump(man, f, indent=1)
        f.write("\n")
    print(f"{len(checks)} checks, {len(na)} not_applicable")


if __name__ == '__main__':
    main()
