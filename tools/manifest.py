"""Regenerates /verif/MANIFEST.json from the table below (python3 tools/manifest.py).
A property is listed under `checks` only when tools/props/<id>.py exists and is in CLAIMED."""
import os
import json

VERIF = os.path.dirname(os.path.dirname(os.path.abspath(__file__)))

COMMON_NOTE = (
    "Trusted: Coq 8.16.1 kernel (coqc; vm_compute for case evaluation, no native_compute); axioms only those "
    "the standard library declares, as printed by Print Assumptions under every theorem and copied into the "
    "evidence file (classical reals: sig_forall_dec, sig_not_dec, functional_extensionality_dep, classic; "
    "Interval proofs additionally the Uint63/PrimFloat primitive interface); none declared here. "
    "Binary64 rounding, numba compilation and scipy/numpy/pandas internals are modelled (written specs in "
    "coq/Spec/LibSpecs*.v validated numerically each run), not verified. ")

# id -> dict(text, note, technique, design)
CLAIMED = {}


def claim(pid, text, note, technique, design):
    CLAIMED[pid] = dict(text=text, note=note, technique=technique, design=design)


claim('C16',
      "Theorems over the reals about the formulas GENERATED from /repo on every run (symbolic tracing of earth.py, "
      "the geodetic functions of transform.py and the compiled gravity copy): ECEF point on the WGS-84 ellipsoid, "
      "altitude along the ellipsoid normal, NED frame columns = north/east/down, orthonormal and right-handed, "
      "partial derivatives of ECEF = (pi/180) x principal radii x frame axes (is_derive), perturb/difference "
      "first-order identity, gravity copies equal, gravitation = gravity - centrifugal, parities, Earth rate = "
      "frame's image of the polar axis. Partial: accuracy of Olson's ecef_to_lla series, the curvature matrix and "
      "lla_to_ned first-order statements are checked numerically on the implementation only.",
      COMMON_NOTE + "Translator tools/sym.py+ir2coq.py trusted for recording the operations numpy applied; "
      "validated every run by evaluating the IR against the real functions (60 inputs per function, 1e-11).",
      "Rocq proof over generated real-number model (translator: symbolic tracing), Coquelicot is_derive, field/nra",
      "DESIGN.md 4/C16")

claim('C18',
      "Theorems (a) over the reals about util.to_180_range as GENERATED from /repo (scalar and array paths: range "
      "(-180,180], congruence mod 360, uniqueness) and (b) about the hand-written executable model Model/StateDiff.v of "
      "transform.resample_state / compute_state_difference (tables over Q, scipy Slerp as a Section variable with its "
      "two endpoint premises): antisymmetry when the medians differ / on common stamps, self-difference exactly zero, "
      "sub-sampling zero exactly in the cases where the code interpolates the full table, angle range incl. the repaired "
      "swapped branch, every cell spelled out (NED metres with rn/rp at the mean point), resampling (knots reproduced, "
      "linear elsewhere, span clipping, column order, sorted). The model is tied to the code by a correspondence run "
      "(same generated table pairs through the model by vm_compute and through the real functions). Four recorded "
      "findings (known_findings.txt) are exhibited in the model by vm_compute and printed as KNOWN-FINDING. Partial: "
      "first-order recovery of a perturbation and shortest-arc Slerp are checked numerically only.",
      COMMON_NOTE + "Model tie: generator quality bounds the correspondence (distribution in the evidence file).",
      "Rocq proof over hand-written executable model + vm_compute correspondence; generated real-number model for to_180_range",
      "DESIGN.md 4/C18")

claim('C14',
      "Theorems about the hand-written executable model Model/SensorModel.v of inertial_sensor.py (EstimationModel "
      "constructor loops, output_matrix, estimate state machine, Parameters.apply with the two random streams as "
      "explicit arrays, data_frame, from_EstimationModel) over canonical rationals, for EVERY parameter value and hence "
      "every one of the 2^18 enable masks (induction on the constructor loops, not enumeration): layout/dimensions/"
      "names/ordering, constructor error case, names agree with the simulator table, output_matrix x = simulated error, "
      "correct_increments undoes apply over irregular series, accumulation of updates, squared noise coefficients = "
      "noise^2 dt / walk^2 dt = J v^2 J^T dt / G q^2 G^T dt. All closed under the global context. The model is tied to "
      "the code by a correspondence run (2064 masks x ~9 operations quick; all 2^18 masks thorough; dyadic data so "
      "binary64 = Q; compared exactly inside Coq by vm_compute). Var(sum c_j xi_j) = sum c_j^2 for independent samples "
      "is assumed, not proved; negative standard deviations are outside the modelled domain.",
      COMMON_NOTE + "Model tie: generator quality bounds the correspondence (distribution in the evidence file); "
      "np.linalg.solve compared with tolerance 2^-36.",
      "Rocq proof (induction over constructor loops) on hand-written executable model + vm_compute correspondence",
      "DESIGN.md 4/C14")

claim('C15',
      "Theorems over the reals about the per-row formulas of strapdown.compute_increments_from_imu GENERATED from "
      "/repo (both sensor types, traced on a 3-sample symbolic IMU table with symbolic stamps) against the "
      "hand-written Peano-Baker series spec (Spec/PeanoBaker.v: unique series solution of C' = C[w x], u' = C f): for "
      "signals linear in time theta = a t + b t^2/2 + (a x b) t^3/12 and exp[theta x] = C_PB mod t^4 (all entries); "
      "dv - u_PB = -(a x (a x d)) t^3/6 exactly; same for increment type with equal adjacent intervals; exact formula "
      "of the discrepancy for unequal intervals (recorded KNOWN-FINDING); rows/stamps structure for every n (list "
      "model). Partial: the order statement for general smooth (sinusoidal) signals needs Taylor's theorem with "
      "remainder (not formalised) and is supported by measured error slopes only.",
      COMMON_NOTE + "Translator validated against the real function each run (exact equality on 60 inputs per type).",
      "Rocq proof over generated real-number model (translator: symbolic tracing) against a hand-written series spec",
      "DESIGN.md 4/C15")

claim('C07',
      "Theorems (MathComp, any realFieldType, any dimensions, closed under the global context) about kalman.correct as "
      "GENERATED from /repo by the matrix-granularity tracer tools/gen_mx.py (Gen/Kalman.v): outputs = conditional mean "
      "and covariance (Schur complement) of the linear-Gaussian model (Spec/Gaussian.v); posterior symmetric, PSD, <= "
      "prior; Joseph form PSD for any gain; information form; innovation = L^-1 e with L lower, L L^T = S, "
      "nu^T nu = e^T S^-1 e; two independent blocks processed in either order = joint update (P may be singular). The "
      "Cholesky routine enters as a hypothesis (cholesky_factor). 'Inputs not modified' is enforced by the tracer "
      "(rejects overwrites of inputs) and checked by byte snapshots, not a Coq statement. Numerical support on the "
      "implementation with an exact-rational oracle.",
      COMMON_NOTE + "Matrix tracer gen_mx.py trusted for recording the operations; validated each run by an independent "
      "numpy interpreter of the IR against the real function (60 inputs, C and F order).",
      "Rocq/MathComp proof over generated matrix-level model (translator: symbolic matrix tracing)",
      "DESIGN.md 4/C07")

claim('C08',
      "Theorems (MathComp, any numFieldType, any dimension, closed under the global context) about "
      "kalman.compute_process_matrices as GENERATED from /repo (Van Loan block matrix, expm as an oracle whose spec is "
      "the formal power series of Spec/ExpSeries.v): block structure of powers, Phi = the same series in F alone, "
      "coefficients of Qd = term-by-term integral of e^{Fs} Q e^{F^T s} (every coefficient below the truncation order), "
      "symmetry, zero step, composition law and partition independence under the semigroup law, which the formal "
      "series is proved to obey. Partial: PSD of Qd is proved only for the zero-dynamics instance; the identification "
      "of scipy's expm with the limit of the series (rounding, convergence) is not proved - checked numerically "
      "against an exact-rational Taylor/doubling oracle.",
      COMMON_NOTE + "Matrix tracer gen_mx.py validated each run against the real function.",
      "Rocq/MathComp proof over generated matrix-level model; formal power series spec of expm",
      "DESIGN.md 4/C08")

claim('C19',
      "A purity checker for an aliasing IR is proved sound in Coq (checker_sound: accepted functions never write a "
      "cell of the caller's region, never use the global RNG except where documented, write/read only white-listed "
      "state slots, in every flow-insensitive execution of the abstract heap semantics), and the IR of all 94 functions "
      "(74 public) of the ten modules, regenerated from /repo on every run by the Python-ast translator "
      "tools/alias2ir.py, is accepted by vm_compute (all_public_pure, all_summaries_ok, seed_plumbed, "
      "schema_constants). Partial: the abstraction Python+numpy -> IR (classification tables, 294 micro-tests per "
      "run) is trusted; bit-identical repeat calls, equality across argument forms and schema of returned values are "
      "validated dynamically only (909 callable x form cases per quick run).",
      COMMON_NOTE + "Translator alias2ir.py and its numpy/pandas/scipy classification tables are trusted, micro-tested "
      "on the installed library versions each run; points-to hints are untrusted and re-validated in Coq.",
      "Rocq proof of a verified checker + vm_compute over the regenerated IR of the whole public API; dynamic validation",
      "DESIGN.md 4/C19")

REASON_TODO = "check not built yet (framework under construction; see DESIGN.md section 4 for the planned proof)"


def main():
    ids = [json.loads(l)['id'] for l in open(os.path.join(VERIF, 'properties.jsonl'))]
    checks, na = [], []
    for pid in ids:
        have = os.path.exists(os.path.join(VERIF, 'tools', 'props', pid + '.py'))
        if pid in CLAIMED and have:
            c = CLAIMED[pid]
            checks.append(dict(
                property_id=pid,
                quick_cmd=f"./check {pid} --tier quick",
                thorough_cmd=f"./check {pid} --tier thorough",
                evidence_file=f"/verif/evidence/{pid}.json",
                replay_cmd_template=f"./check {pid} --replay {{path}}",
                engine="coq-pv",
                level_claimed=dict(category="proof", text=c['text'], design_ref=c['design']),
                level_note=c['note'],
                technique=c['technique']))
        else:
            na.append(dict(property_id=pid, reason=REASON_TODO))
    man = dict(
        version=1,
        setup_cmd="./setup.sh",
        hooks=dict(
            guard="PYINS_VERIF",
            enable="no source hooks are needed; checks run /repo as it is with PYTHONPATH=/repo",
            baseline_off_cmd="cd /repo && /venv/bin/python -m pytest -ra -q -p no:cacheprovider --timeout=900 "
                             "--continue-on-collection-errors",
            source_commits=[],
            add_only=True),
        engines=[dict(name="coq-pv", path="/verif/coq",
                      serves_properties=[c['property_id'] for c in checks],
                      kind_free_text="Coq 8.16.1 development (-Q coq PV): Gen/ regenerated from /repo by the tracing "
                                     "translator tools/gen.py on every run, hand-written Model/ tied by vm_compute "
                                     "correspondence, Proofs/, Props/ (theorem + Print Assumptions only)")],
        checks=checks,
        notes="Single entry point ./check <id> --tier quick|thorough [--replay f]; see DESIGN.md. "
              "known_findings.txt lists repaired defects (fixed:) and recorded findings (finding:).",
        not_applicable=na)
    with open(os.path.join(VERIF, 'MANIFEST.json'), 'w') as f:
        json.dump(man, f, indent=1)
        f.write("\n")
    print(f"{len(checks)} checks, {len(na)} not_applicable")


if __name__ == '__main__':
    main()
