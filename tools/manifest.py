"""Regenerates /verif/MANIFEST.json from the table below (python3 tools/manifest.py).
A property is listed under `checks` only when tools/props/<id>.py exists and is in CLAIMED."""
import os
import json

VERIF = os.path.dirname(os.path.dirname(os.path.abspath(__file__)))

COMMON_NOTE = (
    "Trusted: Coq 8.16.1 kernel (coqc; vm_compute for case evaluation, no native_compute); axioms only those "
    "the standard library declares, as printed by Print Assumptions under every theorem and copied into the "
    "evidence file (classical reals: sig_forall_dec, sig_not_dec, functional_extensionality_dep, classic; "
    "Interval proofs additionally the Uint63/PrimFloat primitive interface); none declared here. "
    "Binary64 rounding, numba compilation and scipy/numpy/pandas internals are modelled (written specs in "
    "coq/Spec/LibSpecs*.v validated numerically each run), not verified. ")

# id -> dict(text, note, technique, design)
CLAIMED = {}


def claim(pid, text, note, technique, design):
    CLAIMED[pid] = dict(text=text, note=note, technique=technique, design=design)


claim('C16',
      "Theorems over the reals about the formulas GENERATED from /repo on every run (symbolic tracing of earth.py, "
      "the geodetic functions of transform.py and the compiled gravity copy): ECEF point on the WGS-84 ellipsoid, "
      "altitude along the ellipsoid normal, NED frame columns = north/east/down, orthonormal and right-handed, "
      "partial derivatives of ECEF = (pi/180) x principal radii x frame axes (is_derive), perturb/difference and "
      "lla_to_ned first-order identities (full 3x3 Jacobian), curvature matrix = rotation rate of the NED frame under "
      "displacement in any direction, gravity copies equal, gravitation = gravity - centrifugal, parities, Earth rate "
      "= frame's image of the polar axis; ecef_to_lla: longitude = atan2 on every path and round trip off the axis, the "
      "final step is exactly one Newton step of the forward map (so an exact series guess gives the exact inverse), "
      "exact round trips on the equatorial plane and the polar axis. Partial: the accuracy of Olson's series guess is "
      "proved (Interval, thorough tier) only on the ellipsoid surface; elsewhere the round trip is checked numerically.",
      COMMON_NOTE + "Translator tools/sym.py+ir2coq.py trusted for recording the operations numpy applied; "
      "validated every run by evaluating the IR and the printed Coq text against the real functions.",
      "Rocq proof over generated real-number model (translator: symbolic tracing), Coquelicot is_derive, field/nra, Interval",
      "DESIGN.md 4/C16")

claim('C18',
      "Theorems (a) over the reals about util.to_180_range as GENERATED from /repo (scalar and array paths: range "
      "(-180,180], congruence mod 360, uniqueness) and (b) about the hand-written executable model Model/StateDiff.v of "
      "transform.resample_state / compute_state_difference (tables over Q, scipy Slerp as a Section variable with its "
      "two endpoint premises): antisymmetry when the medians differ / on common stamps, self-difference exactly zero, "
      "sub-sampling zero exactly in the cases where the code interpolates the full table, angle range incl. the repaired "
      "swapped branch, every cell spelled out (NED metres with rn/rp at the mean point), resampling (knots reproduced, "
      "linear elsewhere, span clipping, column order, sorted). The model is tied to the code by a correspondence run "
      "(same generated table pairs through the model by vm_compute and through the real functions). Four recorded "
      "findings (known_findings.txt) are exhibited in the model by vm_compute and printed as KNOWN-FINDING. The "
      "first-order recovery of a perturbation is proved on the generated perturb_pva / state difference "
      "(C05_state_diff_recovers_perturbation, checked by C05). Partial: shortest-arc Slerp is checked numerically only.",
      COMMON_NOTE + "Model tie: generator quality bounds the correspondence (distribution in the evidence file).",
      "Rocq proof over hand-written executable model + vm_compute correspondence; generated real-number model for to_180_range",
      "DESIGN.md 4/C18")

claim('C14',
      "Theorems about the hand-written executable model Model/SensorModel.v of inertial_sensor.py (EstimationModel "
      "constructor loops, output_matrix, estimate state machine, Parameters.apply with the two random streams as "
      "explicit arrays, data_frame, from_EstimationModel) over canonical rationals, for EVERY parameter value and hence "
      "every one of the 2^18 enable masks (induction on the constructor loops, not enumeration): layout/dimensions/"
      "names/ordering, constructor error case, names agree with the simulator table, output_matrix x = simulated error, "
      "correct_increments undoes apply over irregular series, accumulation of updates, squared noise coefficients = "
      "noise^2 dt / walk^2 dt = J v^2 J^T dt / G q^2 G^T dt. All closed under the global context. The model is tied to "
      "the code by a correspondence run (2064 masks x ~9 operations quick; all 2^18 masks thorough; dyadic data so "
      "binary64 = Q; compared exactly inside Coq by vm_compute). Var(sum c_j xi_j) = sum c_j^2 for independent samples "
      "is assumed, not proved; negative standard deviations are outside the modelled domain.",
      COMMON_NOTE + "Model tie: generator quality bounds the correspondence (distribution in the evidence file); "
      "np.linalg.solve compared with tolerance 2^-36.",
      "Rocq proof (induction over constructor loops) on hand-written executable model + vm_compute correspondence",
      "DESIGN.md 4/C14")

claim('C15',
      "Theorems over the reals about the per-row formulas of strapdown.compute_increments_from_imu GENERATED from "
      "/repo (both sensor types, traced on a 3-sample symbolic IMU table with symbolic stamps) against the "
      "hand-written Peano-Baker series spec (Spec/PeanoBaker.v: unique series solution of C' = C[w x], u' = C f): for "
      "signals linear in time theta = a t + b t^2/2 + (a x b) t^3/12 and exp[theta x] = C_PB mod t^4 (all entries); "
      "dv - u_PB = -(a x (a x d)) t^3/6 exactly; same for increment type with equal adjacent intervals; exact formula "
      "of the discrepancy for unequal intervals (recorded KNOWN-FINDING); rows/stamps structure for every n (list "
      "model). Partial: the order statement for general smooth (sinusoidal) signals needs Taylor's theorem with "
      "remainder (not formalised) and is supported by measured error slopes only.",
      COMMON_NOTE + "Translator validated against the real function each run (exact equality on 60 inputs per type).",
      "Rocq proof over generated real-number model (translator: symbolic tracing) against a hand-written series spec",
      "DESIGN.md 4/C15")

claim('C07',
      "Theorems (MathComp, any realFieldType, any dimensions, closed under the global context) about kalman.correct as "
      "GENERATED from /repo by the matrix-granularity tracer tools/gen_mx.py (Gen/Kalman.v): outputs = conditional mean "
      "and covariance (Schur complement) of the linear-Gaussian model (Spec/Gaussian.v); posterior symmetric, PSD, <= "
      "prior; Joseph form PSD for any gain; information form; innovation = L^-1 e with L lower, L L^T = S, "
      "nu^T nu = e^T S^-1 e; two independent blocks processed in either order = joint update (P may be singular). The "
      "Cholesky routine enters as a hypothesis (cholesky_factor). 'Inputs not modified' is enforced by the tracer "
      "(rejects overwrites of inputs) and checked by byte snapshots, not a Coq statement. Numerical support on the "
      "implementation with an exact-rational oracle.",
      COMMON_NOTE + "Matrix tracer gen_mx.py trusted for recording the operations; validated each run by an independent "
      "numpy interpreter of the IR against the real function (60 inputs, C and F order).",
      "Rocq/MathComp proof over generated matrix-level model (translator: symbolic matrix tracing)",
      "DESIGN.md 4/C07")

claim('C08',
      "Theorems (MathComp, any numFieldType, any dimension, closed under the global context) about "
      "kalman.compute_process_matrices as GENERATED from /repo (Van Loan block matrix, expm as an oracle whose spec is "
      "the formal power series of Spec/ExpSeries.v): block structure of powers, Phi = the same series in F alone, "
      "coefficients of Qd = term-by-term integral of e^{Fs} Q e^{F^T s} (every coefficient below the truncation order), "
      "symmetry, zero step, composition law and partition independence under the semigroup law, which the formal "
      "series is proved to obey. Partial: PSD of Qd is proved for the zero-dynamics instance, and under the laws of the exact exponential Qd(0)=0 and PSD on one step h implies PSD on every multiple k h (so only PSD on an arbitrarily short initial step is left unproved); the identification "
      "of scipy's expm with the limit of the series (rounding, convergence) is not proved - checked numerically "
      "against an exact-rational Taylor/doubling oracle.",
      COMMON_NOTE + "Matrix tracer gen_mx.py validated each run against the real function.",
      "Rocq/MathComp proof over generated matrix-level model; formal power series spec of expm",
      "DESIGN.md 4/C08")

claim('C19',
      "A purity checker for an aliasing IR is proved sound in Coq (checker_sound: accepted functions never write a "
      "cell of the caller's region, never use the global RNG except where documented, write/read only white-listed "
      "state slots, in every flow-insensitive execution of the abstract heap semantics), and the IR of all 94 functions "
      "(74 public) of the ten modules, regenerated from /repo on every run by the Python-ast translator "
      "tools/alias2ir.py, is accepted by vm_compute (all_public_pure, all_summaries_ok, seed_plumbed, "
      "schema_constants). Partial: the abstraction Python+numpy -> IR (classification tables, 294 micro-tests per "
      "run) is trusted; bit-identical repeat calls, equality across argument forms and schema of returned values are "
      "validated dynamically only (909 callable x form cases per quick run).",
      COMMON_NOTE + "Translator alias2ir.py and its numpy/pandas/scipy classification tables are trusted, micro-tested "
      "on the installed library versions each run; points-to hints are untrusted and re-validated in Coq.",
      "Rocq proof of a verified checker + vm_compute over the regenerated IR of the whole public API; dynamic validation",
      "DESIGN.md 4/C19")

claim('C01',
      "Theorems over the reals about ONE iteration of the compiled kernel's loop as GENERATED from /repo (step3d_*: 15 "
      "outputs) against the hand-written hub specification Spec/NavODE.v (navigation ODE on the rotating WGS-84 "
      "ellipsoid with Somigliana gravity): step with dt=0 and zero increments is the identity; for every state with "
      "|lat|<90, alt >= -1e6, every rate/force and any increment curves with the right first derivative, each of the 15 "
      "components of dt -> step has is_derive at 0 equal to the ODE right-hand side (first-order consistency: no error "
      "component that does not vanish with the interval); the generated increment formulas of both sensor types have "
      "derivative (omega, f); abstract one-step convergence theorem (discrete Gronwall) and 'error <= halving change / "
      "(1-q)'. Partial: the uniform stability/local-error constants of the concrete kernel and existence of the exact "
      "flow are hypotheses of strapdown_converges_partial; the large-angle Rodrigues branch is covered by C17. "
      "Supported on the implementation by a finite-difference consistency test of the compiled kernel and a halving test "
      "against an independent DOP853 reference.",
      COMMON_NOTE + "Translator validated each run; kernel loop = fold of the one-step map checked by a two-increment trace.",
      "Rocq proof over generated real-number model (translator: symbolic tracing) against a hand-written ODE spec; Coquelicot is_derive",
      "DESIGN.md 4/C01")

claim('C02',
      "Theorems by induction over the operation list about the hand-written executable model Model/Integrator.v of "
      "strapdown.Integrator (buffers with explicit garbage and capacity, every index computation kept, out-of-bounds "
      "access = explicit failure), for ANY deterministic kernel step, any initial capacity >= 1 and both altitude modes: "
      "all writes in bounds; any chunking interleaved with predicts gives the single-shot trajectory with index = start "
      "time followed by each increment time once; predict = next appended row and unobservable; set_pva restart = fresh "
      "integrator; integrate returns previous last row + appended rows. Closed under the global context. The premise "
      "'row j+1 depends only on row j, increment, dt, flag' is discharged by the translator (garbage-buffer trace, "
      "two-increment fold check). The model is tied to the code by a correspondence run on free-algebra rows "
      "(provenance of every row evaluated with single-step kernel calls and compared bit for bit, tobytes) with a "
      "bounds guard around the real kernel.",
      COMMON_NOTE + "Model tie: generator quality bounds the correspondence (grammar of histories incl. chunks straddling "
      "the capacity, INITIAL_SIZE in {1,2,3,5,8,10000}).",
      "Rocq proof (induction over call histories) on hand-written executable model + vm_compute provenance correspondence",
      "DESIGN.md 4/C02")

claim('C03',
      "Theorems over the reals about sim._compute_increment_readings and the straight-line kinematics of sim.generate_imu "
      "as GENERATED from /repo: a body at rest at any lat in [-90,90], lon, alt and attitude senses exactly Earth rate and "
      "the reaction to gravity (second derivative of the inertial position minus gravitation_ecef resolved in NED = "
      "(0,0,-g); frame rate = rate_n); the 8+8 polynomial coefficients are exactly those of the body-rate / specific-"
      "force polynomials and the readings their exact integrals (is_RInt); the accelerometer formula is the algebraic "
      "inverse of the velocity equation of Spec/NavODE.v and the gyro formula of its attitude equation. Partial: "
      "convergence of the scipy splines to the true derivatives, agreement of the three input forms and the closed loop "
      "through the Integrator are supported by halving tests on the implementation against an independent oracle only.",
      COMMON_NOTE + "CubicHermiteSpline replaced by its contract while tracing; RotationSpline enters through its "
      "documented coefficient layout.",
      "Rocq proof over generated real-number model (translator: symbolic tracing); Coquelicot is_derive / is_RInt",
      "DESIGN.md 4/C03")

claim('C05',
      "Theorems over the reals about transform_to_output / transform_to_internal / _transform_3d_2d / correct_pva / "
      "perturb_pva / compute_state_difference as GENERATED from /repo (np.linalg.inv as a primitive specified as 'an "
      "inverse'): explicit inverse of T_out when cos pitch != 0, left-inverse statements in 3D and 2D; d/d eps at 0 of "
      "state_diff(pva, correct_pva(pva, eps x)) = T_out(pva) x for all 9 components (is_derive; |lat|<90, |pitch|<90, "
      "roll/heading off the +-180 cut); perturb-then-correct first-order identity; in 2D the down and VD rows are "
      "literally zero and correct_pva returns alt and VD unchanged for every x; state_diff(perturb_pva(pva, eps E), pva) has "
      "derivative E at 0 for all nine components and every attitude. Partial: the size of the second-order "
      "remainder is supported numerically (residual-order test incl. attitudes and longitudes next to the +-180 cuts) only.",
      COMMON_NOTE + "scipy Rotation stubs (from_rotvec = closed-form exponential map, as_euler via atan2) validated each run.",
      "Rocq proof over generated real-number model (translator: symbolic tracing); Coquelicot is_derive, field",
      "DESIGN.md 4/C05")

claim('C06',
      "Theorems over the reals about the three Measurement classes' compute_matrices (z, H, R) as GENERATED from /repo "
      "in 16 configurations (class x altitude mode x lever arm none/given x rates present/absent): d/d eps at 0 of "
      "z(correct_pva(pva, eps x)) = -H x for every row and every x, including the C_nb l and C_nb (omega x l) terms; "
      "z = predicted - measured in NED metres / m/s; R = sd^2 I of matching size; rates without lever arm = plain model. "
      "The Position Jacobian is exact at measured = predicted (mid-point radii make it O(|z| tan lat / R) off elsewhere; "
      "stated); the three measurement simulators, traced unmodified with symbolic noise, give z = 0 exactly without noise "
      "and z = -e for an injected error (exactly for the velocity classes, to first order in metres for Position). "
      "Absent time -> None and multi-row frames are checked on the implementation (finite-difference Jacobians, "
      "independent ECEF oracle).",
      COMMON_NOTE + "scipy Rotation stubs validated each run.",
      "Rocq proof over generated real-number model (translator: symbolic tracing); Coquelicot is_derive",
      "DESIGN.md 4/C06")

claim('C09',
      "Theorems (closed under the global context) about the hand-written executable cursor/event model "
      "Model/FeedbackSched.v of run_feedback_filter over rational time stamps, for EVERY schedule (irregular/gapped IMU "
      "times, arbitrary measurement stamps of any number of sensors, shared stamps, any step) and with the float "
      "expression time + time_step replaced by an adversarial oracle (only t <= add_step t assumed): termination, every "
      "increment integrated exactly once in order (trajectory index = t0 :: increment times), every stamp in [t0, t_end) "
      "gives exactly one innovation per owning sensor in time order and none outside, records strictly increasing and a "
      "subset of the trajectory times, no empty batch; the pinned (pre-fix) loop is refuted with its two witnesses. The "
      "model is tied to the code by an exact comparison of event traces (trajectory index, integrate batches, "
      "per-sensor innovation index, table indices) on generated schedules with a back-edge watchdog. Numerical state "
      "(finiteness of tables) is asserted on the generated schedules only.",
      COMMON_NOTE + "Model tie: generator quality bounds the correspondence (categories and counts in the evidence); "
      "numpy sort/unique/searchsorted and pandas label lookup are trusted.",
      "Rocq proof (induction, measure) on hand-written executable scheduling model + vm_compute event-trace correspondence",
      "DESIGN.md 4/C09")

claim('C10',
      "Theorems (closed under the global context) about the hand-written executable cursor/event model "
      "Model/FeedforwardSched.v of run_feedforward_filter, for EVERY schedule and ANY outcome of time + time_step (no "
      "hypothesis on the oracle): termination, result rows a strictly increasing subset of the input times starting at "
      "the first, step bound b - a <= max(time_step, local gap) on the observable tables, every stamp in [t0, t_end) "
      "used exactly once in time order, positive propagation intervals; the loop without the advance guard is refuted. "
      "Tied to the code by exact comparison of event traces on generated schedules with a watchdog (non-termination is "
      "reported as a violation).",
      COMMON_NOTE + "Model tie: generator quality bounds the correspondence; numerical state outside the model.",
      "Rocq proof (induction, measure) on hand-written executable scheduling model + vm_compute event-trace correspondence",
      "DESIGN.md 4/C10")

claim('C13',
      "Theorems: (a) about the 2D branch of the kernel as GENERATED from /repo: step2d_VD = 0 and step2d_alt = alt - "
      "(1/2 (VD + 0)) dt for all inputs, hence VD = 0 -> altitude unchanged; (b) by induction over call histories on the "
      "Integrator model instantiated with the generated step: for every history every row has VD = 0 and altitude = the "
      "most recently supplied one (constructor and set_pva zero VD); (c) about the generated 2D error model: DR3/DV3 "
      "rows of the embedding, down and VD rows of the output transform are zero (so the reported sd is 0 for every "
      "covariance), correct_pva keeps alt and VD, 2D position/velocity Jacobians have two rows; (d) feedback-style "
      "histories keep the invariant. Bit-exactness in binary64 (alt - 0*dt == alt), the filters' use of set_pva and the "
      "measurement shapes are checked on the implementation (tobytes equality, exact zeros) on generated histories and "
      "small filter runs.",
      COMMON_NOTE + "Model tie as in C02.",
      "Rocq proof over generated real-number model + induction on the integrator model; implementation-side exactness checks",
      "DESIGN.md 4/C13")

claim('C17',
      "Theorems over the reals about mat_from_rotvec (both branches), mat_from_rph / mat_to_rph and _phi_to_delta_rph as "
      "GENERATED from /repo: on |v|^2 > 1e-6 the matrix is orthonormal with det 1, fixes v, has trace 1 + 2 cos|v| and "
      "skew part (sin|v|/|v|)[v x], and equals the closed-form exponential map entry by entry; on |v|^2 <= 1e-6 every "
      "entry is within 1e-20 of it (Interval), M(0) = I, the branches agree to 1e-20 at the threshold; the rph matrix is "
      "Rz(h)Ry(p)Rx(r), a proper rotation, with the stated nose/wing conventions; round trip exact on the principal "
      "range and modulo 360 otherwise for |pitch| < 90; the Euler-error matrix satisfies d/d eps C(rph + eps T phi) = "
      "-[phi x] C for cos pitch != 0 with injective partials. Trusted: scipy Euler conventions (stub validated each run); "
      "Rodrigues closed form = exp power series is classical, not formalised; binary64 rounding not modelled "
      "(checked numerically against scipy expm at 500 eps).",
      COMMON_NOTE + "Interval proofs additionally depend on the primitive-integer interface (PrimInt63/Uint63 axioms of the "
      "standard library).",
      "Rocq proof over generated real-number model (translator: symbolic tracing); field/ring identities, Interval, Coquelicot",
      "DESIGN.md 4/C17")

claim('C11',
      "Theorems: (a) for EVERY schedule the fold of the feedforward event trace (Model/FeedforwardSched.v + data-flow "
      "model Model/FilterFlow.v) equals the textbook Kalman recursion on the filter's time grid (corrections of all "
      "epochs of a grid row in time order and sensor-list order, record after corrections and before propagation, "
      "propagation chain from the first to the last row), with every correction the conditional-Gaussian update of the "
      "GENERATED kalman.correct on H_full = [H|0|0] and every propagated covariance symmetric PSD; (b) block layout of "
      "P0, F, G, q, Q for all block sizes, proved equal to the matrix terms GENERATED from the live "
      "_initialize_covariance / _compute_error_propagation_matrices; (c) compensation and sd formulas GENERATED from "
      "_compute_feedforward_result invert sim.perturb_pva's error definition; (d) for any number of steps and any "
      "dimensions, with positive-definite P0, R_k, Qd_k, the recursion's (x_N, P_N) is the solution of the one-shot "
      "weighted-least-squares (Gauss-Markov) problem of the stacked system; and the same without any inverse of Qd for "
      "the real system's rank-deficient process noise: x_k+1 = Phi_k x_k + Gamma_k w_k with arbitrary Gamma_k (Qd = "
      "Gamma Gamma^T merely PSD), Phi_k invertible, P0 and R_k PD - the cost-to-arrive of the batch objective over "
      "(x_0, w) equals sum nu^2 + |y - xhat_N|^2 weighted by P_N^-1 (lower bound for every (x_0, w) + attainment), "
      "MathComp, closed under the global context. Partial: that scipy's expm gives an invertible Phi and a Gram-matrix Qd "
      "are hypotheses (C08); floating-point agreement is supported by an independent one-shot square-root Gauss-Markov "
      "solve of exactly that noise-parametrised problem on the implementation (all result fields, margin >= 1000x) and a "
      "bit-exact call-trace correspondence.",
      COMMON_NOTE + "Matrix tracer gen_mx.py and tools/reg/c11.py validated each run on 24 model configurations.",
      "Rocq/MathComp proof (induction over schedules and steps) on generated matrix terms + data-flow model; call-trace correspondence",
      "DESIGN.md 4/C11")

claim('C12',
      "Theorems (closed under the global context) composing the C09 scheduling model, the C02 integrator model and the "
      "C14 estimate state machine: if no stamp lies in [t0, t_end) the feedback loop emits no innovation / set_pva / "
      "update and its integrate batches concatenate to the whole increment table, hence (integrate_chunks) the "
      "trajectory equals a single integrate for any kernel, mode, step and capacity; correct_increments with reset "
      "estimates is the identity on exact numbers; a run whose first estimate operation is reset is independent of the "
      "prior estimate state (and the reset is necessary). Partial: float exactness of v - 0.0*dt and of the solve with "
      "the identity matrix is checked byte for byte on the implementation (tobytes identity against "
      "Integrator.integrate with polluted model objects); the first-order agreement with the feedforward filter is "
      "proved only for one cycle under two exactness hypotheses (feedback_first_order_partial) and otherwise supported "
      "by an error-scale sweep; re-run identity checked bit for bit.",
      COMMON_NOTE + "Model ties as in C02, C09, C14.",
      "Rocq proof composing the scheduling, integrator and estimate-state models; bit-exact implementation checks",
      "DESIGN.md 4/C12")

claim('C04',
      "Theorems over the reals about InsErrorModel.system_matrices (F, B_gyro, B_accel, 3D and 2D) and one step of "
      "propagate_errors as GENERATED from /repo, against the hand-written hub specification Spec/NavODE.v (which C01 ties "
      "to the kernel): for every state with |lat|<90, alt >= -1000 km, every error direction and every (omega, f), the "
      "derivative of the navigation field along the library's own error chart (taken from correct_pva/perturb_lla) equals "
      "(F + N) x for all 15 state components, with N an explicit closed-form remainder of 21 entries; B_gyro and B_accel "
      "are the exact sensitivities (no remainder); F equals the documented blocks in spec terms; every entry of N is "
      "bounded by an explicit constant on |lat|<=80, 0..20 km, |v_i|<=300 m/s (Interval); the 7-state matrices are exactly "
      "T23 F T32 / T23 B and linearise the 2D field on level trajectories; the discrete recursion is the identity at dt=0 "
      "with derivative 1/2(F_k+F_k+1)x + 1/2(B_k+B_k+1)e. Partial: exchange of the error- and time-derivatives and the "
      "quantitative bound over a finite filter step are supported by finite-difference tests of the real Integrator only. "
      "Recorded finding: the no-altitude model holds only in vertical equilibrium.",
      COMMON_NOTE + "Interval proofs additionally depend on the primitive-integer interface of the standard library.",
      "Rocq proof over generated real-number model (translator: symbolic tracing) against the hand-written ODE spec; Coquelicot is_derive, Interval",
      "DESIGN.md 4/C04")

REASON_TODO = "check not built yet (framework under construction; see DESIGN.md section 4 for the planned proof)"


def main():
    ids = [json.loads(l)['id'] for l in open(os.path.join(VERIF, 'properties.jsonl'))]
    checks, na = [], []
    for pid in ids:
        have = os.path.exists(os.path.join(VERIF, 'tools', 'props', pid + '.py'))
        if pid in CLAIMED and have:
            c = CLAIMED[pid]
            checks.append(dict(
                property_id=pid,
                quick_cmd=f"./check {pid} --tier quick",
                thorough_cmd=f"./check {pid} --tier thorough",
                evidence_file=f"/verif/evidence/{pid}.json",
                replay_cmd_template=f"./check {pid} --replay {{path}}",
                engine="coq-pv",
                level_claimed=dict(category="proof", text=c['text'], design_ref=c['design']),
                level_note=c['note'],
                technique=c['technique']))
        else:
            na.append(dict(property_id=pid, reason=REASON_TODO))
    man = dict(
        version=1,
        setup_cmd="./setup.sh",
        hooks=dict(
            guard="PYINS_VERIF",
            enable="no source hooks are needed; checks run /repo as it is with PYTHONPATH=/repo",
            baseline_off_cmd="cd /repo && /venv/bin/python -m pytest -ra -q -p no:cacheprovider --timeout=900 "
                             "--continue-on-collection-errors",
            source_commits=[],
            add_only=True),
        engines=[dict(name="coq-pv", path="/verif/coq",
                      serves_properties=[c['property_id'] for c in checks],
                      kind_free_text="Coq 8.16.1 development (-Q coq PV): Gen/ regenerated from /repo by the tracing "
                                     "translator tools/gen.py on every run, hand-written Model/ tied by vm_compute "
                                     "correspondence, Proofs/, Props/ (theorem + Print Assumptions only)")],
        checks=checks,
        notes="Single entry point ./check <id> --tier quick|thorough [--replay f]; see DESIGN.md. "
              "known_findings.txt lists repaired defects (fixed:) and recorded findings (finding:).",
        not_applicable=na)
    with open(os.path.join(VERIF, 'MANIFEST.json'), 'w') as f:
        json.dump(man, f, indent=1)
        f.write("\n")
    print(f"{len(checks)} checks, {len(na)} not_applicable")


if __name__ == '__main__':
    main()
