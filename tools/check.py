"""./check Cxx [--tier quick|thorough] [--replay file]

Pipeline per property (DESIGN.md 2.4): corpus -> regenerate Gen from the repo ->
translator validation -> proof obligations (make + Print Assumptions) ->
correspondence -> evidence.  If anything breaks, the property's falsifier searches
the implementation for a concrete failing input; a VIOLATION line is printed and
the exit status is 1.
"""
import os
import sys
import json
import time
import argparse
import importlib
import traceback
import subprocess

HERE = os.path.dirname(os.path.abspath(__file__))
sys.path.insert(0, HERE)
import common
from common import VERIF, COQ, REPO

sys.path.insert(0, REPO)


class Run:
    def __init__(self, pid, tier, seed):
        self.pid = pid
        self.tier = tier
        self.seed = seed
        self.t0 = time.time()
        self.breaks = []          # list of dict(kind, name, detail)
        self.violations = []      # concrete violations: dict(what, replay=obj)
        self.known = []
        self.obligations = []     # theorem names expected
        self.discharged = []
        self.axioms = []
        self.coverage = {}
        self.trusted = [
            "Coq 8.16.1 kernel (coqc); vm_compute for case evaluation; no native_compute",
        ]
        self.assumptions = []
        self.checker_cmds = []
        self.samples = []
        self.evaluations = 0
        self.distinct = set()
        self.notes = []

    # ---- logging
    def log(self, *a):
        print(f"[{self.pid} {time.time() - self.t0:6.1f}s]", *a, flush=True)

    def broken(self, kind, name, detail=''):
        self.log(f"BROKEN {kind}: {name}: {str(detail)[-1500:]}")
        self.breaks.append(dict(kind=kind, name=name, detail=str(detail)[-4000:]))

    # ---- translator
    def generate(self, modules=None):
        """Regenerate coq/Gen from the repository and validate the traced IR."""
        t = time.time()
        try:
            with common.Lock():
                import gen
                stats, changed = gen.generate(seed=self.seed, only=modules)
                if modules is None or 'NumbaIntegrate' in modules:
                    stats = stats + gen.kernel_fold_check(self.seed)
            self.coverage.setdefault('translator', []).extend(stats)
            self.evaluations += sum(s['samples'] for s in stats)
            self.log(f"translator: {len(stats)} functions traced+validated, "
                     f"{len(changed)} Gen file(s) changed, {time.time() - t:.1f}s")
            return True
        except Exception as e:
            self.broken('translator', type(e).__name__, traceback.format_exc())
            return False

    # ---- proofs
    def prove(self, props_file, extra_targets=(), timeout=1500):
        """Build the property file (and all proofs it depends on), read Print Assumptions."""
        rel = props_file
        vo = rel[:-2] + '.vo'
        thms = common.theorems_in(rel)
        self.obligations += thms
        self.checker_cmds.append(f"cd {COQ} && make {vo} && coqc -Q . PV {rel}")
        ok, log = common.coq_make([vo] + list(extra_targets), timeout)
        if not ok:
            # find the first failing file / error
            err = log[-3000:]
            import re
            m = re.search(r'File "\./([^"]+)", line (\d+)', log)
            where = f"{m.group(1)}:{m.group(2)}" if m else rel
            self.broken('proof', where, err)
            return False
        ok, out = common.coqc_file(rel, timeout=600)
        if not ok:
            self.broken('proof', rel, out[-3000:])
            return False
        axioms, closed = common.parse_assumptions(out)
        bad = common.bad_axioms(axioms)
        self.axioms = sorted(set(self.axioms) | set(axioms))
        if bad:
            self.broken('axioms', rel, f"non-whitelisted assumptions: {bad}")
            return False
        n_print = open(os.path.join(COQ, rel)).read().count('Print Assumptions')
        answered = closed + out.count('Axioms:')
        if answered < n_print:
            self.broken('proof', rel, f"Print Assumptions answered {answered}/{n_print}")
            return False
        self.discharged += thms
        self.log(f"proofs: {len(thms)} theorems in {rel} checked; axioms: "
                 f"{axioms if axioms else 'closed under the global context'}")
        return True

    def closure(self, props_file):
        """PV files that props_file depends on (transitively), by their `From PV Require` lines."""
        import re
        todo, seen = [props_file], []
        while todo:
            f = todo.pop()
            if f in seen or not os.path.exists(os.path.join(COQ, f)):
                continue
            seen.append(f)
            txt = re.sub(r'\(\*.*?\*\)', '', open(os.path.join(COQ, f)).read(), flags=re.S)
            for m in re.finditer(r'From\s+PV\s+Require\s+(?:Import\s+|Export\s+)?(.*?)\.(?=\s|$)', txt, re.S):
                for name in m.group(1).split():
                    todo.append(name.replace('.', '/') + '.v')
        return seen

    def coqchk(self, props_file, timeout=1500, norec=True):
        """thorough tier: re-check the compiled property file and every file of THIS development it depends on
        with the independent checker coqchk (-norec: the installed libraries they import are loaded, not
        re-checked - a full recursive re-check of Coquelicot/Interval/MathComp takes more than 40 minutes) and
        compare the axioms it reports with the whitelist."""
        import re
        mods = ['PV.' + f[:-2].replace('/', '.') for f in self.closure(props_file)]
        cmd = ['timeout', str(timeout), 'coqchk', '-silent', '-o', '-Q', '.', 'PV']
        if norec:
            for m_ in mods:
                cmd += ['-norec', m_]
        else:
            cmd += [mods[0]]
        self.checker_cmds.append(f"cd {COQ} && " + ' '.join(cmd[2:]))
        rc, out = common.sh(cmd, timeout + 30, cwd=COQ)
        if rc != 0:
            self.broken('coqchk', mods[0], out[-2000:])
            return False
        m = re.search(r'\* Axioms:(.*?)\n\s*\n\* Constants', out, re.S)
        axs = [a.strip() for a in (m.group(1).split() if m else []) if a.strip() and a.strip() != '<none>']
        axs = [a[4:] if a.startswith('Coq.') else a for a in axs]
        short = ['.'.join(a.split('.')[-2:]) for a in axs]
        # with -norec coqchk also lists every sealed constant of the libraries it did not re-check, so the axiom
        # list is judged only in the recursive mode (the per-theorem list is what Print Assumptions gives)
        bad = [] if norec else common.bad_axioms(short)
        for kind in ('type-in-type', 'unsafe (co)fixpoints', 'positivity is assumed'):
            mm = re.search(re.escape(kind) + r':\s*(\S+)', out)
            if mm and mm.group(1) != '<none>':
                bad.append(f"{kind}: {mm.group(1)}")
        self.coverage['coqchk'] = dict(modules=mods, mode='-norec' if norec else 'recursive',
                                       axioms=(f'{len(axs)} entries (sealed library constants included)' if norec else axs))
        if bad:
            self.broken('coqchk', mods[0], f"unexpected assumptions: {bad}")
            return False
        self.log(f"coqchk: {len(mods)} modules re-checked ({'-norec' if norec else 'recursive'})")
        return True

    def hygiene(self, props_file=None):
        """grep the development (or only the dependency closure of props_file) for forbidden declarations."""
        import re
        if props_file is None:
            vs = [os.path.join(d, f) for d, _, fs in os.walk(COQ) for f in fs
                  if f.endswith('.v') and '/Cases' not in d]
        else:
            seen = self.closure(props_file)
            vs = [os.path.join(COQ, f) for f in seen]
            self.coverage['hygiene_files'] = seen
        bad = common.forbidden_words(vs)
        if bad:
            self.broken('hygiene', 'forbidden declaration', bad[:20])
        return not bad

    # ---- correspondence bookkeeping
    def case(self, key, sample=None, nontrivial=True):
        self.evaluations += 1
        if nontrivial:
            self.distinct.add(key)
        if sample is not None and len(self.samples) < 6:
            self.samples.append(sample)

    def violation(self, what, replay):
        self.violations.append(dict(what=what, replay=replay))

    # ---- finish
    def finish(self, mod):
        wall = time.time() - self.t0
        known = common.load_known_findings()
        out_lines = []
        nviol = 0
        # a break without a concrete violation -> run the falsifier
        def _is_known(v):
            key = v['replay'].get('key') if isinstance(v['replay'], dict) else None
            return any(k['property'] == self.pid and key and k['key'] == key for k in known)
        if self.breaks and not [v for v in self.violations if not _is_known(v)] and hasattr(mod, 'falsify') \
                and not getattr(self, 'falsified', False):
            self.falsified = True
            self.log("running falsifier on the implementation ...")
            try:
                mod.falsify(self)
            except Exception:
                self.log("falsifier crashed:\n" + traceback.format_exc())
        os.makedirs(os.path.join(VERIF, 'replays'), exist_ok=True)
        for i, v in enumerate(self.violations):
            key = v['replay'].get('key') if isinstance(v['replay'], dict) else None
            kf = [k for k in known if k['property'] == self.pid and key and k['key'] == key]
            if kf:
                out_lines.append(f"KNOWN-FINDING: property={self.pid} {kf[0]['text']}")
                continue
            path = os.path.join(VERIF, 'replays', f"{self.pid}-{self.seed}-{i}.json")
            common.write_json(path, dict(property=self.pid, what=v['what'], replay=v['replay'],
                                         breaks=self.breaks))
            out_lines.append(f"VIOLATION property={self.pid} replay={path}")
            nviol += 1
        if self.breaks and nviol == 0 and not any(l.startswith('VIOLATION') for l in out_lines):
            # still a violation: the property is no longer shown to hold
            real_breaks = self.breaks
            path = os.path.join(VERIF, 'replays', f"{self.pid}-{self.seed}-broken.json")
            common.write_json(path, dict(property=self.pid, no_failing_input_found=True,
                                         broken=real_breaks,
                                         rerun=f"./check {self.pid} --tier {self.tier}"))
            out_lines.append(f"VIOLATION property={self.pid} replay={path} no-failing-input-found")
            nviol += 1
        cov = dict(self.coverage)
        cov.update(
            obligations=max(1, len(self.obligations)),
            discharged=len(self.discharged),
            checker_cmd="; ".join(self.checker_cmds) or "none run",
            trusted_base=self.trusted + [f"axioms (Print Assumptions): {', '.join(self.axioms) or 'none'}"],
            theorems=self.obligations,
            evaluations=self.evaluations,
            distinct_nontrivial=len(self.distinct),
            rule=getattr(mod, 'RULE', 'see DESIGN.md'),
            samples=self.samples or [dict(obligation=o) for o in self.obligations[:5]],
            breaks=self.breaks,
        )
        # keep the schema's typed keys typed whatever a harness stored under them (a harness bug must not make the
        # evidence file invalid): non-conforming values are kept under '<key>_detail'
        for k, typ in (('exhaustive', bool), ('states', int), ('transitions', int), ('programs', int),
                       ('traces_validated_against_impl', int), ('disagreements_checked', int), ('explanation', str)):
            if k in cov and (not isinstance(cov[k], typ) or (typ is int and isinstance(cov[k], bool))):
                cov[k + '_detail'] = cov.pop(k)
        ev = dict(property_id=self.pid, tier=self.tier, seed=self.seed, level='proof',
                  coverage=cov, assumptions=self.assumptions + self.notes,
                  wall_s=round(wall, 2), violations=nviol)
        common.write_json(os.path.join(VERIF, 'evidence', f"{self.pid}.json"), ev)
        for l in out_lines:
            print(l, flush=True)
        self.log(f"done: {len(self.discharged)}/{len(self.obligations)} obligations, "
                 f"{self.evaluations} evaluations, {nviol} violation(s), {wall:.1f}s")
        return 1 if nviol else 0


def main():
    ap = argparse.ArgumentParser()
    ap.add_argument('pid')
    ap.add_argument('--tier', default=os.environ.get('VERIF_TIER', 'quick'))
    ap.add_argument('--replay')
    a = ap.parse_args()
    seed = int(os.environ.get('VERIF_SEED', '0') or 0)
    tier = a.tier if a.tier in ('quick', 'thorough') else 'quick'
    mod = importlib.import_module(f"props.{a.pid}")
    if a.replay:
        sys.exit(mod.replay(json.load(open(a.replay))))
    r = Run(a.pid, tier, seed)
    # Overall time limit: a change that makes the code under test loop forever must end the check with a VIOLATION,
    # not hang it.  A timer THREAD (independent of the SIGALRM-based watchdogs some harnesses use) reports the
    # break, writes the evidence and the VIOLATION line, kills the check's own process group (worker processes,
    # coqc) and exits 1.
    import signal
    import threading
    limit = int(os.environ.get('VERIF_TIME_LIMIT', '0') or 0) or (2400 if tier == "quick" else 7200)
    try:
        os.setpgrp()
    except OSError:
        pass
    done = threading.Event()

    def _kill_children():
        # worker processes, make/coqc: everything in our process group except ourselves
        me = os.getpid()
        try:
            out = subprocess.run(['ps', '-o', 'pid=', '-g', str(os.getpgrp())], stdout=subprocess.PIPE,
                                 text=True).stdout.split()
            for p_ in out:
                if p_.isdigit() and int(p_) != me:
                    try:
                        os.kill(int(p_), signal.SIGKILL)
                    except OSError:
                        pass
        except Exception:
            pass

    def _expired():
        if done.is_set():
            return
        done.set()
        r.broken('harness', 'time limit exceeded',
                 f"the check did not finish within {limit} s (possible non-termination of the code under test)")
        r.falsified = True            # the falsifier would run the same code again
        try:
            r.finish(mod)
        finally:
            sys.stdout.flush()
            _kill_children()
            os._exit(1)
    timer = threading.Timer(limit, _expired)
    timer.daemon = True
    timer.start()
    try:
        mod.check(r)
    except Exception:
        r.broken('harness', 'exception in check', traceback.format_exc())
    if done.is_set():                 # the timer thread is reporting
        threading.Event().wait()
    done.set()
    timer.cancel()
    # the falsifier gets its own, shorter limit
    t2 = threading.Timer(max(900, limit // 2), lambda: (print(
        f"VIOLATION property={a.pid} replay={os.path.join(VERIF, 'replays', a.pid + '-timeout.json')} "
        f"no-failing-input-found", flush=True), os._exit(1)))
    t2.daemon = True
    t2.start()
    rc = r.finish(mod)
    t2.cancel()
    sys.stdout.flush()
    if rc:
        _kill_children()                      # leave no stray worker behind
    sys.exit(rc)


if __name__ == '__main__':
    main()
