"""Matrix-granularity symbolic tracer (translator front end for pyins/kalman.py).

The LIVE functions of $PYINS_REPO are called with symbolic matrix objects.  The
arguments have distinct dummy prime dimensions (n = 7, m = 5, ...), so that the
integers the code computes (`len(x)`, `np.eye(7)`, `np.zeros((14, 14))`, the slice
`H[:7, 7:]`) identify symbolic dimensions and block boundaries; the recorded
expression DAG is therefore generic in the dimensions and is printed as MathComp
definitions (one `Definition` per named local variable of the traced function, in
a `Section` whose variables are the field, the dimensions, the opaque library
oracles and the parameters).

During a trace the names `np`, `cholesky`, `cho_solve`, `solve_triangular`, `expm`
of the traced module are rebound to proxies.  Everything that is not understood
raises TraceError: the translator FAILS CLOSED.  In particular
  * dimension mismatches, broadcasting, in-place arithmetic, element indexing,
    comparisons, iteration, any numpy attribute other than eye/zeros;
  * `cholesky(..., lower=False)`, `solve_triangular` with trans/unit_diagonal/upper;
  * `overwrite_*=True` on a buffer that belongs to an input (inputs must not be
    modified), and any later use of a buffer a library call was allowed to destroy.

Naming.  Entries registered with `inline=True` (kalman.py) print ONLY the returned values,
`<prefix>_ret<i>`, as fully inlined expressions: the generated text then does not depend on
the names of local variables, on the order of statements, on private helper functions of the
module the work is delegated to, or on equivalent spellings (`a @ b`, `a.dot(b)`, `np.dot`,
`np.matmul`; `np.eye` / `np.identity`; `M * s` / `np.multiply(M, s)`; `cholesky(lower=True)` /
`cho_factor(lower=True)[0]` when only its lower triangle is read; positional / keyword
arguments).  The proofs refer to these outputs only.  Other entries (tools/reg/c11.py) keep the
named mode: a `sys.settrace` line hook watches the local variables of the traced function; the
value bound to local `v` becomes `<prefix>_v` (or `<prefix>_v<k>` when `v` is bound to several
values in turn); unnamed intermediates are printed inline.

Every run VALIDATES the traced IR: an independent numpy interpreter of the IR (library
primitives interpreted by their written Coq specifications: `cho_solve L B` =
solve(L L^T, B), `solve_triangular L e` = solve(L, e), `cholesky` = numpy.linalg.cholesky,
`expm` = scipy.linalg.expm) is compared with the real function on random inputs
of several dimensions (both C and Fortran memory order), to 1e-9 relative; the inputs
must come back bit-identical.

To trace another function: `register(...)` an entry (see the two at the end).
"""
import os
import sys
import random
import contextlib
import importlib
import traceback
from fractions import Fraction

REPO = os.environ.get('PYINS_REPO', '/repo')
if REPO not in sys.path:
    sys.path.insert(0, REPO)
HERE = os.path.dirname(os.path.abspath(__file__))
if HERE not in sys.path:
    sys.path.insert(0, HERE)

os.environ.setdefault('OPENBLAS_NUM_THREADS', '1')   # tiny matrices: threads only add latency
os.environ.setdefault('OMP_NUM_THREADS', '1')
import numpy as np
import scipy.linalg as sla

GEN_DIR = os.path.join(os.path.dirname(HERE), 'coq', 'Gen')


class TraceError(Exception):
    pass


# ---------------------------------------------------------------------------
# IR

class Node:
    """op:
      var name | eye | zeros | mul a b | add a b | sub a b | neg a | tr a | scale s a
      grid rowdims coldims {(i,j): node} | blk a (i0,i1) (j0,j1) | prim name [args]
    rdim / cdim: tuples of dimension atoms ('n', 'n') = n + n; cdim None = column vector."""
    __slots__ = ('op', 'args', 'rdim', 'cdim', 'name', 'uid')

    def __init__(self, tr, op, args, rdim, cdim):
        self.op, self.args, self.rdim, self.cdim = op, args, tuple(rdim), \
            (None if cdim is None else tuple(cdim))
        self.name = None
        self.uid = len(tr.nodes)
        tr.nodes.append(self)


class SNode:
    """scalar expressions: svar name | sconst Fraction | smul a b | sadd a b | ssub a b | sneg a | sinv a"""
    __slots__ = ('op', 'args')

    def __init__(self, op, args):
        self.op, self.args = op, args


class Buf:
    """identity of a memory buffer (views share it)."""
    __slots__ = ('input', 'dead')

    def __init__(self, input=None):
        self.input = input     # parameter name if the buffer belongs to an argument
        self.dead = None       # reason, once a library call was allowed to overwrite it


class Trace:
    def __init__(self, dims):
        self.dims = dict(dims)            # atom -> dummy prime size
        if len(set(self.dims.values())) != len(self.dims):
            raise TraceError("dummy dimensions must be distinct")
        self.nodes = []
        self.oracles = {}                 # name -> (rdim, cdim) of its (square) argument
        self.bindings = {}                # python local name -> [nodes in order of binding]
        self.bind_order = []              # (local name, node)

    def size(self, dim):
        return sum(self.dims[a] for a in dim)

    def dim_of_int(self, k, what):
        """the symbolic dimension with dummy size k: unique multiset of atoms, one kind only."""
        sols = []

        def rec(atoms, rest, acc):
            if not atoms:
                if rest == 0 and acc:
                    sols.append(list(acc))
                return
            a, p = atoms[0]
            c = 0
            while c * p <= rest and c <= 6:
                rec(atoms[1:], rest - c * p, acc + [(a, c)] if c else acc)
                c += 1
        rec(sorted(self.dims.items()), k, [])
        if len(sols) != 1:
            raise TraceError(f"{what}: integer {k} does not identify a dimension ({sols})")
        if len(sols[0]) != 1:
            raise TraceError(f"{what}: integer {k} mixes dimensions {sols[0]}; order unknown")
        a, c = sols[0][0]
        return (a,) * c

    def bind(self, var, node):
        if node.op == 'var':
            return
        lst = self.bindings.setdefault(var, [])
        if any(x is node for x in lst) or any(nd is node for _, nd in self.bind_order):
            return
        lst.append(node)
        self.bind_order.append((var, node))


TR = None      # the current trace


def _tr():
    if TR is None:
        raise TraceError("no trace in progress")
    return TR


# ---------------------------------------------------------------------------
# symbolic values

def _frac(x):
    if isinstance(x, bool):
        raise TraceError("boolean used as a number")
    if isinstance(x, (int, np.integer)):
        return Fraction(int(x))
    if isinstance(x, (float, np.floating)):
        f = Fraction(float(x))
        if f.denominator > 1024 or abs(f.numerator) > 10 ** 6:
            raise TraceError(f"float literal {x!r} has no short exact reading")
        return f
    raise TraceError(f"not a number: {x!r}")


class SymScalar:
    __array_ufunc__ = None

    def __init__(self, s):
        self.s = s

    @staticmethod
    def lift(x):
        if isinstance(x, SymScalar):
            return x
        return SymScalar(SNode('sconst', (_frac(x),)))

    def _bin(self, op, o, swap=False):
        if isinstance(o, SymMat):
            return NotImplemented
        o = SymScalar.lift(o)
        a, b = (o, self) if swap else (self, o)
        return SymScalar(SNode(op, (a.s, b.s)))

    def __mul__(self, o): return self._bin('smul', o)
    def __rmul__(self, o): return self._bin('smul', o, True)
    def __add__(self, o): return self._bin('sadd', o)
    def __radd__(self, o): return self._bin('sadd', o, True)
    def __sub__(self, o): return self._bin('ssub', o)
    def __rsub__(self, o): return self._bin('ssub', o, True)
    def __neg__(self): return SymScalar(SNode('sneg', (self.s,)))

    def __truediv__(self, o):
        o = SymScalar.lift(o)
        return SymScalar(SNode('smul', (self.s, SNode('sinv', (o.s,)))))

    def __rtruediv__(self, o):
        return SymScalar.lift(o) / self

    def _no(self, *a, **k):
        raise TraceError("symbolic scalar used where a concrete number is needed")
    __bool__ = __float__ = __int__ = __index__ = __lt__ = __le__ = __gt__ = __ge__ = _no
    __eq__ = __ne__ = __pow__ = __abs__ = _no
    __hash__ = object.__hash__

    def __getattr__(self, name):
        raise TraceError(f"scalar attribute .{name} is not modelled")


def _is_scalar(x):
    return isinstance(x, (SymScalar, int, float, np.integer, np.floating)) and not isinstance(x, bool)


class SymMat:
    """symbolic matrix (2-D) or column vector (1-D)."""
    __array_ufunc__ = None

    def __init__(self, node, buf=None):
        self.__dict__['_n'] = node
        self.__dict__['_buf'] = buf or Buf()
        self.__dict__['_var'] = None

    # -- the IR node this object currently denotes
    def _node(self):
        return self._n

    def _use(self, tri_ok=False):
        if self._buf.dead:
            raise TraceError("use of a buffer after " + self._buf.dead)
        if self.__dict__.get('_tri') and not tri_ok:
            raise TraceError("the factor returned by cho_factor is only specified in its lower triangle: it may "
                             "only be passed to cho_solve / solve_triangular(lower=True)")
        return self._node()

    def _named(self, var):
        self.__dict__['_var'] = var
        _tr().bind(var, self._node())

    # -- numpy-like surface
    @property
    def shape(self):
        n = self._use()
        t = _tr()
        return (t.size(n.rdim),) if n.cdim is None else (t.size(n.rdim), t.size(n.cdim))

    @property
    def ndim(self):
        return 1 if self._use().cdim is None else 2

    def __len__(self):
        return self.shape[0]

    @property
    def T(self):
        n = self._use()
        if n.cdim is None:
            return SymMat(n, self._buf)                     # numpy: 1-D .T is the same view
        return SymMat(Node(_tr(), 'tr', (n,), n.cdim, n.rdim), self._buf)

    def transpose(self, *axes):
        if axes:
            raise TraceError("transpose with axes")
        return self.T

    def copy(self):
        return SymMat(self._use())

    def __matmul__(self, o):
        return _mul(self, o)

    def __rmatmul__(self, o):
        return _mul(o, self)

    def dot(self, o):
        return _mul(self, o)

    def __add__(self, o): return _addsub('add', self, o)
    def __radd__(self, o): return _addsub('add', o, self)
    def __sub__(self, o): return _addsub('sub', self, o)
    def __rsub__(self, o): return _addsub('sub', o, self)

    def __neg__(self):
        n = self._use()
        return SymMat(Node(_tr(), 'neg', (n,), n.rdim, n.cdim))

    def __pos__(self):
        return SymMat(self._use())

    def __mul__(self, o): return _scale(o, self)
    def __rmul__(self, o): return _scale(o, self)

    def __truediv__(self, o):
        if not _is_scalar(o):
            raise TraceError("elementwise division of matrices")
        return _scale(1 / SymScalar.lift(o) if isinstance(o, SymScalar)
                      else SymScalar.lift(1) / SymScalar.lift(o), self)

    def __getitem__(self, key):
        n = self._use()
        rs, cs = _slices(n, key)
        if rs == (0, len(n.rdim)) and (cs is None or cs == (0, len(n.cdim))):
            return SymMat(n, self._buf)
        rdim = n.rdim[rs[0]:rs[1]]
        cdim = None if cs is None else n.cdim[cs[0]:cs[1]]
        return SymMat(Node(_tr(), 'blk', (n, rs, cs), rdim, cdim), self._buf)

    def __setitem__(self, key, val):
        raise TraceError("assignment into a matrix that was not created by np.zeros"
                         + (f" (input {self._buf.input} would be modified)" if self._buf.input else ""))

    def _no(self, *a, **k):
        raise TraceError("operation on a symbolic matrix is not modelled"
                         " (in-place arithmetic, comparison, iteration, truth value, power, ...)")
    __iadd__ = __isub__ = __imul__ = __itruediv__ = __imatmul__ = _no
    __bool__ = __iter__ = __lt__ = __le__ = __gt__ = __ge__ = __eq__ = __ne__ = _no
    __pow__ = __abs__ = __float__ = __array__ = __rtruediv__ = __floordiv__ = __mod__ = _no
    __hash__ = object.__hash__

    def __getattr__(self, name):
        raise TraceError(f"matrix attribute .{name} is not modelled")

    def __setattr__(self, name, val):
        raise TraceError(f"setting matrix attribute .{name}")


def _slices(n, key):
    """block ranges (in atoms) selected by a slicing key at block boundaries."""
    t = _tr()
    if n.cdim is None:
        keys = key if isinstance(key, tuple) else (key,)
        if len(keys) != 1:
            raise TraceError("vector indexed with several indices")
        return _slice1(t, n.rdim, keys[0]), None
    if not isinstance(key, tuple):
        key = (key, slice(None))
    if len(key) != 2:
        raise TraceError("matrix indexed with a wrong number of indices")
    return _slice1(t, n.rdim, key[0]), _slice1(t, n.cdim, key[1])


def _slice1(t, dim, s):
    if not isinstance(s, slice) or s.step not in (None, 1):
        raise TraceError(f"index {s!r}: only slices at block boundaries are modelled")
    total = t.size(dim)
    lo = 0 if s.start is None else s.start
    hi = total if s.stop is None else s.stop
    for v in (lo, hi):
        if isinstance(v, bool) or not isinstance(v, (int, np.integer)):
            raise TraceError(f"slice bound {v!r} is not an integer")
    if lo < 0 or hi > total or lo >= hi:
        raise TraceError(f"slice [{lo}:{hi}] outside 0..{total} or empty")
    cuts = [0]
    for a in dim:
        cuts.append(cuts[-1] + t.dims[a])
    if lo not in cuts or hi not in cuts:
        raise TraceError(f"slice [{lo}:{hi}] is not at block boundaries {cuts}")
    return cuts.index(lo), cuts.index(hi)


def _mat(x, what, tri_ok=False):
    if not isinstance(x, SymMat):
        raise TraceError(f"{what}: operand {type(x).__name__} is not a symbolic matrix")
    return x._use(tri_ok)


def _mul(a, b):
    a, b = _mat(a, 'matmul'), _mat(b, 'matmul')
    if a.cdim is None:
        raise TraceError("matmul: vector on the left (row-vector products are not modelled)")
    if a.cdim != b.rdim:
        raise TraceError(f"matmul: inner dimensions differ: {a.cdim} vs {b.rdim}")
    return SymMat(Node(_tr(), 'mul', (a, b), a.rdim, b.cdim))


def _addsub(op, a, b):
    if _is_scalar(a) or _is_scalar(b):
        raise TraceError("broadcast of a scalar over a matrix")
    a, b = _mat(a, op), _mat(b, op)
    if (a.rdim, a.cdim) != (b.rdim, b.cdim):
        raise TraceError(f"{op}: shapes differ (broadcasting is not modelled): "
                         f"{(a.rdim, a.cdim)} vs {(b.rdim, b.cdim)}")
    return SymMat(Node(_tr(), op, (a, b), a.rdim, a.cdim))


def _scale(s, m):
    if isinstance(s, SymMat):
        raise TraceError("elementwise product of matrices")
    if not _is_scalar(s):
        raise TraceError(f"product of a matrix with {type(s).__name__}")
    n = m._use()
    return SymMat(Node(_tr(), 'scale', (SymScalar.lift(s).s, n), n.rdim, n.cdim))


class SymZeros(SymMat):
    """np.zeros(...) / np.empty(...) followed by block assignments; frozen into a 'grid' node when read.
    Blocks may be assigned through any slice object (slice(), np.s_[...], Ellipsis), directly or through a view
    `M[rows, cols][...] = value`; a block may be set to the scalar 0; with np.empty every block must be assigned
    before the matrix is read."""

    def __init__(self, shape, initialised=True):
        SymMat.__init__(self, None)
        self.__dict__['_shape'] = shape           # ints
        self.__dict__['_assign'] = []             # (r0, r1, c0, c1, node or None = zero block)
        self.__dict__['_frozen'] = None
        self.__dict__['_initialised'] = initialised

    def _node(self):
        if self._frozen is None:
            self.__dict__['_frozen'] = self._freeze()
            if self._var:
                _tr().bind(self._var, self._frozen)
        return self._frozen

    def _named(self, var):
        self.__dict__['_var'] = var
        if self._frozen is not None:
            _tr().bind(var, self._frozen)

    def _ranges(self, key, what):
        keys = key if isinstance(key, tuple) else (key,)
        if len(keys) == 1 and keys[0] is Ellipsis:
            keys = (slice(None),) * len(self._shape)
        if len(keys) != len(self._shape):
            raise TraceError(f"{what}: wrong number of indices")
        rng = []
        for s, total in zip(keys, self._shape):
            if s is Ellipsis:
                s = slice(None)
            if not isinstance(s, slice) or s.step not in (None, 1):
                raise TraceError(f"{what} index {s!r}: only slices are modelled")
            lo = 0 if s.start is None else s.start
            hi = total if s.stop is None else s.stop
            if not all(isinstance(x, (int, np.integer)) and not isinstance(x, bool) for x in (lo, hi)) \
                    or lo < 0 or hi > total or lo >= hi:
                raise TraceError(f"{what} slice [{lo}:{hi}] outside 0..{total} or empty")
            rng.append((int(lo), int(hi)))
        return rng

    def __getitem__(self, key):
        rng = self._ranges(key, 'block view')
        return _ZerosView(self, rng)

    def __setitem__(self, key, val):
        self._set(self._ranges(key, 'block assignment'), val)

    def _set(self, rng, val):
        if self._buf.dead:
            raise TraceError("assignment into a buffer after " + self._buf.dead)
        one_d = len(self._shape) == 1
        if _is_scalar(val) and not isinstance(val, SymScalar):
            if float(val) != 0.0:
                raise TraceError("block assignment of a non-zero scalar (broadcasting is not modelled)")
            v = None                                            # explicit zero block
        else:
            v = _mat(val, 'block assignment')
            t = _tr()
            if t.size(v.rdim) != rng[0][1] - rng[0][0] or \
                    (not one_d and (v.cdim is None or t.size(v.cdim) != rng[1][1] - rng[1][0])) or \
                    (one_d and v.cdim is not None):
                raise TraceError("block assignment: value shape differs from the target block "
                                 "(broadcasting is not modelled)")
        (r0, r1), (c0, c1) = rng[0], (rng[1] if not one_d else (0, 1))
        self._assign.append((r0, r1, c0, c1, v))
        self.__dict__['_frozen'] = None

    def _freeze(self):
        t = _tr()
        one_d = len(self._shape) == 1

        def partition(total, ranges, axis):
            cuts = sorted({0, total} | {x for lo, hi, _ in ranges for x in (lo, hi)})
            segs = list(zip(cuts[:-1], cuts[1:]))
            dims = []
            for (lo, hi) in segs:
                ds = {d for (a, b, d) in ranges if (a, b) == (lo, hi) and d is not None}
                if any(a < hi and b > lo and (a, b) != (lo, hi) for (a, b, _) in ranges):
                    raise TraceError(f"np.zeros blocks: overlapping / nested {axis} ranges")
                if len(ds) > 1:
                    raise TraceError(f"np.zeros blocks: {axis} range [{lo}:{hi}] has dimensions {ds}")
                dims.append(ds.pop() if ds else t.dim_of_int(hi - lo, f"unassigned {axis} range [{lo}:{hi}]"))
            return segs, dims

        rsegs, rdims = partition(self._shape[0],
                                 [(r0, r1, None if v is None else v.rdim) for r0, r1, _, _, v in self._assign], 'row')
        if one_d:
            csegs, cdims = [(0, 1)], [None]
        else:
            csegs, cdims = partition(self._shape[1],
                                     [(c0, c1, None if v is None else v.cdim) for _, _, c0, c1, v in self._assign],
                                     'column')
        blocks, seen = {}, set()
        for r0, r1, c0, c1, v in self._assign:          # later assignments win
            key = (rsegs.index((r0, r1)), csegs.index((c0, c1)))
            seen.add(key)
            if v is None:
                blocks.pop(key, None)
            else:
                blocks[key] = v
        if not self._initialised:
            missing = [(i, j) for i in range(len(rsegs)) for j in range(len(csegs)) if (i, j) not in seen]
            if missing:
                raise TraceError(f"np.empty: blocks {missing} are read before they are assigned")
        rdim = tuple(a for d in rdims for a in d)
        cdim = None if one_d else tuple(a for d in cdims for a in d)
        if not blocks:
            return Node(t, 'zeros', (), rdim, cdim)
        return Node(t, 'grid', (tuple(rdims), tuple(cdims), blocks), rdim, cdim)


class _ZerosView(SymMat):
    """M[rows, cols] of a matrix under construction: reading it reads the block of the matrix as built so far;
    `view[...] = value` (or a full slice) assigns the block of the parent."""

    def __init__(self, parent, rng):
        SymMat.__init__(self, None, parent._buf)
        self.__dict__['_parent'] = parent
        self.__dict__['_rng'] = rng

    def _node(self):
        p = self._parent
        key = tuple(slice(lo, hi) for lo, hi in self._rng)
        n = p._node()
        rs, cs = _slices(n, key if len(key) > 1 else key[0])
        if rs == (0, len(n.rdim)) and (cs is None or cs == (0, len(n.cdim))):
            return n
        cache = self.__dict__.setdefault('_cache', {})
        if id(n) not in cache:
            rdim = n.rdim[rs[0]:rs[1]]
            cdim = None if cs is None else n.cdim[cs[0]:cs[1]]
            cache[id(n)] = Node(_tr(), 'blk', (n, rs, cs), rdim, cdim)
        return cache[id(n)]

    def _named(self, var):
        self.__dict__['_var'] = var

    def __getitem__(self, key):
        return SymMat(self._use(), self._buf)[key]

    def __setitem__(self, key, val):
        keys = key if isinstance(key, tuple) else (key,)
        full = all(k is Ellipsis or (isinstance(k, slice) and k == slice(None)) for k in keys)
        if not full or len(keys) > len(self._rng):
            raise TraceError("assignment into a part of a block view is not modelled")
        self._parent._set(self._rng, val)


# ---------------------------------------------------------------------------
# proxies for numpy / scipy.linalg names of the traced module

class _NpProxy:
    def eye(self, N, M=None, k=0, dtype=float):
        if M is not None or k != 0 or dtype is not float:
            raise TraceError("np.eye: only eye(n) is modelled")
        d = _tr().dim_of_int(_int(N, 'np.eye'), 'np.eye')
        return SymMat(Node(_tr(), 'eye', (), d, d))

    def identity(self, n, dtype=float):
        return self.eye(n, dtype=dtype)

    # equivalent spellings of the modelled operations
    def dot(self, a, b):
        return _mul(a, b)

    def matmul(self, x1, x2):
        return _mul(x1, x2)

    def multiply(self, x1, x2):
        if isinstance(x1, SymMat) and isinstance(x2, SymMat):
            raise TraceError("np.multiply: elementwise product of matrices")
        return _scale(x2, x1) if isinstance(x1, SymMat) else _scale(x1, x2)

    def add(self, x1, x2):
        return _addsub('add', x1, x2)

    def subtract(self, x1, x2):
        return _addsub('sub', x1, x2)

    def negative(self, x):
        return -x if isinstance(x, SymMat) else _no_sym('np.negative')

    def transpose(self, a, axes=None):
        if axes is not None or not isinstance(a, SymMat):
            raise TraceError("np.transpose: only transpose(matrix)")
        return a.T

    def zeros(self, shape, dtype=float, order='C'):
        if dtype is not float:
            raise TraceError("np.zeros: dtype")
        if isinstance(shape, (int, np.integer)):
            shape = (shape,)
        shape = tuple(_int(s, 'np.zeros') for s in shape)
        if len(shape) not in (1, 2) or min(shape) <= 0:
            raise TraceError(f"np.zeros: shape {shape}")
        return SymZeros(shape)

    def empty(self, shape, dtype=float, order='C'):
        z = self.zeros(shape, dtype=dtype, order=order)
        z.__dict__['_initialised'] = False           # every block must be assigned before the matrix is read
        return z

    s_ = np.s_
    index_exp = np.index_exp

    def swapaxes(self, a, axis1, axis2):
        if not isinstance(a, SymMat) or a.ndim != 2 or {axis1 % 2, axis2 % 2} != {0, 1}:
            raise TraceError("np.swapaxes: only the transposition of a matrix")
        return a.T

    def __getattr__(self, name):
        raise TraceError(f"np.{name} is not modelled")


def _no_sym(what):
    raise TraceError(f"{what}: operand is not a symbolic matrix")


def _int(x, what):
    if isinstance(x, bool) or not isinstance(x, (int, np.integer)):
        raise TraceError(f"{what}: {x!r} is not a concrete integer")
    return int(x)


def _consume(x, flag, what):
    if flag is False or flag is None:
        return
    if flag is not True:
        raise TraceError(f"{what}: overwrite flag {flag!r}")
    if x._buf.input:
        raise TraceError(f"{what}: overwrite permitted on a buffer of input {x._buf.input!r} "
                         "(inputs must not be modified)")
    x._buf.dead = f"{what} was allowed to overwrite it"


def _square(n, what):
    if n.cdim is None or n.rdim != n.cdim:
        raise TraceError(f"{what}: matrix is not square: {(n.rdim, n.cdim)}")


def _oracle(name, n):
    t = _tr()
    if t.oracles.setdefault(name, (n.rdim, n.cdim)) != (n.rdim, n.cdim):
        raise TraceError(f"{name} used at two different dimensions")
    return SymMat(Node(t, 'prim', (name, (n,)), n.rdim, n.cdim))


def _p_cholesky(a, lower=False, overwrite_a=False, check_finite=True):
    n = _mat(a, 'cholesky')
    _square(n, 'cholesky')
    if lower is not True:
        raise TraceError("cholesky(lower=False): the upper factor is not what the specification "
                         "of correct() assumes (L lower, L L^T = S)")
    out = _oracle('cholesky', n)
    _consume(a, overwrite_a, 'cholesky(overwrite_a=True)')
    return out


def _p_cho_factor(a, lower=False, overwrite_a=False, check_finite=True):
    """cho_factor(a, lower=True) = (c, True) where only the lower triangle of c is specified (= cholesky(a,
    lower=True) there).  The value is recorded as the same primitive `cholesky a`, flagged so that it can only be
    consumed by cho_solve / solve_triangular(lower=True), which read the lower triangle only."""
    out = _p_cholesky(a, lower=lower, overwrite_a=overwrite_a, check_finite=check_finite)
    out.__dict__['_tri'] = True
    return out, True


def _p_cho_solve(c_and_lower, b, overwrite_b=False, check_finite=True):
    if not (isinstance(c_and_lower, tuple) and len(c_and_lower) == 2):
        raise TraceError("cho_solve: first argument must be the pair (c, lower)")
    c, lower = c_and_lower
    if lower is not True:
        raise TraceError("cho_solve((c, False), ...): upper factor not specified")
    cn, bn = _mat(c, 'cho_solve', tri_ok=True), _mat(b, 'cho_solve')
    _square(cn, 'cho_solve')
    if cn.cdim != bn.rdim:
        raise TraceError(f"cho_solve: dimensions differ: {cn.cdim} vs {bn.rdim}")
    out = SymMat(Node(_tr(), 'prim', ('cho_solve', (cn, bn)), bn.rdim, bn.cdim))
    _consume(b, overwrite_b, 'cho_solve(overwrite_b=True)')
    return out


def _p_solve_triangular(a, b, trans=0, lower=False, unit_diagonal=False, overwrite_b=False,
                        check_finite=True):
    if lower is not True or trans not in (0, 'N') or unit_diagonal is not False:
        raise TraceError("solve_triangular: only (lower=True, trans=0, unit_diagonal=False) is specified")
    an, bn = _mat(a, 'solve_triangular', tri_ok=True), _mat(b, 'solve_triangular')
    _square(an, 'solve_triangular')
    if an.cdim != bn.rdim:
        raise TraceError(f"solve_triangular: dimensions differ: {an.cdim} vs {bn.rdim}")
    out = SymMat(Node(_tr(), 'prim', ('solve_triangular', (an, bn)), bn.rdim, bn.cdim))
    _consume(b, overwrite_b, 'solve_triangular(overwrite_b=True)')
    return out


def _p_expm(a):
    n = _mat(a, 'expm')
    _square(n, 'expm')
    return _oracle('expm', n)


PROXIES = dict(np=_NpProxy(), cholesky=_p_cholesky, cho_factor=_p_cho_factor, cho_solve=_p_cho_solve,
               solve_triangular=_p_solve_triangular, expm=_p_expm)
# oracles become Section variables; the others are definitions of Spec/LibSpecsMx.v
ORACLES = ('cholesky', 'expm')


@contextlib.contextmanager
def patched(mod):
    """rebind every library name the module imported; unknown library names fail closed."""
    saved = []
    try:
        for attr, val in list(vars(mod).items()):
            if attr.startswith('__'):
                continue
            owner = getattr(val, '__module__', None) or getattr(val, '__name__', '')
            lib = isinstance(owner, str) and owner.split('.')[0] in ('numpy', 'scipy')
            if attr in PROXIES:
                saved.append((attr, val))
                setattr(mod, attr, PROXIES[attr])
            elif lib:
                saved.append((attr, val))

                def unknown(*a, _n=attr, **k):
                    raise TraceError(f"library function {_n} is not specified")
                setattr(mod, attr, unknown)
        yield
    finally:
        for attr, val in reversed(saved):
            setattr(mod, attr, val)


# ---------------------------------------------------------------------------
# registry

REGISTRY = []


def register(gen_module, pymod, func, prefix, dims, params, sampler, nval=60, tol=1e-9, inline=False):
    """dims: [(atom, dummy prime)]; params: [(python name, ('n',) | ('m','n') | 'scalar')];
    sampler(rng) -> (dict atom -> size, dict param -> ndarray/float)."""
    REGISTRY.append(dict(gen_module=gen_module, pymod=pymod, func=func, prefix=prefix, dims=dims,
                         params=params, sampler=sampler, nval=nval, tol=tol, inline=inline))


def live_function(e):
    mod = importlib.import_module(e['pymod'])
    return mod, getattr(mod, e['func'])


def trace_entry(e):
    """call the live function on symbolic arguments; returns (Trace, param nodes, return nodes)."""
    global TR
    mod, fn = live_function(e)
    t = Trace(e['dims'])
    args, pnodes = [], []
    for name, kind in e['params']:
        if kind == 'scalar':
            s = SNode('svar', (name,))
            args.append(SymScalar(s))
            pnodes.append((name, kind, s))
        else:
            rd = (kind[0],)
            cd = (kind[1],) if len(kind) == 2 else None
            nd = Node(t, 'var', (name,), rd, cd)
            nd.name = name
            args.append(SymMat(nd, Buf(input=name)))
            pnodes.append((name, kind, nd))
    code = fn.__code__

    def scan(frame):
        for var, val in list(frame.f_locals.items()):
            if isinstance(val, SymMat) and not val._buf.dead:
                val._named(var)

    def local(frame, event, arg):
        if event in ('line', 'return'):
            scan(frame)
        return local

    def glob(frame, event, arg):
        return local if (event == 'call' and frame.f_code is code) else None

    old = sys.gettrace()
    TR = t
    try:
        with patched(mod):
            sys.settrace(glob)
            try:
                out = fn(*args)
            finally:
                sys.settrace(old)
        outs = out if isinstance(out, tuple) else (out,)
        rets = []
        for i, o in enumerate(outs):
            if not isinstance(o, SymMat):
                raise TraceError(f"return value {i} is {type(o).__name__}, not a symbolic matrix")
            rets.append(o._use())
    finally:
        TR = None
    # names (named mode only; inline entries print nothing but the outputs)
    for var, lst in ({} if e.get('inline') else t.bindings).items():
        for k, nd in enumerate(lst):
            if nd.name is None:
                nd.name = f"{e['prefix']}_{var}" + (str(k) if len(lst) > 1 else "")
    return t, pnodes, rets


# ---------------------------------------------------------------------------
# printer (MathComp)

def _dim_s(d):
    if len(d) == 1:
        return d[0]
    return "(" + d[0] + " + " + _dim_s(d[1:]) + ")"


def _ty(rdim, cdim):
    def bare(d):
        s = _dim_s(d)
        return s[1:-1] if s.startswith('(') else s
    if cdim is None:
        return f"'cV[F]_{_dim_s(rdim)}"
    if rdim == cdim:
        return f"'M[F]_{_dim_s(rdim)}"
    return f"'M[F]_({bare(rdim)}, {bare(cdim)})"


ATOM, POST, APP, NEG, MUL, ADD = 100, 90, 80, 60, 40, 30


def _paren(sp, need):
    s, p = sp
    return s if p >= need else "(" + s + ")"


class Printer:
    def __init__(self, rename):
        self.rename = rename

    def scalar(self, s):
        op = s.op
        if op == 'svar':
            return self.rename(s.args[0]), ATOM
        if op == 'sconst':
            f = s.args[0]
            num = f"{abs(f.numerator)}%:R"
            txt = num if f.denominator == 1 else f"({num} / {f.denominator}%:R)"
            return (txt, ATOM) if f >= 0 else (f"- {txt}", NEG)
        if op == 'smul':
            return _paren(self.scalar(s.args[0]), MUL) + " * " + _paren(self.scalar(s.args[1]), MUL + 1), MUL
        if op == 'sadd':
            return _paren(self.scalar(s.args[0]), ADD) + " + " + _paren(self.scalar(s.args[1]), ADD + 1), ADD
        if op == 'ssub':
            return _paren(self.scalar(s.args[0]), ADD) + " - " + _paren(self.scalar(s.args[1]), ADD + 1), ADD
        if op == 'sneg':
            return "- " + _paren(self.scalar(s.args[0]), POST), NEG
        if op == 'sinv':
            return _paren(self.scalar(s.args[0]), ATOM) + "^-1", POST
        raise TraceError(f"printer: scalar op {op}")

    def ref(self, n):
        """expression for a use of node n (its name if it has one)."""
        if n.name is not None:
            return (self.rename(n.name) if n.op == 'var' else n.name), ATOM
        return self.body(n)

    def body(self, n):
        op, a = n.op, n.args
        if op == 'var':
            return self.rename(a[0]), ATOM
        if op == 'eye':
            return "1%:M", ATOM
        if op == 'zeros':
            return "0", ATOM
        if op == 'mul':
            return _paren(self.ref(a[0]), MUL) + " *m " + _paren(self.ref(a[1]), MUL + 1), MUL
        if op == 'add':
            return _paren(self.ref(a[0]), ADD) + " + " + _paren(self.ref(a[1]), ADD + 1), ADD
        if op == 'sub':
            return _paren(self.ref(a[0]), ADD) + " - " + _paren(self.ref(a[1]), ADD + 1), ADD
        if op == 'neg':
            return "- " + _paren(self.ref(a[0]), POST), NEG
        if op == 'tr':
            return _paren(self.ref(a[0]), ATOM) + "^T", POST
        if op == 'scale':
            return _paren(self.scalar(a[0]), MUL) + " *: " + _paren(self.ref(a[1]), MUL + 1), MUL
        if op == 'prim':
            return a[0] + " " + " ".join(_paren(self.ref(x), POST) for x in a[1]), APP
        if op == 'grid':
            return self.grid(n), APP
        if op == 'blk':
            return self.blk(n), APP
        raise TraceError(f"printer: op {op}")

    def grid(self, n):
        rdims, cdims, blocks = n.args

        def cell(i, j):
            b = blocks.get((i, j))
            return "0" if b is None else _paren(self.ref(b), POST)
        if n.cdim is None:
            def col(i):
                return cell(i, 0) if i == len(rdims) - 1 else f"(col_mx {cell(i, 0)} {col(i + 1)})"
            s = col(0)
            return s[1:-1] if s.startswith('(col_mx') else s
        if len(rdims) == 2 and len(cdims) == 2:
            return f"block_mx {cell(0, 0)} {cell(0, 1)} {cell(1, 0)} {cell(1, 1)}"

        def row(i, j):
            return cell(i, j) if j == len(cdims) - 1 else f"(row_mx {cell(i, j)} {row(i, j + 1)})"

        def rows(i):
            return row(i, 0) if i == len(rdims) - 1 else f"(col_mx {row(i, 0)} {rows(i + 1)})"
        s = rows(0)
        return s[1:-1] if s.startswith('(') else s

    def blk(self, n):
        a, rs, cs = n.args
        arg = _paren(self.ref(a), POST)
        nr = len(a.rdim)
        nc = None if a.cdim is None else len(a.cdim)

        def half(rng, k):
            if rng == (0, k):
                return 'all'
            if k == 2 and rng == (0, 1):
                return 'first'
            if k == 2 and rng == (1, 2):
                return 'second'
            raise TraceError(f"printer: sub-block {rng} of {k} blocks (only 2-way splits are printed)")
        r = half(rs, nr)
        c = 'all' if cs is None else half(cs, nc)
        table = {('first', 'first'): 'ulsubmx', ('first', 'second'): 'ursubmx',
                 ('second', 'first'): 'dlsubmx', ('second', 'second'): 'drsubmx',
                 ('first', 'all'): 'usubmx', ('second', 'all'): 'dsubmx',
                 ('all', 'first'): 'lsubmx', ('all', 'second'): 'rsubmx'}
        return f"{table[(r, c)]} {arg}"


HEADER = """(* GENERATED by /verif/tools/gen_mx.py from $PYINS_REPO/pyins/%s -- do not edit. *)
From mathcomp Require Import all_ssreflect all_algebra.
From PV Require Import Spec.LibSpecsMx.
Set Implicit Arguments.
Unset Strict Implicit.
Import GRing.Theory.
Local Open Scope ring_scope.
"""


def print_entry(e, t, pnodes, rets):
    reserved = {'F'} | set(t.dims) | set(t.oracles) | {'cho_solve', 'solve_triangular'}

    def rename(name):
        return name + '_' if name in reserved else name
    pr = Printer(rename)
    L = [f"Section {e['func']}.", "Variable F : fieldType."]
    atoms = [a for a, _ in e['dims']]
    L.append(("Variables " if len(atoms) > 1 else "Variable ") + " ".join(atoms) + " : nat.")
    for name in ORACLES:
        if name in t.oracles:
            ty = _ty(*t.oracles[name])
            L.append(f"Variable {name} : {ty} -> {ty}.")
    ps = []
    for name, kind, nd in pnodes:
        ps.append(f"({rename(name)} : " + ("F" if kind == 'scalar' else _ty(nd.rdim, nd.cdim)) + ")")
    L.append("Variables " + " ".join(ps) + ".")
    for nd in t.nodes:
        if nd.name is not None and nd.op != 'var':
            L.append(f"Definition {nd.name} : {_ty(nd.rdim, nd.cdim)} := {pr.body(nd)[0]}.")
    for i, nd in enumerate(rets):
        L.append(f"Definition {e['prefix']}_ret{i} : {_ty(nd.rdim, nd.cdim)} := {pr.ref(nd)[0]}.")
    L.append(f"End {e['func']}.")
    return "\n".join(L) + "\n"


# ---------------------------------------------------------------------------
# independent interpreter of the IR (numpy) and validation against the live function

def eval_scalar(s, env):
    op, a = s.op, s.args
    if op == 'svar':
        return float(env[a[0]])
    if op == 'sconst':
        return float(a[0])
    if op == 'smul':
        return eval_scalar(a[0], env) * eval_scalar(a[1], env)
    if op == 'sadd':
        return eval_scalar(a[0], env) + eval_scalar(a[1], env)
    if op == 'ssub':
        return eval_scalar(a[0], env) - eval_scalar(a[1], env)
    if op == 'sneg':
        return -eval_scalar(a[0], env)
    if op == 'sinv':
        return 1.0 / eval_scalar(a[0], env)
    raise TraceError(f"interpreter: scalar op {op}")


def eval_node(n, env, sizes, memo):
    """sizes: atom -> concrete size; env: param -> ndarray (vectors 1-D) / float."""
    if n.uid in memo:
        return memo[n.uid]
    ev = lambda x: eval_node(x, env, sizes, memo)
    sz = lambda d: sum(sizes[a] for a in d)
    op, a = n.op, n.args
    if op == 'var':
        v = np.array(env[a[0]], dtype=float)
    elif op == 'eye':
        v = np.eye(sz(n.rdim))
    elif op == 'zeros':
        v = np.zeros(sz(n.rdim)) if n.cdim is None else np.zeros((sz(n.rdim), sz(n.cdim)))
    elif op == 'mul':
        v = np.matmul(ev(a[0]), ev(a[1]))
    elif op == 'add':
        v = ev(a[0]) + ev(a[1])
    elif op == 'sub':
        v = ev(a[0]) - ev(a[1])
    elif op == 'neg':
        v = -ev(a[0])
    elif op == 'tr':
        v = ev(a[0]).T
    elif op == 'scale':
        v = eval_scalar(a[0], env) * ev(a[1])
    elif op == 'grid':
        rdims, cdims, blocks = a
        if n.cdim is None:
            v = np.concatenate([ev(blocks[(i, 0)]) if (i, 0) in blocks else np.zeros(sz(rd))
                                for i, rd in enumerate(rdims)])
        else:
            v = np.block([[ev(blocks[(i, j)]) if (i, j) in blocks else np.zeros((sz(rd), sz(cd)))
                           for j, cd in enumerate(cdims)] for i, rd in enumerate(rdims)])
    elif op == 'blk':
        m = ev(a[0])
        rs, cs = a[1], a[2]
        r0, r1 = sz(a[0].rdim[:rs[0]]), sz(a[0].rdim[:rs[1]])
        if cs is None:
            v = m[r0:r1]
        else:
            c0, c1 = sz(a[0].cdim[:cs[0]]), sz(a[0].cdim[:cs[1]])
            v = m[r0:r1, c0:c1]
    elif op == 'prim':
        name, xs = a
        xs = [ev(x) for x in xs]
        if name == 'cholesky':
            v = np.linalg.cholesky(xs[0])                       # lower, L L^T = S
        elif name == 'cho_solve':                                # Spec: invmx (L L^T) *m B
            v = np.linalg.solve(xs[0] @ xs[0].T, xs[1])
        elif name == 'solve_triangular':                         # Spec: invmx L *m B
            v = np.linalg.solve(xs[0], xs[1])
        elif name == 'expm':
            v = sla.expm(xs[0])
        else:
            raise TraceError(f"interpreter: primitive {name}")
    else:
        raise TraceError(f"interpreter: op {op}")
    memo[n.uid] = v
    return v


def validate_entry(e, t, rets, rng):
    _, fn = live_function(e)
    worst, count = 0.0, 0
    shapes = set()
    for k in range(e['nval']):
        sizes, env = e['sampler'](rng)
        order = 'F' if k % 2 else 'C'
        args = [np.array(env[name], dtype=float, order=order) if kind != 'scalar' else float(env[name])
                for name, kind in e['params']]
        snap = [a.tobytes() if isinstance(a, np.ndarray) else a for a in args]
        out = fn(*args)
        outs = out if isinstance(out, tuple) else (out,)
        for (name, kind), a, s in zip(e['params'], args, snap):
            if (a.tobytes() if isinstance(a, np.ndarray) else a) != s:
                raise TraceError(f"validation: {e['func']} modified its input {name} "
                                 f"(sizes {sizes}, memory order {order})")
        if len(outs) != len(rets):
            raise TraceError(f"validation: {e['func']} returned {len(outs)} values, trace has {len(rets)}")
        memo = {}
        for i, (want, nd) in enumerate(zip(outs, rets)):
            got = eval_node(nd, env, sizes, memo)
            want = np.asarray(want, dtype=float)
            if got.shape != want.shape:
                raise TraceError(f"validation: {e['func']} ret{i} shape {want.shape}, IR gives {got.shape}")
            err = float(np.abs(got - want).max(initial=0.0)) / max(1.0, float(np.abs(want).max(initial=0.0)))
            if not err <= e['tol']:
                raise TraceError(f"validation: IR and {e['func']} differ on ret{i} by {err:.3e} (relative) "
                                 f"at sizes {sizes}, sample {k}")
            worst = max(worst, err)
        shapes.add(tuple(sorted(sizes.items())))
        count += 1
    return dict(function=e['func'], samples=count, nodes=len(t.nodes), paths=1,
                dimension_tuples=len(shapes), max_rel_err=worst)


# ---------------------------------------------------------------------------
# driver

def generate(seed=0, validate=True, write=True, only=None):
    """Trace every registered function, validate, and (re)write coq/Gen/<Module>.v if changed.
    Returns (stats, changed files)."""
    rng = random.Random(seed)
    stats, texts, srcs = [], {}, {}
    for e in REGISTRY:
        if only and e['gen_module'] not in only:
            continue
        t, pnodes, rets = trace_entry(e)
        if validate:
            stats.append(validate_entry(e, t, rets, rng))
        texts.setdefault(e['gen_module'], []).append(print_entry(e, t, pnodes, rets))
        srcs.setdefault(e['gen_module'], e['pymod'].split('.')[-1] + '.py')
    changed = []
    if write:
        os.makedirs(GEN_DIR, exist_ok=True)
        for mod, parts in texts.items():
            body = HEADER % srcs[mod] + "\n" + "\n".join(parts)
            path = os.path.join(GEN_DIR, mod + '.v')
            old = open(path).read() if os.path.exists(path) else None
            if old != body:
                with open(path, 'w') as f:
                    f.write(body)
                changed.append(path)
    return stats, changed


STALE_MARK = "(* STALE: the translator failed on the current sources"


def invalidate(modules, reason):
    """Replace the Gen files of the given modules by a stub without definitions, so that nothing can
    be proved (and no later step can look green) about code the translator could not read."""
    mods = sorted({e['gen_module'] for e in REGISTRY if not modules or e['gen_module'] in modules})
    for mod in mods:
        path = os.path.join(GEN_DIR, mod + '.v')
        first = str(reason).strip().splitlines()[-1][:300].replace('*)', '* )') if str(reason).strip() else ''
        body = (f"{STALE_MARK} -- the definitions were removed;\n   every proof about them is "
                f"undischarged until tools/gen_mx.py succeeds again.\n   {first} *)\n")
        old = open(path).read() if os.path.exists(path) else None
        if old != body:
            with open(path, 'w') as f:
                f.write(body)
    return mods


def run_generate(r, modules):
    """harness hook (like check.Run.generate): regenerate + validate under the build lock.
    On failure the Gen files are invalidated and False is returned: the caller must not call r.prove
    (see `prove_or_undischarged`)."""
    import time
    import common
    t0 = time.time()
    try:
        with common.Lock():
            stats, changed = generate(seed=r.seed, only=modules)
        r.coverage.setdefault('translator', []).extend(stats)
        r.evaluations += sum(s['samples'] for s in stats)
        r.log(f"translator (gen_mx): {len(stats)} functions traced+validated, "
              f"{len(changed)} Gen file(s) changed, {time.time() - t0:.1f}s")
        return True
    except Exception as ex:
        tb = traceback.format_exc()
        r.broken('translator', type(ex).__name__, tb)
        try:
            with common.Lock():
                mods = invalidate(modules, tb)
            r.log(f"translator failed: Gen file(s) {mods} invalidated (no stale definitions left)")
        except Exception:
            r.log("could not invalidate the Gen files:\n" + traceback.format_exc())
        return False


def prove_or_undischarged(r, ok, props_file):
    """r.prove only if the translator succeeded; otherwise record every theorem of the property file
    as an obligation that is NOT discharged (the generated definitions do not describe the code)."""
    import common
    if ok:
        return r.prove(props_file)
    r.obligations += common.theorems_in(props_file)
    r.broken('proof', props_file, "not attempted: the translator failed, so no theorem is about the current "
             "sources; all obligations of this file are undischarged")
    return False


# ---------------------------------------------------------------------------
# registered functions

def _spd(rng, k, lo=0.1):
    a = np.array([[rng.gauss(0, 1) for _ in range(k)] for _ in range(k)])
    return a @ a.T + lo * np.eye(k)


def _sample_correct(rng):
    n, m = rng.randint(1, 6), rng.randint(1, 4)
    g = lambda *s: np.array([rng.gauss(0, 1) for _ in range(int(np.prod(s)))]).reshape(s)
    return dict(n=n, m=m), dict(x=g(n), P=_spd(rng, n), z=g(m), H=g(m, n), R=_spd(rng, m))


def _sample_cpm(rng):
    n = rng.randint(1, 6)
    F = np.array([[rng.gauss(0, 1) for _ in range(n)] for _ in range(n)])
    b = np.array([[rng.gauss(0, 1) for _ in range(n)] for _ in range(n)])
    return dict(n=n), dict(F=F, Q=b @ b.T, dt=rng.choice([0.0, rng.uniform(0, 1)]))


register('Kalman', 'pyins.kalman', 'correct', 'correct', [('n', 7), ('m', 5)],
         [('x', ('n',)), ('P', ('n', 'n')), ('z', ('m',)), ('H', ('m', 'n')), ('R', ('m', 'm'))],
         _sample_correct, inline=True)
register('Kalman', 'pyins.kalman', 'compute_process_matrices', 'cpm', [('n', 7)],
         [('F', ('n', 'n')), ('Q', ('n', 'n')), ('dt', 'scalar')],
         _sample_cpm, inline=True)


def main(argv):
    st, ch = generate(only=argv or None)
    for s in st:
        print(s)
    print('changed:', ch)


if __name__ == '__main__':
    import gen_mx
    gen_mx.main(sys.argv[1:])
