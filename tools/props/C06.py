"""C06 — measurement models: residual sign/units, H = -dz/dx under correct_pva, R = sd^2 I.

Tie: translator (measurements.Position / NedVelocity / BodyVelocity .compute_matrices at a present time,
error_model.*_error_jacobian, correct_pva) -> Gen/ErrState.v; theorems in Props/C06.v.

Convention (proved, and measured here on the implementation): correct_pva REMOVES the error x, the residual
is z = predicted - measured = H x + v, hence   d/de z(correct_pva(pva, e x)) |_0 = - H x.

Numerical statement checks on the implementation (support, and the falsifier):
  jacobian   4th-order central finite difference of compute_matrices' z under correct_pva vs the returned H
             (|J + H| <= 1e-5 * max(1, |H|)), every class x mode x lever arm None/given x rates present/absent
  antenna    a measurement simulated WITH the lever arm (ECEF position of the antenna / v + C (w x l)) gives z ~ 0
             at the true state; lever arms include ones with one or two exactly-zero components and the zero arm
  residual   z = predicted - measured against an independent oracle (ECEF difference rotated to NED for
             Position; v + C(w x l) - m; C^T v - m)
  layout     a Pva Series with rates first / permuted labels / unrelated extra entries gives the same z, H, R as
             the canonical order (all statements above also run on such Series)
  history    one Measurement object queried while its public `.data` is edited (row dropped / corrected in place /
             replaced / appended): None exactly at the epochs absent from the CURRENT data, residual against
             the CURRENT value
  flags      with_altitude passed as bool, numpy.bool_ and 0/1 in every statement (same mode, same shapes)
  noise      R = sd^2 I with the shape of z;   absent   compute_matrices(t not in data) is None
  sim        generate_*_measurements with zero noise at the true state: z ~ 0; injected error e: z ~ -e; incl.
             trajectories at / beyond the +-180 deg meridian (lon > 180 after crossing, 0..360 convention, noise
             pushing a point across)
"""
import math
import random
import numpy as np
import pandas as pd

RULE = ("translator: every traced function validated on 60 random inputs per run; numeric support: random pva "
        "(|lat| <= 85, |pitch| <= 85), lever arm None or |l| <= 3 m (half of them with 1-3 exactly-zero components), body rates absent or |w| <= 1 rad/s, measured "
        "value within 5 m / 5 m/s of the prediction, three classes x two altitude modes; a case is distinct by "
        "(class, mode, lever?, rates?, rounded pva)")

COLS = ['lat', 'lon', 'alt', 'VN', 'VE', 'VD', 'roll', 'pitch', 'heading']
RATES = ['rate_x', 'rate_y', 'rate_z']
T0 = 12.5
ABSENT = [12.75, 12.5 + 2 ** -20, 0.0, -12.5]
JTOL = 1e-5


def rand_pva(rng):
    special = rng.random() < 0.25
    pitch = rng.choice([-85.0, 85.0, 0.0]) if special else rng.uniform(-85, 85)
    return [rng.uniform(-85, 85), rng.uniform(-180, 180), rng.uniform(-500, 20000),
            rng.uniform(-300, 300), rng.uniform(-300, 300), rng.uniform(-30, 30),
            rng.uniform(-179.9, 179.9), pitch, rng.uniform(-179.9, 179.9)]


FLAG_FORMS = ('bool', 'numpy', 'int')


def flag(p):
    """with_altitude as the caller may legitimately pass it: a Python bool, a numpy.bool_ (e.g. the result of a
    comparison or an element of a boolean array) or a 0/1 integer -- all mean the same mode."""
    wa = bool(p['with_altitude'])
    form = p.get('flag_form', 'bool')
    return {'bool': wa, 'numpy': np.bool_(wa), 'int': int(wa)}[form]


def build(p, near=False):
    from pyins import measurements, transform
    from pyins.error_model import InsErrorModel
    pva9 = pd.Series(p['pva'], index=COLS, dtype=float)
    rates = pd.Series(p['rates'], index=RATES, dtype=float) if p['rates'] is not None else None
    l = np.array(p['lever'], dtype=float) if p['lever'] is not None else None
    em = InsErrorModel(flag(p))
    m = np.array(p['meas_near'] if (near and p.get('meas_near') is not None) else p['meas'], dtype=float)
    if p['cls'] == 'Position':
        meas = measurements.Position(pd.DataFrame([m], index=[T0], columns=['lat', 'lon', 'alt']), p['sd'], l)
    elif p['cls'] == 'NedVelocity':
        meas = measurements.NedVelocity(pd.DataFrame([m], index=[T0], columns=['VN', 'VE', 'VD']), p['sd'], l)
    else:
        meas = measurements.BodyVelocity(pd.DataFrame([m], index=[T0], columns=['VX', 'VY', 'VZ']), p['sd'])
    return pva9, rates, l, em, meas


def full(pva9, rates, p=None):
    """The Pva Series handed to compute_matrices.  Canonical: the 9 entries (+ rates appended, as the filters do).
    With p['layout']: the same labelled entries in another order (rates first / a permutation) and/or with
    unrelated extra entries -- a Pva is addressed by LABEL, so nothing may change."""
    ser = pva9.copy() if rates is None else pd.concat([pva9, rates])
    lay = (p or {}).get('layout')
    if not lay:
        return ser
    for k, v in lay.get('extra', {}).items():
        ser[k] = v
    return ser[lay['order']]


def predicted(p):
    """Independent oracle of the predicted quantity minus the measured one."""
    from pyins import transform
    pva = p['pva']
    r, pt, h = [math.radians(a) for a in pva[6:9]]
    cr, sr, cp, sp, ch, sh = math.cos(r), math.sin(r), math.cos(pt), math.sin(pt), math.cos(h), math.sin(h)
    C = np.array([[ch * cp, ch * sp * sr - sh * cr, ch * sp * cr + sh * sr],
                  [sh * cp, sh * sp * sr + ch * cr, sh * sp * cr - ch * sr],
                  [-sp, cp * sr, cp * cr]])
    v = np.array(pva[3:6])
    m = np.array(p['meas'])
    l = np.array(p['lever']) if p['lever'] is not None else None
    if p['cls'] == 'Position':
        la, lo = math.radians(pva[0]), math.radians(pva[1])
        north = np.array([-math.sin(la) * math.cos(lo), -math.sin(la) * math.sin(lo), math.cos(la)])
        east = np.array([-math.sin(lo), math.cos(lo), 0.0])
        down = -np.array([math.cos(la) * math.cos(lo), math.cos(la) * math.sin(lo), math.sin(la)])
        d = transform.lla_to_ecef(pva[:3]) - transform.lla_to_ecef(m)
        z = np.array([north @ d, east @ d, down @ d])
        if l is not None:
            z = z + C @ l
        tol = 1e-3
    elif p['cls'] == 'NedVelocity':
        z = v - m
        if l is not None and p['rates'] is not None:
            z = z + C @ np.cross(np.array(p['rates']), l)
        tol = 1e-9
    else:
        z = C.T @ v - m
        tol = 1e-9
    nz = 3 if (p['with_altitude'] or p['cls'] == 'BodyVelocity') else 2
    return z[:nz], tol


def eval_case(kind, p):
    """One statement on the implementation: (ok, detail)."""
    from pyins import sim, transform
    from pyins.error_model import InsErrorModel
    if kind in ('jacobian', 'residual', 'noise', 'absent', 'layout'):
        pva9, rates, l, em, meas = build(p, near=(kind == 'jacobian'))
        n = em.n_states
        ret = meas.compute_matrices(T0, full(pva9, rates, p), em)
        if ret is None:
            return False, dict(error="None at a time present in the data")
        z, H, R = ret
        z = np.asarray(z, dtype=float)
        H = np.asarray(H, dtype=float)
        R = np.asarray(R, dtype=float)
        nz = 3 if (p['with_altitude'] or p['cls'] == 'BodyVelocity') else 2
        if z.shape != (nz,) or H.shape != (nz, n) or R.shape != (nz, nz):
            return False, dict(shapes=[list(z.shape), list(H.shape), list(R.shape)], expected=[nz, n])
        if kind == 'layout':
            q = dict(p, layout=None)
            z0, H0, R0 = meas.compute_matrices(T0, full(pva9, rates, q), em)
            dz = float(np.abs(z - np.asarray(z0, dtype=float)).max())
            dH = float(np.abs(H - np.asarray(H0, dtype=float)).max())
            dR = float(np.abs(R - np.asarray(R0, dtype=float)).max())
            return max(dz, dH, dR) <= 1e-12 * max(1.0, float(np.abs(H0).max())), \
                dict(order=p['layout']['order'] if p.get('layout') else None, dz=dz, dH=dH, dR=dR,
                     H=H.tolist(), H_canonical=np.asarray(H0, dtype=float).tolist())
        if kind == 'absent':
            got = [meas.compute_matrices(t, full(pva9, rates, p), em) for t in ABSENT]
            return all(g is None for g in got), dict(returned=[g is not None for g in got])
        if kind == 'noise':
            want = p['sd'] ** 2 * np.eye(nz)
            err = float(np.abs(R - want).max())
            return err <= 1e-12 * max(1.0, p['sd'] ** 2), dict(R=R.tolist(), sd=p['sd'])
        if kind == 'residual':
            want, tol = predicted(p)
            err = float(np.abs(z - want).max())
            return err <= tol, dict(z=z.tolist(), oracle=want.tolist(), tol=tol)
        # jacobian
        npos = 3 if p['with_altitude'] else 2
        J = np.zeros((nz, n))

        def zat(x):
            c = em.correct_pva(pva9, x)
            return np.asarray(meas.compute_matrices(T0, full(c, rates, p), em)[0], dtype=float)
        for k in range(n):
            h = 1.0 if k < 2 * npos else 1e-2
            e = np.zeros(n)
            e[k] = h
            J[:, k] = (-zat(2 * e) + 8 * zat(e) - 8 * zat(-e) + zat(-2 * e)) / (12 * h)
        scale = max(1.0, float(np.abs(H).max()))
        err = float(np.abs(J + H).max())
        return err <= JTOL * scale, dict(max_abs_J_plus_H=err, scale=scale, H=H.tolist(), minus_J=(-J).tolist())
    if kind == 'antenna':
        # the measured value is what a sensor AT THE ANTENNA sees (computed independently: ECEF position of the
        # antenna, velocity v + C (w x l)); the residual at the true state must vanish
        q = dict(p)
        pva = p['pva']
        r_, pt, h = [math.radians(a) for a in pva[6:9]]
        cr, sr, cp, sp, ch, sh = math.cos(r_), math.sin(r_), math.cos(pt), math.sin(pt), math.cos(h), math.sin(h)
        C = np.array([[ch * cp, ch * sp * sr - sh * cr, ch * sp * cr + sh * sr],
                      [sh * cp, sh * sp * sr + ch * cr, sh * sp * cr - ch * sr],
                      [-sp, cp * sr, cp * cr]])
        l = np.array(p['lever']) if p['lever'] is not None else np.zeros(3)
        if p['cls'] == 'Position':
            la, lo = math.radians(pva[0]), math.radians(pva[1])
            Cen = np.array([[-math.sin(la) * math.cos(lo), -math.sin(lo), -math.cos(la) * math.cos(lo)],
                            [-math.sin(la) * math.sin(lo), math.cos(lo), -math.cos(la) * math.sin(lo)],
                            [math.cos(la), 0.0, -math.sin(la)]])
            q['meas'] = [float(v) for v in transform.ecef_to_lla(transform.lla_to_ecef(pva[:3]) + Cen @ (C @ l))]
            tol = 1e-3
        elif p['cls'] == 'NedVelocity':
            w = np.array(p['rates']) if p['rates'] is not None else np.zeros(3)
            q['meas'] = [float(v) for v in np.array(pva[3:6]) + C @ np.cross(w, l)]
            tol = 1e-9
        else:
            q['meas'] = [float(v) for v in C.T @ np.array(pva[3:6])]
            tol = 1e-9
        pva9, rates, l_, em, meas = build(q)
        ret = meas.compute_matrices(T0, full(pva9, rates, q), em)
        if ret is None:
            return False, dict(error="None at a time present in the data")
        z = np.asarray(ret[0], dtype=float)
        err = float(np.abs(z).max())
        return err <= tol, dict(z=z.tolist(), tol=tol, antenna_measurement=q['meas'])
    if kind == 'history':
        # "at a time present in its data": present in the CURRENT public attribute `.data`.  The object is used
        # across calls while rows are dropped / corrected / appended; after every edit each epoch is queried.
        pva9, rates, l, em, meas = build(dict(p, meas=p['rows'][0]))
        cols = {'Position': ['lat', 'lon', 'alt'], 'NedVelocity': ['VN', 'VE', 'VD'],
                'BodyVelocity': ['VX', 'VY', 'VZ']}[p['cls']]
        model = {}
        frame = pd.DataFrame([p['rows'][i] for i in range(len(p['times0']))], index=p['times0'], columns=cols)
        for t, row in zip(p['times0'], p['rows']):
            model[t] = row
        if p['cls'] == 'Position':
            meas = type(meas)(frame, p['sd'], l)
        elif p['cls'] == 'NedVelocity':
            meas = type(meas)(frame, p['sd'], l)
        else:
            meas = type(meas)(frame, p['sd'])
        queries = sorted(set(p['times0']) | {op[1] for op in p['ops']} | set(ABSENT))
        log = []
        for step, op in enumerate([('start', None)] + [tuple(o) for o in p['ops']]):
            if op[0] == 'drop':
                meas.data = meas.data.drop(index=op[1])
                model.pop(op[1])
            elif op[0] == 'modify':              # in place, through the public attribute
                meas.data.loc[op[1], cols] = op[2]
                model[op[1]] = op[2]
            elif op[0] == 'replace':             # a corrected copy assigned to the attribute
                d = meas.data.copy()
                d.loc[op[1], cols] = op[2]
                meas.data = d
                model[op[1]] = op[2]
            elif op[0] == 'append':
                meas.data = pd.concat([meas.data, pd.DataFrame([op[2]], index=[op[1]], columns=cols)]).sort_index()
                model[op[1]] = op[2]
            for t in queries:
                ret = meas.compute_matrices(t, full(pva9, rates, p), em)
                if (ret is None) != (t not in model):
                    return False, dict(step=step, op=list(op), time=t, present_in_current_data=t in model,
                                       returned_none=ret is None)
                if ret is not None:
                    want, tol = predicted(dict(p, meas=model[t]))
                    z = np.asarray(ret[0], dtype=float)
                    if z.shape != want.shape or float(np.abs(z - want).max()) > tol:
                        return False, dict(step=step, op=list(op), time=t, z=z.tolist(), oracle=want.tolist(),
                                           current_value=model[t])
            log.append(op[0])
        return True, dict(steps=log)
    if kind == 'sim':
        em = InsErrorModel(flag(p))
        rows = np.array(p['traj'], dtype=float)
        times = [T0 + 0.25 * i for i in range(len(rows))]
        traj = pd.DataFrame(rows, index=times, columns=COLS)
        E = np.array(p['err'], dtype=float)

        class Fixed(np.random.RandomState):
            def randn(self, *shape):
                return E.reshape(shape)
        worst = {}
        for noise in ('zero', 'inject'):
            sdv, rs = (0.0, 0) if noise == 'zero' else (1.0, Fixed(0))
            from pyins import measurements as M
            objs = [('Position', M.Position(sim.generate_position_measurements(traj, sdv, rs), 1.0), 1e-3),
                    ('NedVelocity', M.NedVelocity(sim.generate_ned_velocity_measurements(traj, sdv, rs), 1.0), 1e-9),
                    ('BodyVelocity', M.BodyVelocity(sim.generate_body_velocity_measurements(traj, sdv, rs), 1.0), 1e-9)]
            for name, ob, tol in objs:
                for i, t in enumerate(times):
                    ret = ob.compute_matrices(t, traj.loc[t], em)
                    if ret is None:
                        return False, dict(error=f"{name}: None at a simulated epoch")
                    z = np.asarray(ret[0], dtype=float)
                    want = np.zeros(len(z)) if noise == 'zero' else -E[i][:len(z)]
                    err = float(np.abs(z - want).max())
                    worst[f"{name}/{noise}"] = max(worst.get(f"{name}/{noise}", 0.0), err / tol)
        bad = {k: v for k, v in worst.items() if v > 1.0}
        return not bad, dict(error_over_tolerance=worst)
    raise ValueError(kind)


ZERO_PATTERNS = [(0, 0, 0), (0, 1, 0), (1, 1, 0), (0, 0, 0), (1, 0, 0), (0, 0, 1), (1, 0, 1), (0, 1, 1), (1, 1, 1)]


def gen_cases(rng, n):
    cases = []
    combos = []
    for cls in ('Position', 'NedVelocity', 'BodyVelocity'):
        for wa in (True, False):
            for lever in ((False, True) if cls != 'BodyVelocity' else (False,)):
                for rates in (False, True):
                    combos.append((cls, wa, lever, rates))
    for i in range(n):
        cls, wa, lever, rates = combos[i % len(combos)]
        pva = rand_pva(rng)
        l = [rng.uniform(-3, 3) for _ in range(3)] if lever else None
        if lever:
            # half of the lever arms have one or two exactly-zero components (axis-aligned / planar mounting,
            # e.g. [1.5, 0, -0.8], [0, 0, -2]) or are all zero: a continuous draw never produces these
            zp = ZERO_PATTERNS[(i // len(combos)) % len(ZERO_PATTERNS)]
            l = [0.0 if z else v for v, z in zip(l, zp)]
        w = [rng.uniform(-1, 1) for _ in range(3)] if rates else None
        sd = rng.choice([0.5, 2.0, rng.uniform(0.1, 5)])
        p = dict(cls=cls, with_altitude=wa, pva=pva, lever=l, rates=w, sd=sd,
                 flag_form=FLAG_FORMS[(i // len(combos) + i) % 3])
        # measured value close to the prediction (the linearisation point of an EKF update)
        from pyins import transform
        d = [rng.uniform(-5, 5) for _ in range(3)]
        if cls == 'Position':
            p['meas'] = [float(v) for v in transform.perturb_lla(np.array(pva[:3]), np.array(d))]
            # the Jacobian statement is exact at measured = predicted; H is compared 5 cm away from it
            p['meas_near'] = [float(v) for v in transform.perturb_lla(np.array(pva[:3]), 0.01 * np.array(d))]
        elif cls == 'NedVelocity':
            p['meas'] = [pva[3] + d[0], pva[4] + d[1], pva[5] + d[2]]
        else:
            p['meas'] = [rng.uniform(-300, 300) for _ in range(3)]
        # label layout of the Pva Series: canonical / rates first / permuted labels / unrelated extra entries
        labels = COLS + (RATES if rates else [])
        mode = (i // len(combos) + i) % 4
        if mode == 1:
            p['layout'] = dict(order=(RATES if rates else []) + COLS[6:] + COLS[3:6] + COLS[:3])
        elif mode == 2:
            order = list(labels)
            rng.shuffle(order)
            p['layout'] = dict(order=order)
        elif mode == 3:
            extra = {'time': 12.5, 'temperature': 21.25, 'odometer': -3.5}
            order = list(labels) + list(extra)
            rng.shuffle(order)
            p['layout'] = dict(order=order, extra=extra)
        else:
            p['layout'] = None
        cases.append(p)
    return cases, len(combos)


def numeric_statements(r, n, nsim, seed_shift=6):
    rng = random.Random(r.seed + seed_shift)
    fails = []
    cases, ncombo = gen_cases(rng, n)
    dist = {}
    for p in cases:
        key = (p['cls'], p['with_altitude'], p['lever'] is not None, p['rates'] is not None)
        dist[str(key)] = dist.get(str(key), 0) + 1
        r.case(key + tuple(round(v, 6) for v in p['pva']), sample=dict(p))
        for kind in ('jacobian', 'residual', 'antenna', 'layout', 'noise', 'absent'):
            try:
                ok, det = eval_case(kind, p)
            except Exception as ex:
                ok, det = False, dict(exception=repr(ex))
            if not ok:
                fails.append((f"C06 {kind} fails for {p['cls']} on the implementation",
                              dict(kind=kind, params=p, detail=det)))
    # histories: the same Measurement object queried while its public `.data` is edited
    for i in range(max(6, n // 8)):
        base = cases[(7 * i) % len(cases)]
        q = {k: base[k] for k in ('cls', 'with_altitude', 'pva', 'lever', 'rates', 'sd', 'flag_form', 'layout')}
        def value():
            d = [rng.uniform(-5, 5) for _ in range(3)]
            if q['cls'] == 'Position':
                from pyins import transform
                return [float(v) for v in transform.perturb_lla(np.array(q['pva'][:3]), np.array(d))]
            return [q['pva'][3] + d[0], q['pva'][4] + d[1], q['pva'][5] + d[2]]
        times0 = [T0 + 0.25 * k for k in range(4)]
        q['times0'] = times0
        q['rows'] = [value() for _ in times0]
        ops = [('modify' if i % 2 else 'replace', times0[1], value()), ('drop', times0[2]),
               ('append', T0 + 1.5, value()), ('drop', times0[0]), ('append', times0[2], value())]
        rng.shuffle(ops)
        # keep the history consistent: a dropped epoch must be present, an appended one absent
        present = set(times0)
        good = []
        for op in ops:
            if op[0] == 'drop' and op[1] in present:
                present.discard(op[1]); good.append(op)
            elif op[0] == 'append' and op[1] not in present:
                present.add(op[1]); good.append(op)
            elif op[0] in ('modify', 'replace') and op[1] in present:
                good.append(op)
        q['ops'] = [list(o) for o in good]
        r.case(('history', q['cls'], q['with_altitude'], i), sample=dict(q))
        try:
            ok, det = eval_case('history', q)
        except Exception as ex:
            ok, det = False, dict(exception=repr(ex))
        if not ok:
            fails.append((f"C06 history: {q['cls']} does not follow its current .data on the implementation",
                          dict(kind='history', params=q, detail=det)))
    for i in range(nsim):
        wa = (i % 2 == 0)
        rows = [rand_pva(rng) for _ in range(4)]
        err = [[rng.uniform(-5, 5) for _ in range(3)] for _ in range(4)]
        if i % 3 != 0:
            # longitudes at and beyond the +-180 deg meridian: a trajectory that crossed 180 E eastwards
            # (lon > 180, as generate_sine_velocity_motion from lon 179.99 produces), the 0..360 convention,
            # and a point a few metres from the meridian that the injected east error pushes across
            from pyins import earth
            def east_deg(row, metres):
                return math.degrees(metres / float(earth.principal_radii(row[0], row[2])[2]))
            if i % 3 == 1:
                rows[0][1] = 180.0 - east_deg(rows[0], 2.0); err[0][1] = 4.0 + rng.random()
                rows[1][1] = 180.0 + east_deg(rows[1], rng.uniform(0.5, 50.0))
                rows[2][1] = rng.uniform(181.0, 359.0)
                rows[3][1] = 180.0
            else:
                rows[0][1] = -180.0 + east_deg(rows[0], 2.0); err[0][1] = -4.0 - rng.random()
                rows[1][1] = -180.0 - east_deg(rows[1], rng.uniform(0.5, 50.0))
                rows[2][1] = rng.uniform(-359.0, -181.0)
                rows[3][1] = -180.0
        p = dict(with_altitude=wa, traj=rows, err=err, flag_form=FLAG_FORMS[i % 3])
        r.case(('sim', wa) + tuple(round(v, 6) for v in rows[0]))
        try:
            ok, det = eval_case('sim', p)
        except Exception as ex:
            ok, det = False, dict(exception=repr(ex))
        if not ok:
            fails.append(("C06 simulated measurements: residual is not 0 / -e on the implementation",
                          dict(kind='sim', params=p, detail=det)))
    r.coverage.setdefault('distribution', {}).update(dict(configurations=ncombo, per_configuration=dist, sim=nsim))
    return fails


def check(r):
    r.trusted += [
        "translator tools/sym.py + tools/ir2coq.py + tools/reg/errstate.py (symbolic tracing of measurements.py "
        "compute_matrices at a present epoch, error_model *_error_jacobian and correct_pva on pandas objects)",
        "scipy Rotation.from_rotvec / from_euler('xyz') / as_euler read as Spec/LibSpecs.v (validated numerically each run)",
        "pandas label lookup (`time in data.index`, `.loc[time, cols]`): the trace is taken at a present epoch and "
        "requires None at an absent one; availability for arbitrary indices is checked on the implementation only",
        "scipy check_random_state passes a RandomState instance through; the simulators' rng.randn(n, 3) is read as "
        "the symbolic noise row (a RandomState subclass is handed to the unmodified generators while tracing)",
        "binary64 rounding not modelled: theorems over the reals",
    ]
    r.assumptions += [
        "H_is_jacobian for Position is proved at the linearisation point measured = predicted position: "
        "compute_lla_difference evaluates the radii at the mid point, so away from it H differs from the exact "
        "Jacobian by a relative O(|z| tan(lat) / Earth radius) (up to 5e-6 for 5 m at lat 85); the finite-difference "
        "check of Position therefore places the measured point within 5 cm of the prediction (+ lever arm)",
        "attitude in the open principal range (roll, heading in (-180,180), |pitch| < 90); Position also needs "
        "|lat| < 90 and alt >= -1000 km",
        "absent time -> None is checked on the implementation (and enforced while tracing), not proved for "
        "arbitrary data frames",
        "simulated measurements: proved (C06_sim_zero_residual_*, C06_sim_injected_error_*) for the generators traced "
        "on a one-row trajectory with error_sd = s and rng.randn = (n0,n1,n2) symbolic, lever arm None (the generators "
        "simulate the value at the IMU and take no lever arm / rates): z = 0 exactly for s = 0 (all classes, both "
        "modes), z = -(s n) exactly for the velocity classes and the Position down row, Position north/east rows "
        "-(s n) to first order in s (|lat| < 90, alt >= -1000 km); multi-row frames are checked on the implementation",
    ]
    # the numerical statements do not depend on Gen/ErrState.v: they run whatever happens to the translator / proofs
    try:
        if r.generate(['Util', 'Transform', 'ErrState']):
            r.prove('Props/C06.v')
            if r.tier == 'thorough':
                r.hygiene('Props/C06.v')
                r.coqchk('Props/C06.v')
    except Exception as ex:
        r.broken('harness', 'translator/proof stage', repr(ex))
    n, nsim = (140, 20) if r.tier == 'quick' else (4200, 400)
    fails = numeric_statements(r, n, nsim)
    r.coverage['numeric_support'] = dict(cases=n, sim=nsim, failures=len(fails))
    for what, rep in fails[:5]:
        r.violation(what, rep)


def falsify(r):
    """Independent of the translator and of Coq: a seeded search on the implementation only."""
    fails = numeric_statements(r, 1400, 100, seed_shift=606)
    for what, rep in fails[:5]:
        r.violation(what, rep)


def replay(obj):
    rep = obj.get('replay', obj)
    if 'kind' not in rep:
        print("no concrete input recorded:", obj.get('broken', obj))
        return 0
    ok, det = eval_case(rep['kind'], rep['params'])
    print("statement:", rep['kind'])
    print("input    :", rep['params'])
    print("recorded :", rep.get('detail'))
    print("now      :", det)
    print("HOLDS" if ok else "STILL FAILS")
    return 0 if ok else 1
