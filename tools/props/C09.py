"""C09 — Feedback filter handles every IMU/measurement interleaving exactly once.

Proofs: Props/C09.v over the cursor/event model Model/FeedbackSched.v (times in Q).

Tie between model and code (this file; the schedule machinery is shared with C10.py):
seeded schedules with DYADIC time stamps (ticks of 1/1024 s, so binary64 time arithmetic is
exact and equals the model's Q arithmetic) are run through the real
`pyins.filters.run_feedback_filter` under a watchdog (sys.monitoring back-edge budget on the
filter's code object + SIGALRM) and through the Coq model evaluated by `vm_compute`; the
observables are compared EXACTLY inside Coq (only the indices of mismatching cases are printed):

    trajectory index, innovations[name].index per sensor, index of trajectory_sd / gyro / gyro_sd /
    accel / accel_sd, the sequence of integrator batches (iloc ranges), the epochs at which
    each sensor's compute_matrices returned a measurement.

Independently of the model the property's own statements are asserted on the implementation's
result (index == t0 :: increment times; innovations == own stamps in [start, end) ascending
once; tables finite, strictly increasing subset of the trajectory times); a failure is shrunk
and reported as a violation with a replayable schedule.
"""
import os
import sys
import json
import math
import time
import random
import signal
import itertools
import traceback
import collections
import multiprocessing
from fractions import Fraction

for _v in ('OMP_NUM_THREADS', 'OPENBLAS_NUM_THREADS', 'MKL_NUM_THREADS', 'NUMBA_NUM_THREADS'):
    os.environ.setdefault(_v, '1')      # the runs are tiny; parallelism is over schedules (processes)

import numpy as np

import common

RULE = ("seeded schedule generator, all stamps dyadic (ticks of 1/1024 s): IMU sampling uniform / irregular / "
        "gapped with 1..24 increments; 0..3 sensors (Position, NedVelocity, BodyVelocity in random order), "
        "measurements in {None, [], list}; stamp groups: coincident with an IMU epoch, fractional offset, "
        "k-cluster inside one IMU interval (k=1..5, biased to the first/last interval), duplicated across "
        "sensors, before start / exactly at start / exactly at end / after end; time_step from 1/8 of the "
        "IMU interval to 4x the span; both altitude modes; without / with sensor models (bias, bias + "
        "scale-misalignment); thorough adds all schedules with <=6 IMU epochs and <=4 stamps on a "
        "quarter-interval grid.  A case is distinct by its (relative epochs, per-sensor relative stamps, "
        "step, flags) tuple")

DEN = 1024                      # ticks per second
BASE_SECONDS = 8                # length of the base trajectory (8192 ticks)
CLS = ('Position', 'NedVelocity', 'BodyVelocity')
FB_TABLES = ('trajectory_sd', 'gyro', 'gyro_sd', 'accel', 'accel_sd')
FF_TABLES = ('trajectory', 'trajectory_sd', 'gyro', 'gyro_sd', 'accel', 'accel_sd')
WALL_SECONDS = 300              # backstop only (a run takes < 1 s); the back-edge budget is the watchdog

# --------------------------------------------------------------------------------------
# base data: one gentle trajectory on the tick grid, generated once
# --------------------------------------------------------------------------------------
_BASE = None


def base():
    global _BASE
    if _BASE is None:
        from pyins import sim
        traj, imu = sim.generate_sine_velocity_motion(
            1.0 / DEN, BASE_SECONDS, [50, 60, 100], [1, -1, 0.1], [1, 1, 0.1],
            velocity_change_period=20)
        assert len(traj) == DEN * BASE_SECONDS and traj.index[1] == 1.0 / DEN
        _BASE = traj, imu
    return _BASE


def _sec(t):
    return t / DEN              # exact: t is an int, DEN a power of two


def build(s):
    """Inputs of the filters for schedule `s` (see gen_schedule for the format)."""
    import pandas as pd
    from pyins import strapdown, measurements, inertial_sensor, sim
    traj, imu = base()
    ep = s['epochs']
    assert all(0 <= t < len(traj) for t in ep) and all(a < b for a, b in zip(ep, ep[1:]))
    increments = strapdown.compute_increments_from_imu(imu.iloc[ep], 'rate')
    pva0 = traj.iloc[ep[0]]
    err = sim.generate_pva_error(2.0, 0.2, 0.1, 0.3, rng=7)
    initial = sim.perturb_pva(pva0, err)
    initial.name = pva0.name
    meas = None
    if s['meas_mode'] == 'empty':
        meas = []
    elif s['meas_mode'] == 'list':
        meas = []
        hi = len(traj) - 1
        for k, (cls, ticks) in enumerate(s['sensors']):
            index = pd.Index([_sec(t) for t in ticks], dtype=float, name='time')
            rows = traj.iloc[[min(max(t, 0), hi) for t in ticks]]
            if cls == 'Position':
                cols, sd = ['lat', 'lon', 'alt'], 1.0
                sd = s.get('meas_sd') or sd
                data = sim.generate_position_measurements(rows, sd, 11 + k) if ticks else None
            elif cls == 'NedVelocity':
                cols, sd = ['VN', 'VE', 'VD'], s.get('meas_sd') or 0.5
                data = sim.generate_ned_velocity_measurements(rows, sd, 11 + k) if ticks else None
            else:
                cols, sd = ['VX', 'VY', 'VZ'], s.get('meas_sd') or 0.2
                data = sim.generate_body_velocity_measurements(rows, sd, 11 + k) if ticks else None
            if data is None:
                data = pd.DataFrame(np.empty((0, 3)), columns=cols)
            arr = np.array(data, dtype=float)
            # measured VALUES that repeat exactly while the stamps stay distinct (held / quantised receiver
            # output, surveyed constant position, zero-velocity updates): every sample is still one sample
            mode = (s.get('values') or [])[k] if k < len(s.get('values') or []) else 'random'
            if len(arr):
                if mode == 'const':
                    arr[:] = arr[0]
                elif mode == 'zero':
                    arr[:] = 0.0 if cls == 'BodyVelocity' else arr[0]
                elif mode == 'blocks':
                    for i in range(len(arr)):
                        arr[i] = arr[i - i % 3]
            data = pd.DataFrame(arr, index=index, columns=cols)
            if s.get('lever') and cls != 'BodyVelocity':
                meas.append(getattr(measurements, cls)(data, sd, np.array([0.5, 0.1, -0.2])))
            else:
                meas.append(getattr(measurements, cls)(data, sd))
    gyro_model = accel_model = None
    if s['models'] >= 1:
        sm = 1e-3 * np.ones((3, 3)) if s['models'] >= 2 else None
        gyro_model = inertial_sensor.EstimationModel(bias_sd=1e-4, noise=1e-5, bias_walk=1e-7,
                                                     scale_misal_sd=sm)
        accel_model = inertial_sensor.EstimationModel(bias_sd=0.05, noise=1e-3, scale_misal_sd=sm)
    # feedforward only: the `increments` argument may be sampled more sparsely than the trajectory rows
    # (its index a strict subset of the row times, possibly with whole stretches without any sample)
    inc_passed = increments
    if s.get('inc_epochs'):
        assert set(s['inc_epochs']) <= set(ep) and len(s['inc_epochs']) >= 2
        inc_passed = strapdown.compute_increments_from_imu(imu.iloc[s['inc_epochs']], 'rate')
    return dict(traj=traj, increments=increments, inc_passed=inc_passed, initial=initial, measurements=meas,
                gyro_model=gyro_model, accel_model=accel_model)


# --------------------------------------------------------------------------------------
# watchdog: back-edge budget on the filter functions + wall-clock alarm
# --------------------------------------------------------------------------------------
class NonTermination(BaseException):
    pass


class Watchdog:
    TOOL = 2   # sys.monitoring.PROFILER_ID

    def __init__(self, codes, budget, seconds):
        self.codes, self.budget, self.seconds = codes, budget, seconds
        self.count = 0

    def _edge(self, code, off, dest):
        if dest < off:
            self.count += 1
            if self.count > self.budget:
                raise NonTermination(f"more than {self.budget} loop back-edges in {code.co_name}")

    def _alarm(self, signum, frame):
        raise NonTermination(f"no result after {self.seconds} s")

    def __enter__(self):
        mon = sys.monitoring
        ev = mon.events.JUMP | mon.events.BRANCH
        try:
            mon.use_tool_id(self.TOOL, 'sched-watchdog')
        except ValueError:
            mon.free_tool_id(self.TOOL)
            mon.use_tool_id(self.TOOL, 'sched-watchdog')
        mon.register_callback(self.TOOL, mon.events.JUMP, self._edge)
        mon.register_callback(self.TOOL, mon.events.BRANCH, self._edge)
        for c in self.codes:
            mon.set_local_events(self.TOOL, c, ev)
        self._old = signal.signal(signal.SIGALRM, self._alarm)
        signal.setitimer(signal.ITIMER_REAL, self.seconds)
        return self

    def __exit__(self, *a):
        mon = sys.monitoring
        signal.setitimer(signal.ITIMER_REAL, 0)
        signal.signal(signal.SIGALRM, self._old)
        for c in self.codes:
            mon.set_local_events(self.TOOL, c, 0)
        mon.register_callback(self.TOOL, mon.events.JUMP, None)
        mon.register_callback(self.TOOL, mon.events.BRANCH, None)
        mon.free_tool_id(self.TOOL)
        return False


# --------------------------------------------------------------------------------------
# running one schedule on the implementation
# --------------------------------------------------------------------------------------
def _tick(t):
    """Exact value of the float time `t` in ticks: an int when on the grid, else 'p/q'."""
    f = Fraction(float(t)) * DEN
    return int(f) if f.denominator == 1 else f"{f.numerator}/{f.denominator}"


def _ticks(index):
    return [_tick(t) for t in index]


def _finite(df):
    return bool(np.isfinite(np.asarray(df, dtype=float)).all())


def sub_schedule(s, w):
    """The single call of history `s` on the window w = [first tick, last tick] of its epochs."""
    ep = [t for t in s['epochs'] if w[0] <= t <= w[1]]
    c = {k: v for k, v in s.items() if k not in ('windows', 'cats')}
    c['epochs'] = ep
    if c.get('inc_epochs'):
        c['inc_epochs'] = [t for t in c['inc_epochs'] if t in set(ep)]
        if len(c['inc_epochs']) < 2:
            del c['inc_epochs']
    return c


def calls_of(s):
    return [sub_schedule(s, w) for w in s['windows']] if s.get('windows') else [s]


def run_impl(s):
    """Run schedule `s` on the real filter and return the observables.  A schedule with `windows` is a
    HISTORY: one call per window (sub-span of the epochs), all calls reusing the SAME Measurement and
    sensor-model objects built once for the whole schedule; the result is dict(status, calls=[...])."""
    if not s.get('windows'):
        return run_call(s)
    try:
        inp = build(s)
    except Exception:
        return dict(status='harness-error', error=traceback.format_exc()[-1500:])
    shared = {k: inp[k] for k in ('measurements', 'gyro_model', 'accel_model')}
    calls = [run_call(c, shared) for c in calls_of(s)]
    bad = [c for c in calls if c['status'] != 'ok']
    out = dict(status=bad[0]['status'] if bad else 'ok', calls=calls,
               internal=[x for c in calls for x in c.get('internal', [])][:3])
    if bad:
        out['error'] = bad[0].get('error')
    return out


def run_call(s, shared=None):
    """One call of the real filter on schedule `s` (objects of `shared` replace the freshly built ones)."""
    from pyins import filters, strapdown
    kind = s['filter']
    obs = dict(status='ok')
    try:
        inp = build(s)
        if shared is not None:
            inp.update(shared)
    except Exception:
        return dict(status='harness-error', error=traceback.format_exc()[-1500:])
    meas = inp['measurements']
    psd, vsd = s.get('sd') or (10, 2)
    used = [[] for _ in (meas or [])]
    for k, m in enumerate(meas or []):
        def wrap(orig, log):
            def compute_matrices(time, pva, error_model):
                ret = orig(time, pva, error_model)
                if ret is not None:
                    log.append(time)
                return ret
            return compute_matrices
        m.compute_matrices = wrap(m.compute_matrices, used[k])
    batches = []
    orig_integrate = strapdown.Integrator.integrate

    def integrate(self, increments):
        batches.append([float(t) for t in increments.index])
        return orig_integrate(self, increments)

    # back-edges of a correct run: one per outer iteration (<= #epochs), one per pending measurement
    # epoch, one per sensor inside each epoch, plus the set-up / tear-down loops over the sensors
    nst = sum(len(t) for _, t in s['sensors'])
    ns = len(s['sensors'])
    budget = 3 * (len(s['epochs']) + nst * (1 + ns)) + 8 * ns + 40
    codes = [filters.run_feedback_filter.__code__, filters.run_feedforward_filter.__code__]
    kw = dict(gyro_model=inp['gyro_model'], accel_model=inp['accel_model'],
              time_step=_sec(s['step']), with_altitude=bool(s['alt']))
    if s['meas_mode'] != 'none':
        kw['measurements'] = meas
    if inp['gyro_model'] is None:       # the documented default: argument not passed at all
        del kw['gyro_model'], kw['accel_model']
    res = None
    # internal quantities handed to the covariance propagation: time_delta > 0 and finite gyro/accel averages
    internal = []
    orig_prop = filters._compute_error_propagation_matrices

    def prop(pva, gyro, accel, time_delta, *a, **k):
        if not time_delta > 0:
            internal.append(f"time_delta={time_delta!r}")
        for nm, v in (('gyro_average', gyro), ('accel_average', accel)):
            if v is not None and not np.isfinite(np.asarray(v, dtype=float)).all():
                internal.append(f"{nm} not finite (time_delta={time_delta!r})")
        return orig_prop(pva, gyro, accel, time_delta, *a, **k)

    filters._compute_error_propagation_matrices = prop
    try:
        if kind == 'fb':
            with Watchdog(codes, budget, WALL_SECONDS):
                strapdown.Integrator.integrate = integrate
                try:
                    res = filters.run_feedback_filter(inp['initial'], psd, vsd, 1, 5, inp['increments'], **kw)
                finally:
                    strapdown.Integrator.integrate = orig_integrate
        else:
            nominal = inp['traj'].iloc[s['epochs']]
            computed = strapdown.Integrator(inp['initial'], True).integrate(inp['increments'])
            if s.get('increments'):
                kw['increments'] = inp['inc_passed']
            with Watchdog(codes, budget, WALL_SECONDS):
                res = filters.run_feedforward_filter(nominal, computed, psd, vsd, 1, 5, **kw)
    except NonTermination as e:
        return dict(status='nonterminating', error=str(e))
    except Exception as e:
        return dict(status='exception', error=f"{type(e).__name__}: {e}",
                    where=traceback.format_exc()[-800:], internal=internal[:3])
    finally:
        filters._compute_error_propagation_matrices = orig_prop
        for m in meas or []:              # the objects may be reused by the next call of a history
            m.__dict__.pop('compute_matrices', None)
    obs['internal'] = internal[:3]
    try:
        names = [c for c, _ in s['sensors']] if s['meas_mode'] == 'list' else []
        obs['innov_keys'] = sorted(res.innovations.keys())
        obs['traj'] = _ticks(res.trajectory.index)
        obs['innov'] = [(_ticks(res.innovations[n].index) if n in res.innovations else None) for n in names]
        obs['used'] = [_ticks(u) for u in used]
        tabs = FB_TABLES if kind == 'fb' else FF_TABLES
        obs['tables'] = {n: _ticks(getattr(res, n).index) for n in tabs}
        fin = {n: _finite(getattr(res, n)) for n in ('trajectory',) + tuple(tabs)}
        for n in names:
            if n in res.innovations:
                fin['innovations.' + n] = _finite(res.innovations[n])
        obs['finite'] = fin
        if kind == 'fb':
            pos = {t: i for i, t in enumerate(s['epochs'][1:])}
            bat = []
            for b in batches:
                tk = _ticks(b)
                if tk and all(t in pos for t in tk) and [pos[t] for t in tk] == list(
                        range(pos[tk[0]], pos[tk[0]] + len(tk))):
                    bat.append([pos[tk[0]], pos[tk[0]] + len(tk)])
                else:
                    bat.append([0, 0])           # empty / non-contiguous batch
            obs['batches'] = bat
    except Exception as e:
        return dict(status='bad-result', error=f"{type(e).__name__}: {e}",
                    where=traceback.format_exc()[-800:])
    return obs


# --------------------------------------------------------------------------------------
# the property's own statements, asserted on the implementation's result
# --------------------------------------------------------------------------------------
def expected_stamps(s):
    lo, hi = s['epochs'][0], s['epochs'][-1]
    if s['meas_mode'] != 'list':
        return []
    return [sorted({t for t in ticks if lo <= t < hi}) for _, ticks in s['sensors']]


def _strictly_increasing(l):
    return all(isinstance(a, int) and isinstance(b, int) and a < b for a, b in zip(l, l[1:])) and \
        all(isinstance(a, int) for a in l)


def property_failures(s, obs):
    """C09 / C10 statements on the observables of the implementation.  [] = holds.  For a history the
    statements are checked for EVERY call against [start, end) of THAT call."""
    if s.get('windows') and 'calls' in obs:
        out = []
        for k, (c, o) in enumerate(zip(calls_of(s), obs['calls'])):
            out += [f"call {k + 1} of {len(obs['calls'])} on [{c['epochs'][0]}, {c['epochs'][-1]}] reusing the "
                    f"same Measurement objects: {m}" for m in call_failures(c, o)]
        return out
    return call_failures(s, obs)


def call_failures(s, obs):
    kind = s['filter']
    if obs['status'] == 'harness-error':
        return []
    if obs['status'] == 'nonterminating':
        return [f"filter does not terminate ({obs['error']})"]
    if obs['status'] != 'ok':
        return [f"filter raised {obs['error']}"]
    f = []
    ep = s['epochs']
    exp = expected_stamps(s)
    names = [c for c, _ in s['sensors']] if s['meas_mode'] == 'list' else []
    if sorted(set(names)) != obs['innov_keys']:
        f.append(f"innovations keys {obs['innov_keys']} != sensors {sorted(set(names))}")
    bad_fin = [n for n, v in obs['finite'].items()
               if not v and (kind == 'ff' or not n.startswith('innovations.'))]
    if bad_fin:
        f.append(f"non-finite values in {bad_fin}")
    if kind == 'fb':
        if obs['traj'] != ep:
            f.append("trajectory index is not the initial time followed by every increment time once: "
                     f"{obs['traj']} != {ep}")
        for k, n in enumerate(names):
            if obs['innov'][k] != exp[k]:
                f.append(f"innovations[{n}] index {obs['innov'][k]} != stamps in [start,end) {exp[k]}")
        tset = set(ep)
        for n, idx in obs['tables'].items():
            if not _strictly_increasing(idx):
                f.append(f"{n} index not strictly increasing: {idx}")
            elif not set(idx) <= tset:
                f.append(f"{n} index not a subset of the trajectory times: {sorted(set(idx) - tset)}")
    else:
        pos = {t: i for i, t in enumerate(ep)}
        for k, n in enumerate(names):
            if obs['used'][k] != exp[k]:
                f.append(f"{n}: measurement epochs used {obs['used'][k]} != stamps in [start,end) {exp[k]}")
            rows = [max(t for t in ep if t <= m) for m in exp[k]]
            if obs['innov'][k] != rows:
                f.append(f"innovations[{n}] index {obs['innov'][k]} != row times {rows} of the stamps {exp[k]}")
        for n, idx in obs['tables'].items():
            if not _strictly_increasing(idx):
                f.append(f"{n} index not strictly increasing: {idx}")
                continue
            if not set(idx) <= set(ep):
                f.append(f"{n} index not a subset of the input times: {sorted(set(idx) - set(ep))}")
                continue
            if not idx or idx[0] != ep[0]:
                f.append(f"{n} index does not start at the first input time: {idx[:3]}")
                continue
            for a, b in zip(idx, idx[1:] + [ep[-1]]):
                gap = ep[pos[a] + 1] - a if pos[a] + 1 < len(ep) else 0
                if b - a > max(s['step'], gap):
                    f.append(f"{n}: step from {a} to {b} exceeds max(time_step={s['step']}, local gap={gap})")
                    break
    return f


# --------------------------------------------------------------------------------------
# schedule generator
# --------------------------------------------------------------------------------------
def gen_schedule(rng, kind, nmax=24):
    cats = []
    imu_kind = rng.choice(['uniform', 'irregular', 'gapped'])
    h = rng.choice([8, 16, 32])
    n = rng.choice([1, 2, 3]) if rng.random() < 0.12 else rng.randint(2, nmax)
    if imu_kind == 'uniform':
        gaps = [h] * n
    elif imu_kind == 'irregular':
        gaps = [rng.choice([1, 2, 3, h // 2, h, h + rng.randrange(1, h), 2 * h, rng.randint(1, 3 * h)])
                for _ in range(n)]
    else:
        gaps = [h] * n
        for _ in range(rng.randint(1, 3)):
            gaps[rng.randrange(n)] = h * rng.randint(5, 40)
    t0 = rng.randrange(260, 1400)
    ep = [t0]
    for g in gaps:
        ep.append(ep[-1] + g)
    while ep[-1] > DEN * BASE_SECONDS - 300:      # keep inside the base trajectory
        ep.pop()
    n = len(ep) - 1
    gaps = gaps[:n]
    span = ep[-1] - ep[0]
    cats.append('imu:' + imu_kind)

    ns = rng.choices([0, 1, 2, 3], [1, 2, 3, 3])[0]
    order = list(CLS)
    rng.shuffle(order)
    sensors = [[c, []] for c in order[:ns]]
    mode = 'list' if ns else rng.choice(['none', 'empty'])
    if ns and rng.random() < 0.04:
        mode = rng.choice(['none', 'empty'])
        sensors = []
        ns = 0
    cats.append(f'sensors:{ns}')
    cats.append('measurements:' + mode)

    def put(t, k=None):
        k = rng.randrange(ns) if k is None else k
        if t not in sensors[k][1]:
            sensors[k][1].append(t)

    if ns:
        for _ in range(rng.choice([0, 1, 1, 2, 2, 3, 3, 4, 5, 6])):
            c = rng.choice(['coincident', 'frac', 'cluster', 'cluster', 'dup', 'before', 'at_start',
                            'at_end', 'after'])
            if c == 'coincident':
                put(ep[rng.randrange(0, n + 1)])
            elif c == 'frac':
                i = rng.randrange(n)
                if gaps[i] >= 2:
                    off = rng.choice([gaps[i] // 4, gaps[i] // 2, 3 * gaps[i] // 4, 1, gaps[i] - 1,
                                      rng.randrange(1, gaps[i])])
                    put(ep[i] + max(1, min(off, gaps[i] - 1)))
                else:
                    c = 'coincident'
                    put(ep[i])
            elif c == 'cluster':
                where = rng.random()
                i = n - 1 if where < 0.3 else 0 if where < 0.45 else rng.randrange(n)
                k = min(rng.randint(1, 5), gaps[i] - 1)
                if k <= 0:
                    i = max(range(n), key=lambda j: gaps[j])
                    k = min(rng.randint(1, 5), gaps[i] - 1)
                if k > 0:
                    offs = rng.sample(range(1, gaps[i]), k)
                    if rng.random() < 0.2:
                        offs[0] = 0                     # one member coincident with the IMU epoch
                    for o in offs:
                        put(ep[i] + o)
                    c = f'cluster{k}' + ('-last' if i == n - 1 else '-first' if i == 0 else '')
            elif c == 'dup':
                pool = sorted({t for _, ts in sensors for t in ts})
                t = rng.choice(pool) if pool and rng.random() < 0.5 else \
                    ep[rng.randrange(n)] + rng.randrange(0, max(1, gaps[rng.randrange(n)]))
                for k in (rng.sample(range(ns), min(ns, rng.choice([2, 3]))) if ns > 1 else [0]):
                    put(t, k)
                if ns < 2:
                    c = 'dup(single sensor)'
            elif c == 'before':
                put(ep[0] - rng.choice([1, 2, h, 7 * h, 255]))
            elif c == 'at_start':
                put(ep[0])
            elif c == 'at_end':
                put(ep[-1])
            else:
                put(ep[-1] + rng.choice([1, 2, h, 9 * h, 290]))
            cats.append('stamp:' + c)
        for sk in sensors:
            if rng.random() < 0.9:
                sk[1].sort()
            else:
                rng.shuffle(sk[1])
                cats.append('table:unsorted')
            if not sk[1]:
                cats.append('table:empty')

    sc = rng.choice(['h/8', 'h/4', 'h/2', 'h', 'h', '2h', 'rand', 'rand', 'span', '4span'])
    step = {'h/8': h // 8, 'h/4': h // 4, 'h/2': h // 2, 'h': h, '2h': 2 * h,
            'rand': rng.randint(1, max(2, min(span, 6 * h))), 'span': max(1, span),
            '4span': 4 * max(1, span)}[sc]
    cats.append('step:' + sc)
    mg, Mg = min(gaps), max(gaps)
    cats.append('regime:' + ('step<gap' if step < mg else 'step=gap' if step == mg and mg == Mg else
                             'step>=span' if step >= span else 'mixed' if step < Mg else 'step>gap'))
    alt = rng.random() < 0.5
    lever = rng.random() < 0.35
    models = rng.choices([0, 1, 2], [5, 3, 2])[0]
    s = dict(filter=kind, epochs=ep, sensors=sensors, meas_mode=mode, step=step, alt=alt, models=models,
             lever=lever)
    if rng.random() < 0.08:
        # cold start: huge initial uncertainty x very precise fixes (prior / measurement variance >> 1e16)
        s['sd'] = [rng.choice([1e6, 1e7]), rng.choice([1e2, 1e3, 1e4])]
        s['meas_sd'] = rng.choice([1e-3, 1e-2])
        cats.append('magnitudes:extreme')
    if sensors and len(ep) >= 5 and rng.random() < 0.15:
        # a history of calls on different spans that reuse the same Measurement objects
        a, b = sorted(rng.sample(range(1, len(ep) - 1), 2))
        w = [[ep[0], ep[a]], [ep[0], ep[-1]], [ep[b], ep[-1]]]
        if rng.random() < 0.3:
            w.append([ep[a - 1], ep[b + 1]])
        if rng.random() < 0.3:
            rng.shuffle(w)
        s['windows'] = w
        cats.append(f'history:{len(w)} calls')
    if sensors:
        s['values'] = []
        for c, ts in sensors:
            v = rng.choices(['random', 'const', 'blocks', 'zero'], [11, 4, 3, 2])[0]
            if v == 'zero' and c != 'BodyVelocity':
                v = 'const'
            s['values'].append(v)
            if len(ts) >= 2:
                cats.append('values:' + v)
    if kind == 'ff':
        s['increments'] = bool(models == 2 or rng.random() < 0.5)
        cats.append('increments:' + ('yes' if s['increments'] else 'no'))
        if s['increments'] and len(ep) >= 3 and rng.random() < 0.5:
            k = rng.choice([2, 3])
            sub_ = ep[rng.randrange(k)::k]
            if len(sub_) > 3 and rng.random() < 0.5:          # a stretch of rows without any increment
                i = rng.randrange(1, len(sub_) - 1)
                del sub_[i:i + rng.randint(1, max(1, len(sub_) // 3))]
            if len(sub_) >= 2:
                s['inc_epochs'] = sub_
                cats.append(f'increments:sparse(every {k}th row)')
    cats += ['altitude:' + ('on' if alt else 'off'), 'models:' + ('none', 'bias', 'bias+scale')[models]]
    s['cats'] = cats
    return s


def exhaustive_small(kind, seed):
    """All schedules with <=6 IMU epochs (uniform, interval 8 ticks) and <=4 stamps on the
    quarter-interval grid from one quarter before the start to one quarter after the end; two
    sensors, the assignment of a stamp (sensor 0 / sensor 1 / both) and the step cycle through
    all values deterministically."""
    h, q, t0 = 8, 2, 512
    steps = [1, 2, 4, 6, 8, 10, 16, 24, 200]
    assign = list(itertools.product((0, 1, 2), repeat=4))
    c = seed
    for n in range(1, 6):
        ep = [t0 + h * i for i in range(n + 1)]
        grid = list(range(t0 - q, ep[-1] + q + 1, q))
        for m in range(0, 5):
            for st in itertools.combinations(grid, m):
                c += 1
                a = assign[(c * 7) % len(assign)]
                sensors = [['Position', []], ['NedVelocity', []]]
                for j, t in enumerate(st):
                    if a[j] in (0, 2):
                        sensors[0][1].append(t)
                    if a[j] in (1, 2):
                        sensors[1][1].append(t)
                s = dict(filter=kind, epochs=ep, sensors=sensors, meas_mode='list',
                         step=steps[c % len(steps)], alt=bool(c % 2), models=0,
                         cats=[f'small:n={n},stamps={m}'])
                s['values'] = [('random', 'const', 'blocks')[(c // 3) % 3], ('const', 'random', 'blocks')[(c // 5) % 3]]
                if kind == 'ff':
                    s['increments'] = bool((c // 2) % 2)
                    if s['increments'] and (c // 4) % 2 and n >= 2:
                        s['inc_epochs'] = ep[::2]
                        s['models'] = 2 if (c // 8) % 2 else 0
                yield s


def key_of(s):
    t0 = s['epochs'][0]
    return (s['filter'], tuple(t - t0 for t in s['epochs']),
            tuple((c, tuple(t - t0 for t in ts)) for c, ts in s['sensors']), s['meas_mode'], s['step'],
            s['alt'], s['models'], s.get('increments'), bool(s.get('lever')),
            tuple(t - t0 for t in s.get('inc_epochs') or ()), tuple(s.get('values') or ()),
            tuple((a - t0, b - t0) for a, b in s.get('windows') or ()), tuple(s.get('sd') or ()), s.get('meas_sd'))


# --------------------------------------------------------------------------------------
# Coq side: exact comparison of the model trace with the implementation's answer
# --------------------------------------------------------------------------------------
def _z(n):
    return str(n) if n >= 0 else f"({n})"


def _zl(l):
    return "[" + "; ".join(_z(n) for n in l) + "]%Z"


def _ql(l):
    """list Q literal of exact tick values (ints, or 'p/q' strings off the grid)."""
    if all(isinstance(t, int) for t in l):
        return f"(qs {_zl(l)})"
    out = []
    for t in l:
        f = Fraction(t)
        out.append(f"(Qmake ({f.numerator})%Z ({f.denominator * DEN})%positive)")
    return "[" + "; ".join(out) + "]"


COQ_HEAD = """From Coq Require Import List QArith Bool Arith ZArith.
From PV Require Import Model.FeedbackSched Model.FeedforwardSched.
Import ListNotations.
Definition q (n : Z) : Q := Qmake n 1024%positive.
Definition qs (l : list Z) : list Q := map q l.
Definition eqQ (a b : list Q) : bool :=
  Nat.eqb (length a) (length b) && forallb (fun p => Qeq_bool (fst p) (snd p)) (combine a b).
Definition eqQQ (a b : list (list Q)) : bool :=
  Nat.eqb (length a) (length b) && forallb (fun p => eqQ (fst p) (snd p)) (combine a b).
Definition eqNN (a b : list (nat * nat)) : bool :=
  Nat.eqb (length a) (length b) &&
  forallb (fun p => Nat.eqb (fst (fst p)) (fst (snd p)) && Nat.eqb (snd (fst p)) (snd (snd p))) (combine a b).
Definition batches (tr : list event) : list (nat * nat) :=
  flat_map (fun e => match e with Integrate a b => [(a, b)] | _ => [] end) tr.
Record case := mk { c_ep : list Z; c_sens : list (list Z); c_step : Z;
                    e_traj : list Q; e_innov : list (list Q); e_used : list (list Q);
                    e_tabs : list (list Q); e_bat : list (nat * nat) }.
Definition sensorsQ (c : case) := map qs (c_sens c).
Definition ks (c : case) := seq 0 (length (c_sens c)).
(* bit k of the answer set = observable k differs *)
Definition fb_diff (c : case) : list nat :=
  match qs (c_ep c) with
  | [] => [99%nat]
  | t0 :: incs =>
    let tr := fb_run_exact (length incs + 2)%nat (q (c_step c)) t0 incs (sensorsQ c) in
    (if completed tr then [] else [0%nat]) ++
    (if eqQ (fb_trajectory_index t0 incs tr) (e_traj c) then [] else [1%nat]) ++
    (if eqQQ (map (fun k => innov_epochs k tr) (ks c)) (e_innov c) then [] else [2%nat]) ++
    (if eqQQ (map (fun k => innov_epochs k tr) (ks c)) (e_used c) then [] else [3%nat]) ++
    (if forallb (eqQ (record_times tr)) (e_tabs c) then [] else [4%nat]) ++
    (if eqNN (batches tr) (e_bat c) then [] else [5%nat])
  end.
Definition ff_diff (c : case) : list nat :=
  let times := qs (c_ep c) in
  let tr := ff_run_exact (length times + 2)%nat (q (c_step c)) times (sensorsQ c) in
  (if completed tr then [] else [0%nat]) ++
  (if eqQQ (map (fun k => innov_rows k tr) (ks c)) (e_innov c) then [] else [2%nat]) ++
  (if eqQQ (map (fun k => innov_epochs k tr) (ks c)) (e_used c) then [] else [3%nat]) ++
  (if forallb (eqQ (record_times tr)) (e_tabs c) then [] else [4%nat]).
Definition report (diff : case -> list nat) (cs : list case) : list (nat * list nat) :=
  filter (fun p => negb (Nat.eqb (length (snd p)) 0%nat)) (combine (seq 0 (length cs)) (map diff cs)).
"""
DIFF_NAMES = {0: 'model does not complete', 1: 'trajectory index', 2: 'innovation index',
              3: 'measurement epochs used', 4: 'index of the sd/estimate (result) tables',
              5: 'integrator batches', 99: 'no epochs'}


def coq_case(s, obs):
    sens = [ts for _, ts in s['sensors']] if s['meas_mode'] == 'list' else []
    innov = [(x if x is not None else ['-1/3']) for x in obs['innov']]
    bat = "[" + "; ".join(f"({a}, {b})%nat" for a, b in obs.get('batches', [])) + "]"
    tabs = "[" + "; ".join(_ql(v) for v in obs['tables'].values()) + "]"
    return ("mk " + _zl(s['epochs']) + " [" + "; ".join(_zl(t) for t in sens) + "] " + _z(s['step']) + "%Z "
            + _ql(obs['traj']) + " [" + "; ".join(_ql(x) for x in innov) + "] ["
            + "; ".join(_ql(x) for x in obs['used']) + "] " + tabs + " " + bat)


def coq_compare(kind, pairs, tag):
    """pairs: list of (schedule, ok-observables).  Returns (ok, {case position: [diff codes]}, raw)."""
    import re
    text = COQ_HEAD + "Definition cases : list case := [\n  " + ";\n  ".join(
        coq_case(s, o) for s, o in pairs) + "\n].\n" + \
        f"Eval vm_compute in (report {kind}_diff cases).\n"
    ok, out = common.eval_cases(tag, text, timeout=900)
    if not ok:
        return False, {}, out
    m = re.search(r'=\s*(\[.*?\])\s*:\s*list \(nat \* list nat\)', out, re.S)
    if not m:
        return False, {}, out
    body = m.group(1).replace('%nat', '')
    res = {}
    for mm in re.finditer(r'\(\s*(\d+),\s*\[([\d;\s]*)\]\s*\)', body):
        res[int(mm.group(1))] = [int(x) for x in mm.group(2).replace(';', ' ').split()]
    if len(res) != body.count('[') - 1:        # one inner list per reported case: nothing may be lost in parsing
        return False, {}, out
    return True, res, out


def model_trace(s):
    """Event trace of the Coq model on schedule `s` (text printed by coqc)."""
    sens = [ts for _, ts in s['sensors']] if s['meas_mode'] == 'list' else []
    sq = "[" + "; ".join(f"qs {_zl(t)}" for t in sens) + "]"
    if s['filter'] == 'fb':
        run = (f"fb_run_exact {len(s['epochs']) + 1} (q {_z(s['step'])}%Z) (q {_z(s['epochs'][0])}%Z) "
               f"(qs {_zl(s['epochs'][1:])}) {sq}")
    else:
        run = f"ff_run_exact {len(s['epochs']) + 2} (q {_z(s['step'])}%Z) (qs {_zl(s['epochs'])}) {sq}"
    text = COQ_HEAD + f"Eval vm_compute in (map (fun e => match e with\n" \
        "  | Innov k m t => (1%Z, Z.of_nat k, Qnum (Qred (m * 1024)%Q), Qnum (Qred (t * 1024)%Q))\n" \
        "  | Record t => (2%Z, 0%Z, Qnum (Qred (t * 1024)%Q), 0%Z)\n" \
        "  | Integrate a b => (3%Z, 0%Z, Z.of_nat a, Z.of_nat b)\n" \
        "  | Propagate a b => (4%Z, 0%Z, Z.of_nat a, Z.of_nat b)\n" \
        "  | OutOfFuel => (5%Z, 0%Z, 0%Z, 0%Z) | Crash => (6%Z, 0%Z, 0%Z, 0%Z) end)\n" \
        f"  ({run})).\n"
    ok, out = common.eval_cases('replay_' + s['filter'], text, timeout=300)
    if not ok:
        return "coqc failed:\n" + out[-1500:]
    import re
    ev = []
    for a, b, c, d in re.findall(r'\(\s*(-?\d+),\s*(-?\d+),\s*(-?\d+),\s*(-?\d+)\s*\)', out.replace('%Z', '')):
        a, b, c, d = int(a), int(b), int(c), int(d)
        ev.append({1: f"Innov sensor={b} epoch={c} at={d}", 2: f"Record {c}", 3: f"Integrate [{c}:{d})",
                   4: f"Propagate {c}->{d}", 5: "OutOfFuel", 6: "Crash"}[a])
    return "\n".join("    " + e for e in ev)


# --------------------------------------------------------------------------------------
# shrinking and the parallel runner
# --------------------------------------------------------------------------------------
def fails_on_impl(s):
    return property_failures(s, run_impl(s))


def failure_class(fails):
    """Coarse class of the first failure, preserved by the shrinker."""
    if not fails:
        return None
    f = fails[0]
    if f.startswith('filter does not terminate'):
        return 'nontermination'
    if f.startswith('filter raised') or f.startswith('non-finite'):
        return 'numeric-or-exception'
    return 'schedule'


def valid(s):
    """Inputs the documented interface accepts (the shrinker must not leave this set)."""
    if s['filter'] == 'ff' and s.get('models') == 2 and not s.get('increments'):
        return False          # ValueError by contract: scale/misalignment states need `increments`
    if s.get('inc_epochs') is not None and (len(s['inc_epochs']) < 2 or not set(s['inc_epochs']) <= set(s['epochs'])):
        return False
    if s.get('windows') is not None and (not s['windows'] or any(len(c['epochs']) < 2 for c in calls_of(s))):
        return False
    return len(s['epochs']) >= 2


def model_pairs(s, obs):
    """(single-call schedule, its observables) for every call of `s` that returned."""
    if s.get('windows') and 'calls' in obs:
        return [(c, o) for c, o in zip(calls_of(s), obs['calls']) if o['status'] == 'ok']
    return [(s, obs)] if obs['status'] == 'ok' else []


def shrink(s, pred=None, budget=160):
    """Greedy shrink of a failing schedule; `pred(s)` = still failing (default: the property fails on
    the implementation with the same class of failure)."""
    if pred is None:
        cls0 = failure_class(fails_on_impl(s))
        pred = (lambda x: failure_class(fails_on_impl(x)) == cls0) if cls0 else (lambda x: False)
    s = json.loads(json.dumps(s))
    runs = [0]

    def still(c):
        if runs[0] >= budget or not valid(c):
            return False
        runs[0] += 1
        try:
            return pred(c)
        except Exception:
            return False

    changed = True
    while changed and runs[0] < budget:
        changed = False
        cands = []
        for k in range(len(s['sensors'])):
            c = json.loads(json.dumps(s))
            del c['sensors'][k]
            if c.get('values'):
                del c['values'][k:k + 1]
            if not c['sensors']:
                c['meas_mode'] = 'empty'
            cands.append(c)
        for k, (_, ts) in enumerate(s['sensors']):
            for j in range(len(ts)):
                c = json.loads(json.dumps(s))
                del c['sensors'][k][1][j]
                cands.append(c)
        if len(s['epochs']) > 2:
            for j in list(range(len(s['epochs']) - 1, -1, -1)):
                c = json.loads(json.dumps(s))
                gone = c['epochs'].pop(j)
                if c.get('inc_epochs'):
                    c['inc_epochs'] = [t_ for t_ in c['inc_epochs'] if t_ != gone]
                    if len(c['inc_epochs']) < 2:
                        continue
                cands.append(c)
        if s.get('windows'):
            c = json.loads(json.dumps(s))
            del c['windows']
            cands.append(c)
            for j in range(len(s['windows'])):
                c = json.loads(json.dumps(s))
                del c['windows'][j]
                cands.append(c)
        for fld in ('sd', 'meas_sd'):
            if s.get(fld) is not None:
                c = json.loads(json.dumps(s))
                del c[fld]
                cands.append(c)
        if s.get('values') and any(v != 'random' for v in s['values']):
            c = json.loads(json.dumps(s))
            del c['values']
            cands.append(c)
        if s.get('inc_epochs'):
            c = json.loads(json.dumps(s))
            del c['inc_epochs']
            cands.append(c)
            for j in range(len(s['inc_epochs'])):
                if len(s['inc_epochs']) > 2:
                    c = json.loads(json.dumps(s))
                    del c['inc_epochs'][j]
                    cands.append(c)
        for fld, val in (('models', 0), ('alt', True), ('increments', False), ('lever', False)):
            if s.get(fld) not in (None, val):
                c = json.loads(json.dumps(s))
                c[fld] = val
                cands.append(c)
        for c in cands:
            if still(c):
                s = c
                changed = True
                break
    s['cats'] = ['shrunk']
    return s


_WARM = False


def warm_up(kind):
    """Import pyins, build the base data and JIT-compile the integrator before forking."""
    global _WARM
    base()
    if not _WARM:
        s = dict(filter=kind, epochs=[512, 520, 528], sensors=[['Position', [514]]], meas_mode='list',
                 step=8, alt=True, models=0, increments=True, cats=[])
        run_impl(s)
        run_impl(dict(s, alt=False))
        _WARM = True


def covered_functions(kind):
    """The implementation functions the model of `kind` claims to cover (for tools/linecov.py)."""
    from pyins import filters, measurements
    f = {'filters.run_feedback_filter': filters.run_feedback_filter,
         'filters._correct_increments': filters._correct_increments} if kind == 'fb' else \
        {'filters.run_feedforward_filter': filters.run_feedforward_filter}
    for c in CLS:
        f[f'measurements.{c}.compute_matrices'] = getattr(measurements, c).compute_matrices
    return f


# Executable lines that may stay unreached are determined STRUCTURALLY (independent of how the source is
# written, so a behaviour-preserving refactoring does not change the verdict):
R_ARGCHECK = ("argument-check `raise ValueError` of run_feedforward_filter: the harness always passes equally "
              "indexed trajectories (the property's precondition) and passes `increments` whenever "
              "scale/misalignment states are modelled")
R_RATE = ("NedVelocity lever-arm term: executed only for a pva that carries the rate_x/y/z columns (probe: "
          "executed with them, not executed without them); the feedforward filter's interpolated pva never has them")


def allowed_unreached(kind):
    """{function name: {line: reason}} for the feedforward check; empty for the feedback check."""
    if kind != 'ff':
        return {}
    import ast
    import inspect
    import textwrap
    import linecov
    import pandas as pd
    from pyins import filters, measurements, error_model
    out = {}
    # (1) the two ValueError argument checks of run_feedforward_filter (exactly two are expected)
    fn = filters.run_feedforward_filter
    src, start = inspect.getsourcelines(fn)
    tree = ast.parse(textwrap.dedent(''.join(src)))
    raises = [n for n in ast.walk(tree) if isinstance(n, ast.Raise) and isinstance(n.exc, ast.Call)
              and getattr(n.exc.func, 'id', None) == 'ValueError']
    if len(raises) == 2:
        out['filters.run_feedforward_filter'] = {
            start + ln - 1: R_ARGCHECK for n in raises for ln in range(n.lineno, n.end_lineno + 1)}
    # (2) lines of NedVelocity.compute_matrices that run only when the pva has angular-rate columns
    traj, _ = base()
    row = traj.iloc[600]
    data = pd.DataFrame([row[['VN', 'VE', 'VD']].values], index=[row.name], columns=['VN', 'VE', 'VD'])
    m = measurements.NedVelocity(data, 0.5, np.array([0.5, 0.1, -0.2]))
    em = error_model.InsErrorModel(True)
    hit = []
    for pva in (pd.concat([row, pd.Series([0.01, 0.0, 0.02], index=['rate_x', 'rate_y', 'rate_z'])]), row):
        cov = linecov.LineCoverage({'f': measurements.NedVelocity.compute_matrices})
        with cov:
            m.compute_matrices(row.name, pva, em)
        hit.append(set(cov.hit['f']))
    out['measurements.NedVelocity.compute_matrices'] = {ln: R_RATE for ln in hit[0] - hit[1]}
    return out


def code_line_report(kind, hits):
    """(summary, unexpected unreached lines, [(allowed unreached line, reason)]) of the accumulated line hits."""
    import linecov
    cov = linecov.LineCoverage(covered_functions(kind))
    cov.merge(hits)
    summ, missing = cov.report(allow=())
    allow = allowed_unreached(kind)
    bad, allowed = [], []
    for m in missing:
        name, ln, _ = m.split(':', 2)
        why = allow.get(name, {}).get(int(ln))
        if why:
            allowed.append((m, why))
        else:
            bad.append(m)
    return summ, bad, allowed


def corpus(kind):
    """Fixed schedules, run first, that reach every branch of the covered functions on their own:
    default arguments / no measurements / step smaller than the sampling gap; three sensors with lever
    arms, sensor models, no-altitude mode, coincident + clustered + out-of-span stamps, one sensor
    without any stamp in [start, end)."""
    ep = [512 + 16 * i for i in range(7)]
    out = [
        dict(filter=kind, epochs=ep, sensors=[], meas_mode='none', step=4, alt=True, models=0, lever=False),
        dict(filter=kind, epochs=ep, sensors=[], meas_mode='empty', step=40, alt=False, models=1, lever=False),
        dict(filter=kind, epochs=ep, meas_mode='list', step=16, alt=False, models=2, lever=True,
             sensors=[['Position', [500, 512, 515, 517, 544, 600, 608]], ['NedVelocity', [515, 528, 590, 603]],
                      ['BodyVelocity', [400, 608, 700]]]),
        dict(filter=kind, epochs=ep, meas_mode='list', step=200, alt=True, models=1, lever=True,
             sensors=[['BodyVelocity', [513, 514, 560]], ['NedVelocity', [514, 607]], ['Position', [608]]]),
    ]
    # tables whose VALUES repeat exactly on distinct stamps: zero-velocity updates, a held position, blocks
    out.append(dict(filter=kind, epochs=ep, meas_mode='list', step=16, alt=True, models=0, lever=False,
                    sensors=[['BodyVelocity', [512, 520, 528, 550, 607]], ['Position', [500, 516, 544, 545, 590]],
                             ['NedVelocity', [513, 529, 530, 560, 561, 575, 608]]],
                    values=['zero', 'const', 'blocks']))
    # a history: short window, then the whole span, then a late window, all on the same Measurement objects
    out.append(dict(filter=kind, epochs=ep, meas_mode='list', step=16, alt=True, models=1, lever=False,
                    sensors=[['Position', [515, 530, 545, 560, 575, 590, 605]], ['NedVelocity', [513, 528, 562, 600]]],
                    windows=[[512, 544], [512, 608], [560, 608]]))
    # cold start: huge initial sd x mm..cm fixes arriving between IMU epochs after seconds of propagation
    long_ep = [256 + 64 * i for i in range(97)]
    pos_t = [256 + 2565, 256 + 3072, 256 + 3082, 256 + 5003]
    for (psd, vsd, msd), alt in zip([(1e6, 1e2, 1e-3), (1e7, 1e3, 1e-2), (1e6, 1e4, 1e-3), (1e7, 1e3, 1e-3)],
                                    [True, False, False, True]):
        out.append(dict(filter=kind, epochs=long_ep, meas_mode='list', step=512, alt=alt, models=0, lever=False,
                        sensors=[['Position', pos_t], ['NedVelocity', [t + 307 for t in pos_t]]],
                        sd=[psd, vsd], meas_sd=msd))
    for i, s in enumerate(out):
        s['cats'] = ['corpus'] + (['history:3 calls'] if s.get('windows') else []) + \
            (['magnitudes:extreme'] if s.get('sd') else [])
        if kind == 'ff':
            s['increments'] = bool(s['models'] == 2 or i == 1)
    if kind == 'ff':
        # trajectory rows denser than the increments, scale/misalignment states modelled, steps of one row
        # that contain no increment sample (the gyro/accel averages are sums over an EMPTY batch)
        out += [
            dict(filter=kind, epochs=ep, inc_epochs=ep[::2], sensors=[], meas_mode='empty', step=4, alt=True,
                 models=2, lever=False, increments=True, cats=['corpus', 'increments:sparse(every 2th row)']),
            dict(filter=kind, epochs=ep, inc_epochs=[ep[0], ep[3], ep[6]], meas_mode='list', step=200, alt=False,
                 models=2, lever=True, increments=True, cats=['corpus', 'increments:sparse(every 3th row)'],
                 sensors=[['Position', [515, 517, 530, 547]], ['NedVelocity', [517, 562, 563, 600]]]),
            dict(filter=kind, epochs=ep, inc_epochs=[ep[1], ep[2]], meas_mode='list', step=16, alt=True,
                 models=2, lever=False, increments=True, cats=['corpus', 'increments:sparse(every 3th row)'],
                 sensors=[['BodyVelocity', [529, 580]]]),
        ]
    return out


def _work(s):
    try:
        import linecov
        cov = linecov.LineCoverage(covered_functions(s['filter']))
        with cov:
            obs = run_impl(s)
        obs['_hit'] = {k: sorted(v) for k, v in cov.hit.items()}
        return obs, property_failures(s, obs)
    except BaseException as e:          # never kill the pool
        return dict(status='harness-error', error=f"{type(e).__name__}: {e}\n{traceback.format_exc()[-800:]}"), []


def run_many(schedules, jobs=None):
    jobs = jobs or int(os.environ.get('VERIF_JOBS', '0')) or max(1, min(8, (os.cpu_count() or 2) // 2))
    if jobs == 1 or len(schedules) < 8:
        return [_work(s) for s in schedules]
    ctx = multiprocessing.get_context('fork')
    with ctx.Pool(jobs) as pool:
        return pool.map(_work, schedules, chunksize=max(1, min(16, len(schedules) // (4 * jobs))))


# --------------------------------------------------------------------------------------
# the check
# --------------------------------------------------------------------------------------
def correspondence(r, kind, schedules, label, max_report=3):
    """Run schedules on the implementation and on the model; record cases, breaks, violations."""
    t = time.time()
    results = []
    for lo in range(0, len(schedules), 250):      # stop early on a broken tree (failing runs are slow)
        results += run_many(schedules[lo:lo + 250])
        if sum(1 for _, f in results if f) >= 5 and len(results) < len(schedules):
            r.log(f"{label}: property failures found, skipping the remaining {len(schedules) - len(results)} schedules")
            schedules = schedules[:len(results)]
            break
    r.log(f"{label}: {len(schedules)} schedules run on the implementation in {time.time() - t:.1f}s")
    dist = r.coverage.setdefault('distribution', collections.Counter())
    ok_pairs = []
    nviol = 0
    hits = r.coverage.setdefault('_hits', {})
    for s, (obs, fails) in zip(schedules, results):
        for name, lines in obs.pop('_hit', {}).items():
            hits.setdefault(name, set()).update(lines)
        for c in s.get('cats', []):
            dist[c] += 1
        dist['imu-epochs:' + ('<=4' if len(s['epochs']) <= 4 else '5-12' if len(s['epochs']) <= 12 else '13+')] += 1
        nst = sum(len(t_) for _, t_ in s['sensors'])
        r.case(key_of(s), sample=dict(schedule={k: v for k, v in s.items() if k != 'cats'},
                                      observed=[{k: o.get(k) for k in ('traj', 'innov', 'tables')}
                                                for o in obs.get('calls', [obs])]
                                      if obs['status'] == 'ok' else {k: v for k, v in obs.items() if k != 'calls'}),
               nontrivial=len(s['epochs']) > 2 or nst > 0)
        if obs['status'] == 'harness-error':
            r.broken('harness', 'could not build inputs', obs['error'])
            continue
        if fails:
            nviol += 1
            if nviol <= max_report and len(r.violations) < 4:
                small = shrink(s)
                sf = fails_on_impl(small) or fails
                r.log(f"PROPERTY FAILS on the implementation: {sf[0]}")
                r.violation(sf[0], dict(filter=kind, schedule=small, failures=sf, original=s))
        if obs.get('internal') and not fails:
            dist['internal-not-finite'] += 1
            if dist['internal-not-finite'] <= 2:
                r.broken('support', f'{label}: ' + obs['internal'][0] + ' handed to the covariance propagation',
                         json.dumps(dict(schedule={k: v for k, v in s.items() if k != 'cats'})))
        ok_pairs += [(c, o, s) for c, o in model_pairs(s, obs)]
        if obs['status'] != 'ok':
            if nviol <= max_report:
                r.broken('correspondence', f'{label}: implementation {obs["status"]}',
                         json.dumps(dict(schedule={k: v for k, v in s.items() if k != 'cats'},
                                         error=obs.get('error'))))
    t = time.time()
    nbad = 0
    for lo in range(0, len(ok_pairs), 400):
        shard = ok_pairs[lo:lo + 400]
        ok, res, out = coq_compare(kind, [x[:2] for x in shard], f"{r.pid.lower()}_{label.split()[0].replace('-', '_')}_{lo}")
        if not ok:
            r.broken('correspondence', f'{label}: coqc failed on the case file', out[-2000:])
            continue
        for i, codes in sorted(res.items()):
            nbad += 1
            if nbad <= max_report:
                s = shard[i][2]           # the whole history when the case is one call of a history
                small = shrink(s, lambda c: bool(differs(c)), budget=30) if nbad == 1 and not r.violations else s
                r.broken('correspondence', f"{label}: model and implementation differ in "
                         + ", ".join(DIFF_NAMES.get(c, str(c)) for c in codes),
                         json.dumps(dict(schedule={k: v for k, v in small.items() if k != 'cats'},
                                         differ=differs(small) if small is not s else
                                         [DIFF_NAMES.get(c, str(c)) for c in codes])))
    r.log(f"{label}: {len(ok_pairs)} cases compared exactly in Coq in {time.time() - t:.1f}s, "
          f"{nbad} mismatch(es), {nviol} property failure(s)")
    r.coverage.setdefault('correspondence', {})[label] = dict(
        schedules=len(schedules), compared_in_coq=len(ok_pairs), mismatches=nbad, property_failures=nviol)
    return nbad, nviol


def run_check(r, kind, props_file):
    r.trusted += [
        "hand-written cursor/event model Model/FeedbackSched.v" +
        (" + Model/FeedforwardSched.v" if kind == 'ff' else "") +
        " (tied to pyins/filters.py by the exact comparison of index observables on generated schedules)",
        "binary64 time arithmetic is exact on the generated (dyadic) stamps; for arbitrary floats the *_oracle "
        "theorems cover any rounding of `time + time_step`" +
        (" (C09: t <= add_step t; C10: no hypothesis at all)"),
        "numerical content of the filter (P, x, pva) is outside the model; finiteness is asserted on the "
        "implementation for every generated schedule only",
        "numpy sort/unique/searchsorted, pandas label lookup (`time in index`, .loc) on exact float labels",
    ]
    r.assumptions += [
        "time index strictly increasing and initial time < first increment time (StronglySorted Qlt); "
        "each sensor is a distinct Measurement class with unique stamps per table",
    ]
    r.prove(props_file)
    warm_up(kind)
    rng = random.Random(r.seed * 1000003 + (9 if kind == 'fb' else 10))
    n = 200 if r.tier == 'quick' else 5000
    nmax = 16 if r.tier == 'quick' else 24
    schedules = [gen_schedule(rng, kind, nmax) for _ in range(n)]
    correspondence(r, kind, corpus(kind), 'corpus')
    correspondence(r, kind, schedules, 'random')
    if r.tier == 'thorough':
        small = list(exhaustive_small(kind, r.seed))
        correspondence(r, kind, small, 'small-exhaustive')
        r.hygiene(props_file)
        r.coqchk(props_file)
    else:
        small = list(exhaustive_small(kind, r.seed))
        sub = random.Random(r.seed + 77).sample(small, 200)
        correspondence(r, kind, sub, 'small-sample')
    r.coverage['distribution'] = dict(sorted(r.coverage['distribution'].items()))
    summ, bad, allowed = code_line_report(kind, r.coverage.pop('_hits', {}))
    r.coverage['code_lines'] = dict(functions=summ,
                                    allowed_unreached=[dict(line=a, reason=w) for a, w in allowed])
    r.log("code lines executed by the generated schedules: " + ", ".join(
        f"{n} {v['executed']}/{v['executable']}" for n, v in summ.items())
        + f"; {len(allowed)} allowed unreached, {len(bad)} unexpected unreached")
    if bad:
        r.broken('correspondence', 'code line not exercised', bad)


def run_falsify(r, kind):
    """Independent search on the implementation only (property statements, no model)."""
    warm_up(kind)
    rng = random.Random(r.seed * 7919 + 31)
    schedules = corpus(kind) + [gen_schedule(rng, kind, 12) for _ in range(500)]
    small = list(exhaustive_small(kind, r.seed + 1))
    schedules += random.Random(r.seed + 5).sample(small, 500)
    results = run_many(schedules)
    found = 0
    for s, (obs, fails) in zip(schedules, results):
        if fails:
            small_s = shrink(s)
            sf = fails_on_impl(small_s) or fails
            r.log(f"falsifier: {sf[0]}")
            r.violation(sf[0], dict(filter=kind, schedule=small_s, failures=sf, original=s))
            found += 1
            if found >= 2:
                break
    r.log(f"falsifier: {len(schedules)} schedules, {found} failing input(s) reported")


def differs(s):
    """Names of the observables on which the implementation and the Coq model differ on `s`
    ([] = none; implementation failures count as a difference)."""
    obs = run_impl(s)
    if obs['status'] != 'ok':
        return [f"implementation {obs['status']}"]
    ok, res, out = coq_compare(s['filter'], model_pairs(s, obs), 'one_' + s['filter'])
    if not ok:
        return ['coqc failed: ' + out[-300:]]
    return sorted({DIFF_NAMES.get(c, str(c)) for codes in res.values() for c in codes})


def replay_one(s):
    warm_up(s['filter'])
    name = 'run_feedback_filter' if s['filter'] == 'fb' else 'run_feedforward_filter'
    print(f"schedule for pyins.filters.{name} (time unit = 1/{DEN} s):")
    print("  ", json.dumps({k: v for k, v in s.items() if k != 'cats'}))
    obs = run_impl(s)
    rc = 0
    calls = calls_of(s)
    for k, (c, o) in enumerate(zip(calls, obs.get('calls', [obs]))):
        if len(calls) > 1:
            print(f"--- call {k + 1} of {len(calls)} (same Measurement / sensor-model objects), epochs {c['epochs']}")
        print("implementation:")
        for kk, v in o.items():
            print(f"    {kk}: {v}")
        print("model (Coq, vm_compute) event trace:")
        print(model_trace(c))
        if o['status'] == 'ok':
            ok, res, out = coq_compare(c['filter'], [(c, o)], 'one_' + c['filter'])
            if not ok:
                print("coqc failed on the comparison:", out[-500:])
            elif res.get(0):
                print("MODEL AND IMPLEMENTATION DIFFER in:", ", ".join(DIFF_NAMES.get(x, str(x)) for x in res[0]))
                rc = 1
            else:
                print("model and implementation agree on every compared observable")
    fails = property_failures(s, obs)
    if fails:
        print("PROPERTY FAILS:")
        for f in fails:
            print("   -", f)
        return 1
    print("property statements hold on this schedule")
    return rc


def run_replay(obj):
    rep = obj.get('replay', obj)
    if isinstance(rep, dict) and 'schedule' in rep:
        return replay_one(rep['schedule'])
    rc, n = 0, 0
    for b in obj.get('broken', []) + obj.get('breaks', []):     # a `-broken.json` file: no failing input known
        try:
            s = json.loads(b['detail'])['schedule']
        except Exception:
            print(f"{b.get('kind')}: {b.get('name')}: {str(b.get('detail'))[:600]}")
            continue
        n += 1
        print(f"--- {b.get('kind')}: {b.get('name')}")
        rc |= replay_one(s)
    if not n:
        print("no schedule recorded; rerun:", obj.get('rerun'))
    return rc


def check(r):
    run_check(r, 'fb', 'Props/C09.v')


def falsify(r):
    run_falsify(r, 'fb')


def replay(obj):
    return run_replay(obj)
