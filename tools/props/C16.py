"""C16 — Earth model and geodetic transforms are one coherent ellipsoidal geometry.

Tie: translator (earth.py, transform geodetic functions, numba gravity) -> Gen/*.v;
theorems in Props/C16.v against Spec/Ellipsoid.v.  Numerical statement checks on the
implementation (round trip, finite differences, parity, scalar/stacked) run as support
and as the falsifier; margins are >= 100x above rounding.
"""
import math
import random
import numpy as np

RULE = ("translator: every traced function is validated on 60 random inputs per run (irrun vs real "
        "function); numeric support: random geodetic points incl. poles/equator/+-180 deg/all octants, "
        "altitudes -10 km..40000 km; a case is distinct by its rounded (lat, lon, alt) triple")


def _points(rng, n):
    pts = []
    special_lat = [-90.0, -89.999, -45.0, -1e-9, 0.0, 1e-9, 30.0, 89.999, 90.0]
    special_lon = [-180.0, -179.999, -90.0, 0.0, 1e-9, 90.0, 179.999, 180.0]
    special_alt = [-10000.0, -1.0, 0.0, 100.0, 1e4, 1e5, 4e7]
    for la in special_lat:
        for lo in (rng.choice(special_lon), rng.uniform(-180, 180)):
            pts.append((la, lo, rng.choice(special_alt)))
    while len(pts) < n:
        alt = rng.choice([rng.uniform(-1e4, 1e5), 10 ** rng.uniform(3, 7.6)])
        pts.append((rng.uniform(-90, 90), rng.uniform(-180, 180), alt))
    return pts


def numeric_statements(r, n, pts_override=None):
    """Check the property's own statements on the implementation.  Returns list of
    (what, replay) for failures."""
    from pyins import earth, transform, _numba_integrate as ni
    rng = random.Random(r.seed + 16)
    fails = []

    def bad(what, **kw):
        fails.append((what, dict(kw)))

    pts = pts_override if pts_override is not None else _points(rng, n)
    a, e2 = earth.A, earth.E2
    b2 = a * a * (1 - e2)
    for (lat, lon, alt) in pts:
        r.case(("pt", round(lat, 6), round(lon, 6), round(alt, 3)),
               sample=dict(lat=lat, lon=lon, alt=alt))
        lla = np.array([lat, lon, alt])
        xyz = transform.lla_to_ecef(lla)
        # round trip
        back = transform.ecef_to_lla(xyz)
        dlon = (back[1] - lon + 180) % 360 - 180
        coslat = math.cos(math.radians(lat))
        if abs(back[0] - lat) > 1e-7 or abs(back[2] - alt) > 1e-2 or \
                (coslat > 1e-6 and abs(dlon) > 1e-7 and abs(abs(dlon) - 360) > 1e-7):
            bad("ecef_to_lla(lla_to_ecef(lla)) != lla", lla=list(lla), back=list(map(float, back)))
        # on ellipsoid at alt = 0
        x, y, z = transform.lla_to_ecef([lat, lon, 0.0])
        lev = x * x / (a * a) + y * y / (a * a) + z * z / b2
        if abs(lev - 1) > 1e-9:
            bad("lla_to_ecef(lat,lon,0) not on the WGS-84 ellipsoid", lat=lat, lon=lon, level=lev)
        # frame: orthonormal, det +1, axes = partials of ecef
        m = transform.mat_en_from_ll(lat, lon)
        if np.abs(m.T @ m - np.eye(3)).max() > 1e-12 or abs(np.linalg.det(m) - 1) > 1e-12:
            bad("mat_en_from_ll not a proper rotation", lat=lat, lon=lon)
        if abs(lat) < 89.9 and alt < 1e6:
            rn, re, rp = earth.principal_radii(lat, alt)
            h = 1e-6
            dlat = (transform.lla_to_ecef([lat + h, lon, alt]) - transform.lla_to_ecef([lat - h, lon, alt])) / (2 * h)
            dlo = (transform.lla_to_ecef([lat, lon + h, alt]) - transform.lla_to_ecef([lat, lon - h, alt])) / (2 * h)
            dal = (transform.lla_to_ecef([lat, lon, alt + 1]) - transform.lla_to_ecef([lat, lon, alt - 1])) / 2
            want = [math.radians(1) * rn * m[:, 0], math.radians(1) * rp * m[:, 1], -m[:, 2]]
            for nm, g, w in zip(("lat", "lon", "alt"), (dlat, dlo, dal), want):
                if np.abs(g - w).max() > 1e-4 * max(1.0, np.abs(w).max()):
                    bad(f"d ecef / d {nm} != radius * NED axis", lat=lat, lon=lon, alt=alt,
                        fd=list(map(float, g)), want=list(map(float, w)))
            # perturb / difference / local NED first-order agreement
            d = np.array([rng.uniform(-5, 5), rng.uniform(-5, 5), rng.uniform(-5, 5)])
            p = transform.perturb_lla(lla, d)
            dd = transform.compute_lla_difference(p, lla)
            nn = transform.lla_to_ned(np.array([p]), lla)[0]
            # first order: the neglected terms are O(|d|^2 (1 + |tan lat|) / R); margin 20x
            tol1 = 1e-6 + 20 * float(d @ d) * (1 + abs(math.tan(math.radians(lat)))) / 6.3e6
            if np.abs(dd - d).max() > tol1 or np.abs(nn - d).max() > tol1:
                bad("perturb_lla / compute_lla_difference / lla_to_ned disagree to first order",
                    lla=list(lla), d=list(d), diff=list(map(float, dd)), ned=list(map(float, nn)))
            # curvature matrix vs rotation of the frame under displacement (north / east)
            F = earth.curvature_matrix(lat, alt)
            for k in range(2):
                s = 1.0
                e = np.zeros(3)
                e[k] = s
                p2 = transform.perturb_lla(lla, e)
                m2 = transform.mat_en_from_ll(p2[0], p2[1])
                dm = (m.T @ m2 - np.eye(3)) / s      # = skew(rotation of new frame in old)
                rot = np.array([dm[2, 1], dm[0, 2], dm[1, 0]])
                tl = abs(math.tan(math.radians(lat)))
                if np.abs(rot - F @ e).max() > 1e-12 + 20 * (1 + tl * tl) * s * s / 6.3e6 ** 2:
                    bad("curvature_matrix != rotation of NED frame under displacement",
                        lla=list(lla), axis=k, rot=list(map(float, rot)), want=list(map(float, F @ e)))
        if -1000 <= alt <= 1e5:
            g = float(earth.gravity(lat, alt))
            if abs(float(ni.gravity(lat, alt)) - g) > 1e-12:
                bad("compiled gravity copy differs from earth.gravity", lat=lat, alt=alt)
            gn = earth.gravity_n(lat, alt)
            if gn[0] != 0 or gn[1] != 0 or gn[2] != g:
                bad("gravity_n != (0,0,gravity)", lat=lat, alt=alt)
            if abs(float(earth.gravity(-lat, alt)) - g) > 1e-12:
                bad("gravity not even in latitude", lat=lat, alt=alt)
            g0 = earth.gravitation_ecef(lla)
            want = m @ gn - earth.RATE ** 2 * np.array([xyz[0], xyz[1], 0.0])
            if np.abs(g0 - want).max() > 1e-9:
                bad("gravitation_ecef != gravity - centrifugal", lla=list(lla))
        w = earth.rate_n(lat)
        w2 = earth.rate_n(-lat)
        if abs(w2[0] - w[0]) > 1e-18 or w2[1] != 0 or abs(w2[2] + w[2]) > 1e-18:
            bad("rate_n parity", lat=lat)
        if np.abs(w - m.T @ np.array([0, 0, earth.RATE])).max() > 1e-18:
            bad("rate_n != mat_en^T (0,0,RATE)", lat=lat, lon=lon)
        xm = transform.lla_to_ecef([-lat, lon, alt])
        if abs(xm[0] - xyz[0]) > 1e-6 or abs(xm[1] - xyz[1]) > 1e-6 or abs(xm[2] + xyz[2]) > 1e-6:
            bad("lla_to_ecef parity in latitude", lla=list(lla))
    # mixed argument forms: scalar latitude with a vector of altitudes and vice versa must equal the element-wise
    # scalar calls (every function of (lat, alt) in earth.py broadcasts its two arguments)
    if pts_override is None:
        for k in range(6):
            lat_s = rng.choice([rng.uniform(-90, 90), 45.0, -33.0])
            alts = np.array([rng.uniform(-1000, 1e5) for _ in range(rng.choice([2, 3, 5]))])
            lats = np.array([rng.uniform(-89, 89) for _ in range(len(alts))])
            alt_s = rng.uniform(-1000, 1e5)
            forms = [("scalar lat, vector alt", lat_s, alts, [(lat_s, a) for a in alts]),
                     ("vector lat, scalar alt", lats, alt_s, [(la, alt_s) for la in lats]),
                     ("vector lat, vector alt", lats, alts, list(zip(lats, alts)))]
            for fname, fn in (("gravity", earth.gravity), ("gravity_n", earth.gravity_n),
                              ("principal_radii", lambda a, b: np.array(earth.principal_radii(a, b)).T),
                              ("curvature_matrix", earth.curvature_matrix)):
                for form, a1, a2, pairs in forms:
                    try:
                        got = np.asarray(fn(a1, a2), dtype=float)
                        want = np.array([np.asarray(fn(float(x), float(y)), dtype=float) for x, y in pairs])
                        ok = got.shape == want.shape and np.abs(got - want).max() <= 1e-9 * max(1.0, np.abs(want).max())
                    except Exception as ex:          # a documented broadcastable form must not raise
                        ok, got = False, repr(ex)
                    if not ok:
                        bad(f"earth.{fname}: {form} differs from the element-wise scalar calls",
                            lat=(float(np.ravel(a1)[0])), alt=float(np.ravel(a2)[0]), form=form, function=fname,
                            lats=np.ravel(a1).tolist(), alts=np.ravel(a2).tolist(),
                            got=(np.asarray(got).tolist() if not isinstance(got, str) else got))
    # table form of lla_to_ned: same numbers as the array form, carried by the SAME row labels and the documented
    # columns, whatever the index (time stamps, decimated or reversed integer labels) and column order of the input
    if pts_override is None:
        import pandas as pd
        near = []
        for k in range(3):
            la0, lo0, al0 = rng.uniform(-80, 80), rng.uniform(-179, 179), rng.uniform(-100, 5000)
            n_ = rng.choice([2, 5, 12])
            arr_ = np.array([[la0 + rng.uniform(-1e-2, 1e-2), lo0 + rng.uniform(-1e-2, 1e-2), al0 + rng.uniform(-50, 50)]
                             for _ in range(n_)])
            for label_kind, idx in (("time stamps", 100.0 + 0.5 * np.arange(n_)), ("decimated", 2 * np.arange(n_) + 3),
                                    ("counting down", np.arange(n_)[::-1]), ("default", None)):
                for cols in (["lat", "lon", "alt"], ["alt", "lat", "lon"]):
                    df = pd.DataFrame(arr_, columns=["lat", "lon", "alt"], index=idx)[cols]
                    for origin in (None, arr_[-1]):
                        want = transform.lla_to_ned(arr_, origin)
                        try:
                            got = transform.lla_to_ned(df, origin)
                            ok = (isinstance(got, pd.DataFrame) and list(got.columns) == ["north", "east", "down"]
                                  and list(got.index) == list(df.index)
                                  and np.abs(got.values - want).max() <= 1e-9 * max(1.0, np.abs(want).max())
                                  and all(np.abs(got.loc[lab].values - want[i]).max() <= 1e-9 * max(1.0, np.abs(want).max())
                                          for i, lab in enumerate(df.index)))
                        except Exception as ex:
                            ok, got = False, repr(ex)
                        if not ok:
                            bad("lla_to_ned: DataFrame form does not give the array form's NED coordinates under the "
                                "input's row labels / documented columns", lla=[float(x) for x in arr_[0]],
                                index=label_kind, columns=cols, origin=(None if origin is None else list(map(float, origin))),
                                rows=arr_.tolist())
    # scalar vs vectorised
    arr = np.array(pts[:50])
    st = transform.lla_to_ecef(arr)
    for i, pnt in enumerate(pts[:50]):
        if np.abs(st[i] - transform.lla_to_ecef(pnt)).max() > 1e-6:
            bad("stacked lla_to_ecef differs from single call", lla=list(pnt))
    bk = transform.ecef_to_lla(st)
    for i in range(len(arr)):
        one = transform.ecef_to_lla(st[i])
        if np.abs(bk[i] - one).max() > 1e-9:
            bad("stacked ecef_to_lla differs from single call", ecef=list(map(float, st[i])))
    mats = transform.mat_en_from_ll(arr[:, 0], arr[:, 1])
    for i in range(len(arr)):
        if np.abs(mats[i] - transform.mat_en_from_ll(arr[i, 0], arr[i, 1])).max() > 1e-14:
            bad("stacked mat_en_from_ll differs from single call", lat=arr[i, 0], lon=arr[i, 1])
    return fails


def check(r):
    r.trusted += [
        "translator tools/sym.py + tools/ir2coq.py (symbolic tracing of earth.py, transform.py, _numba_integrate.gravity)",
        "scipy Rotation.from_euler('ZY') read as Rz(lon)·Ry(-90-lat) (stub validated numerically each run)",
        "binary64 rounding not modelled: theorems are over the reals, decimal literals read as exact rationals, pi/180 read as PI/180",
    ]
    r.trusted += [
        "numpy arcsin / arccos / arctan2 read as Coq asin / acos / Spec.LibSpecs.atan2 (principal branches; the traced "
        "ecef_to_lla is validated against the real function on random inputs each run)",
        "division by zero is total in Coq's reals (x/0 = 0): the polar-axis and equatorial-plane theorems exclude the "
        "origin (z <> 0, (x,y) <> (0,0)) where the code would return NaN",
    ]
    r.assumptions += [
        "ecef_to_lla (Olson): PROVED are the structure of the final step (C16_olson_step_is_newton: for any point and "
        "any guess it is the Newton step p = m / (R_meridian(guess) + f) on the residual of the forward map, altitude "
        "f + m p / 2; C16_olson_newton_step: if the series guess is exact the correction vanishes and the output is the "
        "exact geodetic triple, all four paths), the exact inverse on the equatorial plane and on the polar axis, and the "
        "longitude round trip for every point off the axis; the ACCURACY of the series guess for a general point (hence "
        "the quantitative latitude/altitude round-trip error off those sub-domains) is NOT proved and stays a numerical "
        "support check",
        "C16_lla_to_ned_first_order and C16_curvature_is_frame_rotation are derivative-at-0 statements (is_derive) for "
        "-90 < lat < 90, alt > -6000 km; the size of the second-order remainder is only checked numerically (support)",
    ]
    r.generate(['Earth', 'Transform', 'NumbaIntegrate'])
    r.prove('Props/C16.v')
    n = 150 if r.tier == 'quick' else 5000
    fails = numeric_statements(r, n)
    r.coverage['numeric_support'] = dict(points=n, failures=len(fails))
    for what, rep in fails[:5]:
        r.violation(what, rep)
    if r.tier == 'thorough':
        # Tier B (Interval): accuracy of Olson's series guess on the ellipsoid surface
        r.prove('Props/C16B.v')
        r.hygiene('Props/C16B.v')
        r.hygiene('Props/C16.v')
        r.coqchk('Props/C16.v', norec=False)


def falsify(r):
    fails = numeric_statements(r, 3000)
    for what, rep in fails[:5]:
        r.violation(what, rep)


def replay(obj):
    """Re-run the property's statements on the implementation at the recorded point."""
    import json
    rep = obj.get('replay', obj)
    print("recorded:", obj.get('what'), json.dumps(rep)[:600])
    pt = None
    if isinstance(rep, dict):
        if 'lla' in rep:
            pt = tuple(float(x) for x in rep['lla'][:3])
        elif 'lat' in rep:
            pt = (float(rep['lat']), float(rep.get('lon', 0.0)), float(rep.get('alt', 0.0)))
        elif 'ecef' in rep:
            from pyins import transform
            pt = tuple(float(x) for x in transform.ecef_to_lla(rep['ecef']))
    if pt is None:
        print("no point recorded (proof or translator break): re-run ./check C16")
        return 1 if obj.get('no_failing_input_found') else 0

    class _R:
        seed = 0

        def case(self, *a, **k):
            pass
    fails = numeric_statements(_R(), 0, pts_override=[pt])
    for what, d in fails[:5]:
        print("STILL FAILS:", what, json.dumps(d, default=str)[:400])
    if not fails:
        print("all statements hold at", pt)
    return 1 if fails else 0
