"""C16 — Earth model and geodetic transforms are one coherent ellipsoidal geometry.

Tie: translator (earth.py, transform geodetic functions, numba gravity) -> Gen/*.v;
theorems in Props/C16.v against Spec/Ellipsoid.v.  Numerical statement checks on the
implementation (round trip, finite differences, parity, scalar/stacked) run as support
and as the falsifier; margins are >= 100x above rounding.
"""
import math
import random
import numpy as np

RULE = ("translator: every traced function is validated on 60 random inputs per run (irrun vs real "
        "function); numeric support: random geodetic points incl. poles/equator/+-180 deg/all octants, "
        "altitudes -10 km..40000 km; a case is distinct by its rounded (lat, lon, alt) triple; call histories: every "
        "array-returning function is called, the caller modifies the returned array in place (negate a column / scale / "
        "zero / add), the same query is repeated in scalar and vectorised form and through the functions that use it "
        "internally (lla_to_ned, gravitation_ecef, perturb_lla) - distinct by (kind, point, length)")


def _points(rng, n):
    pts = []
    special_lat = [-90.0, -89.999, -45.0, -1e-9, 0.0, 1e-9, 30.0, 89.999, 90.0]
    special_lon = [-180.0, -179.999, -90.0, 0.0, 1e-9, 90.0, 179.999, 180.0]
    special_alt = [-10000.0, -1.0, 0.0, 100.0, 1e4, 1e5, 4e7]
    for la in special_lat:
        for lo in (rng.choice(special_lon), rng.uniform(-180, 180)):
            pts.append((la, lo, rng.choice(special_alt)))
    while len(pts) < n:
        alt = rng.choice([rng.uniform(-1e4, 1e5), 10 ** rng.uniform(3, 7.6)])
        pts.append((rng.uniform(-90, 90), rng.uniform(-180, 180), alt))
    return pts


def numeric_statements(r, n, pts_override=None):
    """Check the property's own statements on the implementation.  Returns list of
    (what, replay) for failures."""
    from pyins import earth, transform, _numba_integrate as ni
    rng = random.Random(r.seed + 16)
    fails = []

    def bad(what, **kw):
        fails.append((what, dict(kw)))

    pts = pts_override if pts_override is not None else _points(rng, n)
    a, e2 = earth.A, earth.E2
    b2 = a * a * (1 - e2)
    for (lat, lon, alt) in pts:
        r.case(("pt", round(lat, 6), round(lon, 6), round(alt, 3)),
               sample=dict(lat=lat, lon=lon, alt=alt))
        lla = np.array([lat, lon, alt])
        xyz = transform.lla_to_ecef(lla)
        # round trip
        back = transform.ecef_to_lla(xyz)
        dlon = (back[1] - lon + 180) % 360 - 180
        coslat = math.cos(math.radians(lat))
        if abs(back[0] - lat) > 1e-7 or abs(back[2] - alt) > 1e-2 or \
                (coslat > 1e-6 and abs(dlon) > 1e-7 and abs(abs(dlon) - 360) > 1e-7):
            bad("ecef_to_lla(lla_to_ecef(lla)) != lla", lla=list(lla), back=list(map(float, back)))
        # on ellipsoid at alt = 0
        x, y, z = transform.lla_to_ecef([lat, lon, 0.0])
        lev = x * x / (a * a) + y * y / (a * a) + z * z / b2
        if abs(lev - 1) > 1e-9:
            bad("lla_to_ecef(lat,lon,0) not on the WGS-84 ellipsoid", lat=lat, lon=lon, level=lev)
        # frame: orthonormal, det +1, axes = partials of ecef
        m = transform.mat_en_from_ll(lat, lon)
        if np.abs(m.T @ m - np.eye(3)).max() > 1e-12 or abs(np.linalg.det(m) - 1) > 1e-12:
            bad("mat_en_from_ll not a proper rotation", lat=lat, lon=lon)
        if abs(lat) < 89.9 and alt < 1e6:
            rn, re, rp = earth.principal_radii(lat, alt)
            h = 1e-6
            dlat = (transform.lla_to_ecef([lat + h, lon, alt]) - transform.lla_to_ecef([lat - h, lon, alt])) / (2 * h)
            dlo = (transform.lla_to_ecef([lat, lon + h, alt]) - transform.lla_to_ecef([lat, lon - h, alt])) / (2 * h)
            dal = (transform.lla_to_ecef([lat, lon, alt + 1]) - transform.lla_to_ecef([lat, lon, alt - 1])) / 2
            want = [math.radians(1) * rn * m[:, 0], math.radians(1) * rp * m[:, 1], -m[:, 2]]
            for nm, g, w in zip(("lat", "lon", "alt"), (dlat, dlo, dal), want):
                if np.abs(g - w).max() > 1e-4 * max(1.0, np.abs(w).max()):
                    bad(f"d ecef / d {nm} != radius * NED axis", lat=lat, lon=lon, alt=alt,
                        fd=list(map(float, g)), want=list(map(float, w)))
            # perturb / difference / local NED first-order agreement
            d = np.array([rng.uniform(-5, 5), rng.uniform(-5, 5), rng.uniform(-5, 5)])
            p = transform.perturb_lla(lla, d)
            dd = transform.compute_lla_difference(p, lla)
            nn = transform.lla_to_ned(np.array([p]), lla)[0]
            # first order: the neglected terms are O(|d|^2 (1 + |tan lat|) / R); margin 20x
            tol1 = 1e-6 + 20 * float(d @ d) * (1 + abs(math.tan(math.radians(lat)))) / 6.3e6
            if np.abs(dd - d).max() > tol1 or np.abs(nn - d).max() > tol1:
                bad("perturb_lla / compute_lla_difference / lla_to_ned disagree to first order",
                    lla=list(lla), d=list(d), diff=list(map(float, dd)), ned=list(map(float, nn)))
            # curvature matrix vs rotation of the frame under displacement (north / east)
            F = earth.curvature_matrix(lat, alt)
            for k in range(2):
                s = 1.0
                e = np.zeros(3)
                e[k] = s
                p2 = transform.perturb_lla(lla, e)
                m2 = transform.mat_en_from_ll(p2[0], p2[1])
                dm = (m.T @ m2 - np.eye(3)) / s      # = skew(rotation of new frame in old)
                rot = np.array([dm[2, 1], dm[0, 2], dm[1, 0]])
                tl = abs(math.tan(math.radians(lat)))
                if np.abs(rot - F @ e).max() > 1e-12 + 20 * (1 + tl * tl) * s * s / 6.3e6 ** 2:
                    bad("curvature_matrix != rotation of NED frame under displacement",
                        lla=list(lla), axis=k, rot=list(map(float, rot)), want=list(map(float, F @ e)))
        if -1000 <= alt <= 1e5:
            g = float(earth.gravity(lat, alt))
            if abs(float(ni.gravity(lat, alt)) - g) > 1e-12:
                bad("compiled gravity copy differs from earth.gravity", lat=lat, alt=alt)
            gn = earth.gravity_n(lat, alt)
            if gn[0] != 0 or gn[1] != 0 or gn[2] != g:
                bad("gravity_n != (0,0,gravity)", lat=lat, alt=alt)
            if abs(float(earth.gravity(-lat, alt)) - g) > 1e-12:
                bad("gravity not even in latitude", lat=lat, alt=alt)
            g0 = earth.gravitation_ecef(lla)
            want = m @ gn - earth.RATE ** 2 * np.array([xyz[0], xyz[1], 0.0])
            if np.abs(g0 - want).max() > 1e-9:
                bad("gravitation_ecef != gravity - centrifugal", lla=list(lla))
        w = earth.rate_n(lat)
        w2 = earth.rate_n(-lat)
        if abs(w2[0] - w[0]) > 1e-18 or w2[1] != 0 or abs(w2[2] + w[2]) > 1e-18:
            bad("rate_n parity", lat=lat)
        if np.abs(w - m.T @ np.array([0, 0, earth.RATE])).max() > 1e-18:
            bad("rate_n != mat_en^T (0,0,RATE)", lat=lat, lon=lon)
        xm = transform.lla_to_ecef([-lat, lon, alt])
        if abs(xm[0] - xyz[0]) > 1e-6 or abs(xm[1] - xyz[1]) > 1e-6 or abs(xm[2] + xyz[2]) > 1e-6:
            bad("lla_to_ecef parity in latitude", lla=list(lla))
    # mixed argument forms: scalar latitude with a vector of altitudes and vice versa must equal the element-wise
    # scalar calls (every function of (lat, alt) in earth.py broadcasts its two arguments)
    if pts_override is None:
        for k in range(6):
            lat_s = rng.choice([rng.uniform(-90, 90), 45.0, -33.0])
            alts = np.array([rng.uniform(-1000, 1e5) for _ in range(rng.choice([2, 3, 5]))])
            lats = np.array([rng.uniform(-89, 89) for _ in range(len(alts))])
            alt_s = rng.uniform(-1000, 1e5)
            forms = [("scalar lat, vector alt", lat_s, alts, [(lat_s, a) for a in alts]),
                     ("vector lat, scalar alt", lats, alt_s, [(la, alt_s) for la in lats]),
                     ("vector lat, vector alt", lats, alts, list(zip(lats, alts)))]
            for fname, fn in (("gravity", earth.gravity), ("gravity_n", earth.gravity_n),
                              ("principal_radii", lambda a, b: np.array(earth.principal_radii(a, b)).T),
                              ("curvature_matrix", earth.curvature_matrix)):
                for form, a1, a2, pairs in forms:
                    try:
                        got = np.asarray(fn(a1, a2), dtype=float)
                        want = np.array([np.asarray(fn(float(x), float(y)), dtype=float) for x, y in pairs])
                        ok = got.shape == want.shape and np.abs(got - want).max() <= 1e-9 * max(1.0, np.abs(want).max())
                    except Exception as ex:          # a documented broadcastable form must not raise
                        ok, got = False, repr(ex)
                    if not ok:
                        bad(f"earth.{fname}: {form} differs from the element-wise scalar calls",
                            lat=(float(np.ravel(a1)[0])), alt=float(np.ravel(a2)[0]), form=form, function=fname,
                            lats=np.ravel(a1).tolist(), alts=np.ravel(a2).tolist(),
                            got=(np.asarray(got).tolist() if not isinstance(got, str) else got))
    # table form of lla_to_ned: same numbers as the array form, carried by the SAME row labels and the documented
    # columns, whatever the index (time stamps, decimated or reversed integer labels) and column order of the input
    if pts_override is None:
        import pandas as pd
        near = []
        for k in range(3):
            la0, lo0, al0 = rng.uniform(-80, 80), rng.uniform(-179, 179), rng.uniform(-100, 5000)
            n_ = rng.choice([2, 5, 12])
            arr_ = np.array([[la0 + rng.uniform(-1e-2, 1e-2), lo0 + rng.uniform(-1e-2, 1e-2), al0 + rng.uniform(-50, 50)]
                             for _ in range(n_)])
            for label_kind, idx in (("time stamps", 100.0 + 0.5 * np.arange(n_)), ("decimated", 2 * np.arange(n_) + 3),
                                    ("counting down", np.arange(n_)[::-1]), ("default", None)):
                for cols in (["lat", "lon", "alt"], ["alt", "lat", "lon"]):
                    df = pd.DataFrame(arr_, columns=["lat", "lon", "alt"], index=idx)[cols]
                    for origin in (None, arr_[-1]):
                        want = transform.lla_to_ned(arr_, origin)
                        try:
                            got = transform.lla_to_ned(df, origin)
                            ok = (isinstance(got, pd.DataFrame) and list(got.columns) == ["north", "east", "down"]
                                  and list(got.index) == list(df.index)
                                  and np.abs(got.values - want).max() <= 1e-9 * max(1.0, np.abs(want).max())
                                  and all(np.abs(got.loc[lab].values - want[i]).max() <= 1e-9 * max(1.0, np.abs(want).max())
                                          for i, lab in enumerate(df.index)))
                        except Exception as ex:
                            ok, got = False, repr(ex)
                        if not ok:
                            bad("lla_to_ned: DataFrame form does not give the array form's NED coordinates under the "
                                "input's row labels / documented columns", lla=[float(x) for x in arr_[0]],
                                index=label_kind, columns=cols, origin=(None if origin is None else list(map(float, origin))),
                                rows=arr_.tolist())
    # scalar vs vectorised
    arr = np.array(pts[:50])
    st = transform.lla_to_ecef(arr)
    for i, pnt in enumerate(pts[:50]):
        if np.abs(st[i] - transform.lla_to_ecef(pnt)).max() > 1e-6:
            bad("stacked lla_to_ecef differs from single call", lla=list(pnt))
    bk = transform.ecef_to_lla(st)
    for i in range(len(arr)):
        one = transform.ecef_to_lla(st[i])
        if np.abs(bk[i] - one).max() > 1e-9:
            bad("stacked ecef_to_lla differs from single call", ecef=list(map(float, st[i])))
    mats = transform.mat_en_from_ll(arr[:, 0], arr[:, 1])
    for i in range(len(arr)):
        if np.abs(mats[i] - transform.mat_en_from_ll(arr[i, 0], arr[i, 1])).max() > 1e-14:
            bad("stacked mat_en_from_ll differs from single call", lat=arr[i, 0], lon=arr[i, 1])
    return fails


# ---------------------------------------------------------------------------------------------------------------
# Call HISTORIES.  The property is about pure functions of (lat, lon, alt): whatever a caller did before - in
# particular writing into an array an earlier call returned - every later result must still be the model value
# (closed forms below = Spec/Ellipsoid.v and the characterising theorems of Props/C16.v, with the model's literals),
# a result must not share memory with an earlier result, and array arguments must come back unchanged.
# A history is a json-able list of ops:  ["call", name, [args...]]  |  ["mutate", k, kind, j]  (k = index of an earlier
# call in the history whose returned object is modified in place by the caller).
_MA, _ME2, _MRATE, _MGE, _MFG = 6378137.0, 66943799901413 / 1e16, 1458423 / 2e10, 97803253359 / 1e10, \
    3863705292792563 / 2e18


def _m_radii(lat, alt):
    s = math.sin(math.radians(lat))
    w = 1 - _ME2 * s * s
    re = _MA / math.sqrt(w)
    return re * (1 - _ME2) / w + alt, re + alt, (re + alt) * math.cos(math.radians(lat))


def _m_mat_en(lat, lon):
    sp, cp = math.sin(math.radians(lat)), math.cos(math.radians(lat))
    sl, cl = math.sin(math.radians(lon)), math.cos(math.radians(lon))
    return np.array([[-sp * cl, -sl, -cp * cl], [-sp * sl, cl, -cp * sl], [cp, 0.0, -sp]])


def _m_ecef(lat, lon, alt):
    _, re, rp = _m_radii(lat, alt)
    return np.array([rp * math.cos(math.radians(lon)), rp * math.sin(math.radians(lon)),
                     ((1 - _ME2) * (re - alt) + alt) * math.sin(math.radians(lat))])


def _m_gravity(lat, alt):
    s2 = math.sin(math.radians(lat)) ** 2
    return _MGE * (1 + _MFG * s2) / math.sqrt(1 - _ME2 * s2) * (1 - 2 * alt / _MA)


def _model(name, a):
    base = name.split('[')[0]
    if base == 'mat_en_from_ll':
        return _m_mat_en(a[0], a[1])
    if base == 'curvature_matrix':
        rn, re, _ = _m_radii(a[0], a[1])
        F = np.zeros((3, 3))
        F[0, 1], F[1, 0], F[2, 1] = 1 / re, -1 / rn, -math.tan(math.radians(a[0])) / re
        return F
    if base == 'gravity_n':
        return np.array([0.0, 0.0, _m_gravity(a[0], a[1])])
    if base == 'rate_n':
        return np.array([_MRATE * math.cos(math.radians(a[0])), 0.0, -_MRATE * math.sin(math.radians(a[0]))])
    if base == 'principal_radii':
        return np.array(_m_radii(a[0], a[1]))
    if base == 'lla_to_ecef':
        return _m_ecef(*a)
    if base == 'ecef_to_lla':
        return np.array(a, dtype=float)
    if base == 'lla_to_ned':
        return _m_mat_en(a[3], a[4]).T @ (_m_ecef(*a[:3]) - _m_ecef(*a[3:]))
    if base == 'perturb_lla':
        rn, _, rp = _m_radii(a[0], a[2])
        return np.array([a[0] + math.degrees(a[3] / rn), a[1] + math.degrees(a[4] / rp), a[2] - a[5]])
    if base == 'gravitation_ecef':
        _, _, rp = _m_radii(a[0], a[2])
        sp, cp = math.sin(math.radians(a[0])), math.cos(math.radians(a[0]))
        return _m_mat_en(a[0], a[1]) @ np.array([_MRATE ** 2 * rp * sp, 0.0, _m_gravity(a[0], a[2]) + _MRATE ** 2 * rp * cp])
    raise KeyError(name)


# absolute tolerance per output (>= 1000x the rounding of the quantity), relative 1e-9
_HTOL = {'mat_en_from_ll': 1e-12, 'curvature_matrix': 1e-19, 'gravity_n': 1e-11, 'rate_n': 1e-19, 'principal_radii': 1e-5,
         'lla_to_ecef': 1e-5, 'ecef_to_lla': np.array([1e-7, 1e-7, 1e-2]), 'lla_to_ned': 1e-5,
         'perturb_lla': np.array([1e-10, 1e-10, 1e-8]), 'gravitation_ecef': 1e-10}


def _impl(name, a):
    """returns (raw result, list of (argument array, its copy before the call))"""
    from pyins import earth, transform
    base, vec = name.split('[')[0], name.endswith('[vec]')
    arrs = []

    def A(x):
        v = np.array(x, dtype=float)
        arrs.append((v, v.copy()))
        return v
    if base in ('mat_en_from_ll', 'curvature_matrix', 'gravity_n', 'principal_radii'):
        fn = getattr(transform if base == 'mat_en_from_ll' else earth, base)
        if vec:
            out = fn(A([a[0]]), A([a[1]]))
            return (tuple(o for o in out) if isinstance(out, tuple) else out), arrs
        return fn(a[0], a[1]), arrs
    if base == 'rate_n':
        return (earth.rate_n(A([a[0]])) if vec else earth.rate_n(a[0])), arrs
    if base == 'lla_to_ecef':
        return (transform.lla_to_ecef(A([list(a)])) if vec else transform.lla_to_ecef(A(list(a)))), arrs
    if base == 'ecef_to_lla':
        return transform.ecef_to_lla(A(_m_ecef(*a))), arrs
    if base == 'lla_to_ned':
        return transform.lla_to_ned(A([list(a[:3])]), A(list(a[3:]))), arrs
    if base == 'perturb_lla':
        return transform.perturb_lla(A(list(a[:3])), A(list(a[3:]))), arrs
    if base == 'gravitation_ecef':
        return earth.gravitation_ecef(A(list(a))), arrs
    raise KeyError(name)


def _members(raw):
    return [x for x in (raw if isinstance(raw, tuple) else (raw,)) if isinstance(x, np.ndarray)]


def _value(name, raw):
    if isinstance(raw, tuple):
        v = np.array([float(np.ravel(x)[0]) for x in raw])
    else:
        v = np.asarray(raw, dtype=float)
        want_nd = 2 if name.split('[')[0] in ('mat_en_from_ll', 'curvature_matrix') else 1
        while v.ndim > want_nd:
            v = v[0]
    return v


def _mutate(raw, kind, j):
    for x in _members(raw):
        if not x.flags.writeable:
            continue
        if kind == 'negate':
            if x.ndim == 0:
                x[...] = -x
            else:
                x[..., j % x.shape[-1]] *= -1
        elif kind == 'scale':
            x *= 1e-3
        elif kind == 'zero':
            x[...] = 0
        else:
            x += 1.0


def run_history(ops):
    """Execute a history on the implementation; returns (failures, log).  A failure is (what, step index, detail)."""
    raws, fails, log = {}, [], []
    for i, op in enumerate(ops):
        if op[0] == 'mutate':
            _mutate(raws[op[1]], op[2], op[3])
            log.append(f"{i}: caller modifies the result of step {op[1]} in place ({op[2]})")
            continue
        _, name, a = op
        base = name.split('[')[0]
        try:
            raw, arrs = _impl(name, a)
            got = _value(name, raw)
        except Exception as ex:
            fails.append((f"{base}: call raises after an earlier result was modified by its caller", i, repr(ex)))
            log.append(f"{i}: {name}{tuple(a)} raised {ex!r}")
            continue
        want = _model(name, a)
        tol = _HTOL[base] + 1e-9 * np.abs(want)
        ok = got.shape == want.shape and bool(np.all(np.isfinite(got))) and bool(np.all(np.abs(got - want) <= tol))
        if base == 'ecef_to_lla' and got.shape == want.shape:       # longitude is defined modulo 360
            d = got - want
            d[1] = (d[1] + 180) % 360 - 180
            ok = bool(np.all(np.isfinite(got))) and bool(np.all(np.abs(d) <= tol))
        log.append(f"{i}: {name}{tuple(a)} -> {np.ravel(got).tolist()}" + ("" if ok else f"   MODEL {np.ravel(want).tolist()}"))
        if not ok:
            fails.append((f"{base}: result depends on the history of calls (differs from the closed form after a caller "
                          f"modified an earlier result in place)" if any(o[0] == 'mutate' for o in ops[:i])
                          else f"{base}: result differs from the closed form", i,
                          dict(got=np.ravel(got).tolist(), want=np.ravel(want).tolist())))
        for k, old in raws.items():
            if any(np.shares_memory(x, y) for x in _members(raw) for y in _members(old)):
                fails.append((f"{base}: returned array shares memory with the array returned by an earlier call "
                              f"(step {k}: {ops[k][1]})", i, dict(earlier_step=k)))
                break
        for v, v0 in arrs:
            if not np.array_equal(v, v0):
                fails.append((f"{base}: the call modified its array argument", i, dict(before=v0.tolist(), after=v.tolist())))
        raws[i] = raw
    return fails, log


def _histories(rng, n):
    kinds = ['negate', 'scale', 'zero', 'add']
    out = []
    for k in range(n):
        lat = rng.choice([0.0, 45.0, -45.0, float(rng.randint(-80, 80)), rng.uniform(-89, 89)]) if k % 3 == 0 \
            else rng.uniform(-89, 89)
        lon = rng.choice([0.0, 180.0, -90.0, rng.uniform(-180, 180)]) if k % 4 == 0 else rng.uniform(-180, 180)
        alt = rng.uniform(-1e3, 1e5)
        d = [rng.uniform(-50, 50) for _ in range(3)]
        p = list(_model('perturb_lla', [lat, lon, alt] + d))
        mk = lambda: ['mutate', None, rng.choice(kinds), rng.randrange(3)]

        def hist(calls):
            """calls: names (with args); after the first call of each name its result is modified, then it is repeated"""
            ops = []
            for name, a in calls:
                ops.append(['call', name, a])
                m = mk()
                m[1] = len(ops) - 1
                ops.append(m)
                ops.append(['call', name, a])
            return ops
        frame = hist([('mat_en_from_ll', [lat, lon])]) + [
            ['call', 'mat_en_from_ll[vec]', [lat, lon]],
            ['call', 'lla_to_ned', p + [lat, lon, alt]],
            ['call', 'gravitation_ecef', [lat, lon, alt]]] + \
            hist([('lla_to_ned', p + [lat, lon, alt]), ('gravitation_ecef', [lat, lon, alt]),
                  ('mat_en_from_ll[vec]', [lat, lon])]) + [['call', 'mat_en_from_ll', [lat, lon]]]
        earth_h = hist([('curvature_matrix', [lat, alt]), ('gravity_n', [lat, alt]), ('rate_n', [lat]),
                        ('principal_radii', [lat, alt]), ('curvature_matrix[vec]', [lat, alt]),
                        ('gravity_n[vec]', [lat, alt]), ('rate_n[vec]', [lat]), ('principal_radii[vec]', [lat, alt])]) + [
            ['call', 'curvature_matrix', [lat, alt]], ['call', 'gravity_n', [lat, alt]], ['call', 'rate_n', [lat]]]
        geo = hist([('lla_to_ecef', [lat, lon, alt]), ('perturb_lla', [lat, lon, alt] + d),
                    ('ecef_to_lla', [lat, lon, alt]), ('lla_to_ecef[vec]', [lat, lon, alt])])
        out += [('frame', frame), ('earth', earth_h), ('geodetic', geo)]
    return out


def history_statements(r, n):
    rng = random.Random(r.seed + 1616)
    fails, dist = [], {}
    for kind, ops in _histories(rng, n):
        first = ops[0][2]
        r.case(("hist", kind, round(first[0], 6), round(first[-1], 6), len(ops)),
               sample=dict(kind=kind, history=ops[:4]))
        dist[kind] = dist.get(kind, 0) + 1
        fl, _ = run_history(ops)
        if fl:
            what, step, detail = fl[0]
            # shortest prefix that still fails makes the replay easy to read
            fails.append((what, dict(history=ops[:step + 1], failing_step=step, detail=detail)))
    return fails, dist


def check(r):
    r.trusted += [
        "translator tools/sym.py + tools/ir2coq.py (symbolic tracing of earth.py, transform.py, _numba_integrate.gravity)",
        "scipy Rotation.from_euler('ZY') read as Rz(lon)·Ry(-90-lat) (stub validated numerically each run)",
        "binary64 rounding not modelled: theorems are over the reals, decimal literals read as exact rationals, pi/180 read as PI/180",
    ]
    r.trusted += [
        "numpy arcsin / arccos / arctan2 read as Coq asin / acos / Spec.LibSpecs.atan2 (principal branches; the traced "
        "ecef_to_lla is validated against the real function on random inputs each run)",
        "division by zero is total in Coq's reals (x/0 = 0): the polar-axis and equatorial-plane theorems exclude the "
        "origin (z <> 0, (x,y) <> (0,0)) where the code would return NaN",
    ]
    r.assumptions += [
        "ecef_to_lla (Olson): PROVED are the structure of the final step (C16_olson_step_is_newton: for any point and "
        "any guess it is the Newton step p = m / (R_meridian(guess) + f) on the residual of the forward map, altitude "
        "f + m p / 2; C16_olson_newton_step: if the series guess is exact the correction vanishes and the output is the "
        "exact geodetic triple, all four paths), the exact inverse on the equatorial plane and on the polar axis, and the "
        "longitude round trip for every point off the axis; the ACCURACY of the series guess for a general point (hence "
        "the quantitative latitude/altitude round-trip error off those sub-domains) is NOT proved and stays a numerical "
        "support check",
        "C16_lla_to_ned_first_order and C16_curvature_is_frame_rotation are derivative-at-0 statements (is_derive) for "
        "-90 < lat < 90, alt > -6000 km; the size of the second-order remainder is only checked numerically (support)",
    ]
    r.generate(['Earth', 'Transform', 'NumbaIntegrate'])
    r.prove('Props/C16.v')
    n = 150 if r.tier == 'quick' else 5000
    fails = numeric_statements(r, n)
    r.coverage['numeric_support'] = dict(points=n, failures=len(fails))
    for what, rep in fails[:5]:
        r.violation(what, rep)
    hfails, hdist = history_statements(r, 60 if r.tier == 'quick' else 1500)
    r.coverage['call_histories'] = dict(histories=hdist, failures=len(hfails),
                                        note="result modified in place by the caller, then the query is repeated "
                                             "(scalar, vectorised, dependent functions); model value, no shared memory, "
                                             "arguments unchanged")
    for what, rep in hfails[:3]:
        r.violation(what, rep)
    if r.tier == 'thorough':
        # Tier B (Interval): accuracy of Olson's series guess on the ellipsoid surface
        r.prove('Props/C16B.v')
        r.hygiene('Props/C16B.v')
        r.hygiene('Props/C16.v')
        r.coqchk('Props/C16.v', norec=False)


def falsify(r):
    fails = numeric_statements(r, 3000)
    for what, rep in fails[:5]:
        r.violation(what, rep)
    if not r.violations:
        hfails, _ = history_statements(r, 100)
        for what, rep in hfails[:3]:
            r.violation(what, rep)


def replay(obj):
    """Re-run the property's statements on the implementation at the recorded point."""
    import json
    rep = obj.get('replay', obj)
    print("recorded:", obj.get('what'), json.dumps(rep)[:600])
    pt = None
    if isinstance(rep, dict) and 'history' in rep:
        fl, log = run_history(rep['history'])
        print("\n".join(log))
        for what, step, d in fl[:5]:
            print(f"STILL FAILS at step {step}:", what, json.dumps(d, default=str)[:400])
        if not fl:
            print("every result of the history equals the model value; no shared memory; arguments unchanged")
        return 1 if fl else 0
    if isinstance(rep, dict):
        if 'lla' in rep:
            pt = tuple(float(x) for x in rep['lla'][:3])
        elif 'lat' in rep:
            pt = (float(rep['lat']), float(rep.get('lon', 0.0)), float(rep.get('alt', 0.0)))
        elif 'ecef' in rep:
            from pyins import transform
            pt = tuple(float(x) for x in transform.ecef_to_lla(rep['ecef']))
    if pt is None:
        print("no point recorded (proof or translator break): re-run ./check C16")
        return 1 if obj.get('no_failing_input_found') else 0

    class _R:
        seed = 0

        def case(self, *a, **k):
            pass
    fails = numeric_statements(_R(), 0, pts_override=[pt])
    for what, d in fails[:5]:
        print("STILL FAILS:", what, json.dumps(d, default=str)[:400])
    if not fails:
        print("all statements hold at", pt)
    return 1 if fails else 0
