"""C01 — Strapdown integration converges to the true navigation solution.

Tie: translator (_numba_integrate.integrate -> Gen/NumbaIntegrate.v step3d_*, mat_from_rotvec, nb_gravity;
strapdown.compute_increments_from_imu -> Gen/C01Gen.v inc_rate_*, inc_incr_*, registry tools/reg/c01.py);
theorems in Props/C01.v against the hand-written hub specification Spec/NavODE.v.

Numerical support on the IMPLEMENTATION (also the falsifier):
  * finite-difference consistency of the real compiled kernel against an independent Python
    transcription of Spec/NavODE.v at random states (one step, tiny dt, Richardson-extrapolated);
  * halving test: smooth sum-of-sinusoid body rates / specific forces, rate- and increment-type
    samples -> strapdown.compute_increments_from_imu -> strapdown.Integrator at h, h/2, h/4, compared
    with a DOP853 solution (rtol 1e-12) of the transcription of Spec/NavODE.v.
Margins: the kernel is second order (error ratios ~4 under halving, err/|x(h)-x(h/2)| ~ 4/3);
because the Coriolis term is evaluated at the old velocity there is also a small genuinely first-order
velocity/position term, ratios -> 2 for very small h); a violation needs all three error ratios
err(h/2^k)/err(h/2^(k+1)) < 1.3 over three halvings, or err > 10 |x(h) - x(h/2)| at two consecutive
levels, with err at least 1000x above rounding.
"""
import math
import random
import numpy as np

RULE = ("translator: the kernel trace is validated on random inputs each run; numeric support: "
        "random states |lat|<=85 deg, any lon, alt -500..20000 m, speed<=300 m/s, any attitude; "
        "3-axis sum-of-sinusoid signals up to ~3 rad/s and ~2 g; both sensor types; h in 4..40 ms (decimal, dyadic, "
        "1/75..1/300 s, multiples of 100 ns, random floats) halved three times, horizons 2 s .. 10 min; IMU tables "
        "with time axes starting at 0 / GPS-like seconds / jittered, checked row by row against the per-row formulas; "
        "2-3 Integrator objects alive together and advanced alternately; a case is distinct by (kind, seed, index)")

# ---- constants of Base/RealTac.v (NOT imported from pyins, so that the oracle is independent)
A_ = 6378137.0
E2_ = 6.6943799901413e-3
RATE_ = 7.292115e-5
GE_ = 9.7803253359
FG_ = 0.0019318526463962815      # 3863705292792563 / 2e18
D2R = math.pi / 180.0
R2D = 180.0 / math.pi


# ---- independent transcription of Spec/NavODE.v -------------------------------------------
def nav_radii(lat):
    s = math.sin(lat * D2R)
    w2 = 1.0 - E2_ * (s * s)
    rn = A_ * (1.0 - E2_) / (w2 * math.sqrt(w2))      # R_meridian
    re = A_ / math.sqrt(w2)                           # R_transverse
    return rn, re


def normal_gravity(phi, h):
    s = math.sin(phi)
    return GE_ * (1.0 + FG_ * (s * s)) / math.sqrt(1.0 - E2_ * (s * s)) * (1.0 - 2.0 * h / A_)


def skew(a):
    return np.array([[0.0, -a[2], a[1]], [a[2], 0.0, -a[0]], [-a[1], a[0], 0.0]])


def nav_rhs(y, w, f):
    """y = (lat, lon, alt, VN, VE, VD, C00..C22); w, f body-frame rate / specific force."""
    lat, lon, alt, VN, VE, VD = y[:6]
    C = np.asarray(y[6:15]).reshape(3, 3)
    phi = lat * D2R
    rn, re = nav_radii(lat)
    Om = np.array([RATE_ * math.cos(phi), 0.0, -RATE_ * math.sin(phi)])
    rho = np.array([VE / (re + alt), -VN / (rn + alt), -VE * math.tan(phi) / (re + alt)])
    v = np.array([VN, VE, VD])
    out = np.empty(15)
    out[0] = R2D * (VN / (rn + alt))
    out[1] = R2D * (VE / ((re + alt) * math.cos(phi)))
    out[2] = -VD
    out[3:6] = C @ f + np.array([0.0, 0.0, normal_gravity(phi, alt)]) - np.cross(2.0 * Om + rho, v)
    out[6:15] = (C @ skew(w) - skew(Om + rho) @ C).ravel()
    return out


# ---- signals: sums of sinusoids with closed-form integrals --------------------------------
class Signal:
    """x_k(t) = c_k + sum_j a_kj sin(om_kj t + p_kj), k = 0..2"""

    def __init__(self, c, a, om, p):
        self.c = np.asarray(c, float)
        self.a = np.asarray(a, float)
        self.om = np.asarray(om, float)
        self.p = np.asarray(p, float)

    def __call__(self, t):
        return self.c + (self.a * np.sin(self.om * t + self.p)).sum(axis=1)

    def values(self, t):
        t = np.asarray(t, float)
        return self.c[None, :] + (self.a[None] * np.sin(self.om[None] * t[:, None, None] + self.p[None])).sum(axis=2)

    def prim(self, t):
        t = np.asarray(t, float)
        return (self.c[None, :] * t[:, None]
                - (self.a[None] / self.om[None] * np.cos(self.om[None] * t[:, None, None] + self.p[None])).sum(axis=2))

    def to_json(self):
        return dict(c=self.c.tolist(), a=self.a.tolist(), om=self.om.tolist(), p=self.p.tolist())

    @staticmethod
    def from_json(o):
        return Signal(o['c'], o['a'], o['om'], o['p'])


def draw_interval(rng, cls):
    """A sampling interval in about 4..40 ms.  Real loggers are not decimal-round: binary dividers (1/128 s),
    rates like 75 / 150 / 300 Hz, 100 ns clock ticks, or simply measured floats."""
    if cls == 0:
        return rng.choice([0.04, 0.02, 0.01, 0.005])
    if cls == 1:
        return rng.choice([1 / 32, 1 / 64, 1 / 128, 1 / 256, 3 / 256, 5 / 512])
    if cls == 2:
        return rng.choice([1 / 75, 1 / 150, 1 / 300, 1 / 30, rng.randint(40000, 400000) * 1e-7])
    return rng.uniform(0.004, 0.04)


def make_case(rng, kind, long=False, hcls=0):
    """A random trajectory case inside the property's domain."""
    lat = rng.choice([rng.uniform(-85, 85), rng.uniform(-85, -60), rng.uniform(60, 85), rng.uniform(-5, 5)])
    lon = rng.uniform(-180, 180)
    alt = rng.choice([rng.uniform(-500, 20000), rng.uniform(15000, 20000), rng.uniform(-500, 100)])
    speed = rng.choice([rng.uniform(0, 300), rng.uniform(250, 300)])
    d = np.array([rng.gauss(0, 1), rng.gauss(0, 1), 0.3 * rng.gauss(0, 1)])
    v = speed * d / np.linalg.norm(d)
    rph = [rng.uniform(-180, 180), rng.uniform(-85, 85), rng.uniform(-180, 180)]
    nj = 2
    fmax = 2 * math.pi * 0.8                               # <= 0.8 Hz
    wa = [[rng.uniform(-1, 1) for _ in range(nj)] for _ in range(3)]
    scale = rng.uniform(0.3, 3.0) / max(1e-9, max(sum(abs(x) for x in row) for row in wa))
    wsig = Signal([rng.uniform(-0.2, 0.2) for _ in range(3)],
                  [[x * scale * 0.9 for x in row] for row in wa],
                  [[rng.uniform(0.5, fmax) for _ in range(nj)] for _ in range(3)],
                  [[rng.uniform(0, 2 * math.pi) for _ in range(nj)] for _ in range(3)])
    fa = [[rng.uniform(-1, 1) for _ in range(nj)] for _ in range(3)]
    fscale = rng.uniform(1.0, 10.0) / max(1e-9, max(sum(abs(x) for x in row) for row in fa))
    fsig = Signal([rng.uniform(-9.8, 9.8) for _ in range(3)],
                  [[x * fscale for x in row] for row in fa],
                  [[rng.uniform(0.5, fmax) for _ in range(nj)] for _ in range(3)],
                  [[rng.uniform(0, 2 * math.pi) for _ in range(nj)] for _ in range(3)])
    h = draw_interval(rng, hcls)
    T = rng.choice([2.0, 4.0]) if not long else rng.choice([30.0, 120.0])
    case = dict(kind=kind, lla=[lat, lon, alt], v=v.tolist(), rph=rph, w=wsig.to_json(), f=fsig.to_json(),
                h=h, T=T)
    if long == 'gentle':
        # ten minutes (about one time constant of the unstable vertical channel; a full Schuler period with free
        # altitude leaves the domain by e^9): gently wobbling vehicle, specific force = reaction to gravity in the
        # initial attitude plus zero-mean oscillations, so that speed and altitude stay inside the domain
        from pyins import transform
        C0 = transform.mat_from_rph(rph)
        g0 = normal_gravity(lat * D2R, alt)
        wsig = Signal([0.0, 0.0, 0.0], [[0.02 * x for x in row] for row in wa], wsig.om, wsig.p)
        fsig = Signal((C0.T @ np.array([0.0, 0.0, -g0])).tolist(), [[0.05 * x for x in row] for row in fa],
                      fsig.om, fsig.p)
        v = 30.0 * d / np.linalg.norm(d)
        case.update(v=v.tolist(), w=wsig.to_json(), f=fsig.to_json(), h=0.04, T=600.0, floor_scale=100.0)
    return case


# ---- running the implementation -------------------------------------------------------------
def run_impl(case, h):
    """Integrate with the library at sampling interval h; returns (times, states[n,15])."""
    import pandas as pd
    from pyins import strapdown
    from pyins.util import GYRO_COLS, ACCEL_COLS, LLA_COLS, VEL_COLS, RPH_COLS
    wsig, fsig = Signal.from_json(case['w']), Signal.from_json(case['f'])
    n = int(math.floor(case['T'] / case['h'] + 1e-9)) * int(round(case['h'] / h))   # whole coarse intervals
    t = np.arange(0, n + 1) * h
    if case['kind'] == 'rate':
        gyro, accel = wsig.values(t), fsig.values(t)
    else:
        tp = t - h                                            # sample k = integral over [t_k - h, t_k]
        gyro, accel = wsig.prim(t) - wsig.prim(tp), fsig.prim(t) - fsig.prim(tp)
    imu = pd.DataFrame(np.hstack([gyro, accel]), index=pd.Index(t, name='time'), columns=GYRO_COLS + ACCEL_COLS)
    form = case.get('form', '')
    if 'imucols' in form:
        # the same labelled table in a logger's layout: an extra leading column, accelerometer channels first
        imu = imu.assign(temperature=21.5)[['temperature'] + ACCEL_COLS + GYRO_COLS]
    inc = strapdown.compute_increments_from_imu(imu, case['kind'])
    if 'inccols' in form:
        inc = inc[['theta_x', 'theta_y', 'theta_z', 'dv_x', 'dv_y', 'dv_z', 'dt']]
    vals = list(case['lla']) + list(case['v']) + list(case['rph'])
    if 'intpva' in form:
        # an initial state given in whole numbers is stored by pandas as int64; it is the same state
        assert all(float(x).is_integer() for x in vals)
        vals = [int(x) for x in vals]
    pva = pd.Series(vals, index=LLA_COLS + VEL_COLS + RPH_COLS, name=0.0)
    integ = strapdown.Integrator(pva)
    # the increments are integrated in consecutive calls (uneven chunks, fixed by the case): the solution must
    # not depend on the call history (C02), and a defect that only shows on later calls is exercised here too
    cuts = [int(len(inc) * q) for q in case.get('chunks', [0.4, 0.75])]
    prev = 0
    if case.get('stepwise'):
        # per-epoch use: look ahead with predict(), then integrate the same increment (every epoch)
        cuts = list(range(1, len(inc)))
    for c in cuts + [len(inc)]:
        if prev < len(inc):
            integ.predict(inc.iloc[prev])      # look-ahead of the next increment: must change nothing
        integ.integrate(inc.iloc[prev:c])
        prev = c
    m = n + 1
    st = np.hstack([integ.lla[:m], integ.velocity_n[:m], integ.mat_nb[:m].reshape(m, 9)])
    return t, st


def reference(case, times, y0):
    from scipy.integrate import solve_ivp
    wsig, fsig = Signal.from_json(case['w']), Signal.from_json(case['f'])
    y0 = np.asarray(y0, float)
    # integrate the offset z = y - y0, so that the tolerance is not relative to |lat| ~ 45 deg (= 5e6 m)
    sol = solve_ivp(lambda t, z: nav_rhs(y0 + z, wsig(t), fsig(t)), (0.0, float(times[-1])), np.zeros(15),
                    method='DOP853', rtol=1e-12, atol=1e-13, t_eval=times, first_step=1e-4)
    if not sol.success:
        raise RuntimeError("reference integration failed: " + sol.message)
    return y0[None, :] + sol.y.T


def group_errors(a, b, lat0, alt0):
    """max over time of (position m, velocity m/s, attitude rad) distance between state arrays."""
    rn, re = nav_radii(lat0)
    dn = (a[:, 0] - b[:, 0]) * D2R * (rn + alt0)
    de = (a[:, 1] - b[:, 1]) * D2R * (re + alt0) * math.cos(lat0 * D2R)
    dd = a[:, 2] - b[:, 2]
    pos = np.sqrt(dn ** 2 + de ** 2 + dd ** 2).max()
    vel = np.linalg.norm(a[:, 3:6] - b[:, 3:6], axis=1).max()
    att = np.linalg.norm(a[:, 6:15] - b[:, 6:15], axis=1).max()
    return np.array([pos, vel, att])


FLOOR0 = np.array([1e-4, 1e-6, 1e-9])      # >= 1000x rounding of the implementation and of the reference over these horizons
GROUPS = ('position', 'velocity', 'attitude')


NLEV = 4            # runs at h, h/2, h/4, h/8
RATIO_MIN = 1.3     # a convergent run shrinks the error by >= 2 per halving asymptotically (measured: the largest of
                    # the three ratios is >= 1.8 on thousands of cases; ~4 typically: the kernel is second order up to
                    # a small first-order Coriolis term); an error component that does not vanish gives ratios -> 1
CHANGE_FACTOR = 10  # err <= CHANGE_FACTOR * |x(h) - x(h/2)|  (measured <= 2.3)


def halving_case(case):
    """Returns (verdicts, info).  verdicts: list of strings describing violated criteria."""
    h = case['h']
    runs = []
    for k in range(NLEV):
        t, st = run_impl(case, h / 2 ** k)
        runs.append(st[::2 ** k])
        tc = t[::2 ** k]
    ref = reference(case, tc, runs[0][0].copy())
    lat0, alt0 = case['lla'][0], case['lla'][2]
    e = [group_errors(r, ref, lat0, alt0) for r in runs]
    d = [group_errors(runs[k], runs[k + 1], lat0, alt0) for k in range(NLEV - 1)]
    bad = []
    FLOOR = FLOOR0 * case.get('floor_scale', 1.0)
    for g in range(3):
        if e[-1][g] > FLOOR[g]:
            ratios = [e[k][g] / e[k + 1][g] for k in range(NLEV - 1)]
            if max(ratios) < RATIO_MIN:
                bad.append(f"{GROUPS[g]}: error does not shrink under halving: err(h,h/2,h/4,h/8)="
                           + ",".join(f"{e[k][g]:.3e}" for k in range(NLEV)))
        if e[1][g] > FLOOR[g] and e[0][g] > CHANGE_FACTOR * d[0][g] and e[1][g] > CHANGE_FACTOR * d[1][g]:
            bad.append(f"{GROUPS[g]}: err(h)={e[0][g]:.3e} > {CHANGE_FACTOR}*|x(h)-x(h/2)|={CHANGE_FACTOR * d[0][g]:.3e} and "
                       f"err(h/2)={e[1][g]:.3e} > {CHANGE_FACTOR}*|x(h/2)-x(h/4)|={CHANGE_FACTOR * d[1][g]:.3e}")
    info = dict(err=[x.tolist() for x in e], change=[x.tolist() for x in d])
    return bad, info


# ---- one table of IMU samples -> increments, row by row -----------------------------------------
def incrow_case(rng, kind):
    """A short IMU table with a realistic time axis: start at 0, at some seconds, or at GPS/UNIX-like seconds;
    uniform intervals of every class of draw_interval, or a jittered axis."""
    m = rng.randint(3, 7)
    t0 = rng.choice([0.0, rng.uniform(0, 100), rng.uniform(1e3, 1e5), 1.3e9 + rng.randint(0, 10 ** 6) * 0.5])
    h = draw_interval(rng, rng.randrange(4)) / rng.choice([1, 1, 2, 8])
    if rng.random() < 0.25:
        steps = [h * rng.uniform(0.7, 1.3) for _ in range(m - 1)]
    else:
        steps = [h] * (m - 1)
    t = [t0]
    for st in steps:
        t.append(t[-1] + st)
    sc = (3.0, 20.0) if kind == 'rate' else (3.0 * h, 20.0 * h)
    rows = [[rng.uniform(-sc[0], sc[0]) for _ in range(3)] + [rng.uniform(-sc[1], sc[1]) for _ in range(3)]
            for _ in range(m)]
    return dict(kind=kind, t=t, rows=rows)


def incrow_expected(kind, t, rows):
    """Hand transcription of the per-row formulas (Model/KernelHand.v h_rate_* / h_incr_*, proved equal to the
    generated Gen/C01Gen.v inc_rate_* / inc_incr_*), dt = difference of the time stamps."""
    x = np.asarray(rows, float)
    t = np.asarray(t, float)
    out = []
    for k in range(1, len(t)):
        dt = t[k] - t[k - 1]
        ga, fa, ge, fe = x[k - 1, :3], x[k - 1, 3:], x[k, :3], x[k, 3:]
        if kind == 'rate':
            gi = (ga + 0.5 * (ge - ga)) * dt
            fi = (fa + 0.5 * (fe - fa)) * dt
            th = gi + np.cross(ga, ge - ga) * (dt * dt) / 12
            dv = fi + (np.cross(ga, fe - fa) + np.cross(fa, ge - ga)) * (dt * dt) / 12 + 0.5 * np.cross(gi, fi)
        else:
            th = ge + np.cross(ga, ge) / 12
            dv = fe + (np.cross(ga, fe) + np.cross(fa, ge)) / 12 + 0.5 * np.cross(ge, fe)
        out.append(np.hstack([[dt], th, dv]))
    return np.array(out)


def incrow_check(c):
    """Returns a description of the first disagreement or None."""
    import pandas as pd
    from pyins import strapdown
    from pyins.util import GYRO_COLS, ACCEL_COLS
    imu = pd.DataFrame(np.asarray(c['rows'], float), index=pd.Index(c['t'], name='time'),
                       columns=GYRO_COLS + ACCEL_COLS)
    inc = strapdown.compute_increments_from_imu(imu, c['kind'])
    got = inc[['dt', 'theta_x', 'theta_y', 'theta_z', 'dv_x', 'dv_y', 'dv_z']].values.astype(float)
    want = incrow_expected(c['kind'], c['t'], c['rows'])
    if got.shape != want.shape:
        return f"{got.shape[0]} increment rows for {len(c['t'])} samples"
    if not np.array_equal(np.asarray(inc.index, float), np.asarray(c['t'][1:], float)):
        return "increments are not labelled with the time stamps of the samples"
    ulp = np.spacing(np.abs(np.asarray(c['t'], float)).max())
    for k in range(len(want)):
        if abs(got[k, 0] - want[k, 0]) > 4 * ulp:
            return (f"row {k}: dt={got[k, 0]!r} but the time stamps differ by {want[k, 0]!r} "
                    f"(sampling interval distorted by {abs(got[k, 0] / want[k, 0] - 1):.2e})")
        scale = np.abs(want[k, 1:]).max() + 1e-300
        err = np.abs(got[k, 1:] - want[k, 1:]).max()
        if err > 1e-11 * scale + 16 * ulp / want[k, 0] * scale:
            return f"row {k}: increments {got[k, 1:].tolist()} differ from the per-row formulas {want[k, 1:].tolist()}"
    return None


# ---- several Integrator objects alive at the same time ------------------------------------------
def interleave_case(rng):
    """2 or 3 independent navigation problems (own initial state, own signals, own sampling)."""
    n = rng.choice([2, 2, 3])
    cases = []
    for k in range(n):
        c = make_case(rng, rng.choice(['rate', 'increment']), hcls=rng.randrange(4))
        c['T'] = 1.0
        c['chunks'] = sorted(rng.uniform(0.1, 0.9) for _ in range(rng.choice([1, 2, 3])))
        cases.append(c)
    return dict(cases=cases, late=rng.random() < 0.5)


def _prepare(case):
    import pandas as pd
    from pyins import strapdown
    from pyins.util import GYRO_COLS, ACCEL_COLS, LLA_COLS, VEL_COLS, RPH_COLS
    wsig, fsig = Signal.from_json(case['w']), Signal.from_json(case['f'])
    h = case['h']
    n = int(math.floor(case['T'] / h + 1e-9))
    t = np.arange(0, n + 1) * h
    if case['kind'] == 'rate':
        gyro, accel = wsig.values(t), fsig.values(t)
    else:
        gyro, accel = wsig.prim(t) - wsig.prim(t - h), fsig.prim(t) - fsig.prim(t - h)
    imu = pd.DataFrame(np.hstack([gyro, accel]), index=pd.Index(t, name='time'), columns=GYRO_COLS + ACCEL_COLS)
    inc = strapdown.compute_increments_from_imu(imu, case['kind'])
    pva = pd.Series(list(case['lla']) + list(case['v']) + list(case['rph']),
                    index=LLA_COLS + VEL_COLS + RPH_COLS, name=0.0)
    cuts = sorted(set(max(1, min(len(inc) - 1, int(len(inc) * q))) for q in case['chunks'])) + [len(inc)]
    return pva, inc, cuts


def _snapshot(integ, m):
    return np.hstack([integ.lla[:m].copy(), integ.velocity_n[:m].copy(), integ.mat_nb[:m].reshape(m, 9).copy()])


def interleave_check(c):
    """Every Integrator depends only on its own initial state and the increments given to IT: objects created
    first and then advanced alternately in chunks must reproduce, bit for bit, what each does when run alone."""
    from pyins import strapdown
    prep = [_prepare(case) for case in c['cases']]
    alone = []
    for pva, inc, cuts in prep:
        integ = strapdown.Integrator(pva)
        prev, parts = 0, []
        for cut in cuts:
            parts.append(integ.integrate(inc.iloc[prev:cut]).values.copy())
            prev = cut
        alone.append((_snapshot(integ, len(inc) + 1), parts, integ.trajectory.values.copy()))
    objs = [strapdown.Integrator(pva) for pva, _, _ in (prep[:-1] if c.get('late') else prep)]
    pos = [0] * len(prep)
    parts = [[] for _ in prep]
    rounds = max(len(cuts) for _, _, cuts in prep)
    for rnd in range(rounds):
        if rnd == 1 and c.get('late'):
            objs.append(strapdown.Integrator(prep[-1][0]))     # a further object created while the others are in use
        for k in range(len(objs)):
            pva, inc, cuts = prep[k]
            if pos[k] < len(cuts):
                prev = cuts[pos[k] - 1] if pos[k] else 0
                parts[k].append(objs[k].integrate(inc.iloc[prev:cuts[pos[k]]]).values.copy())
                pos[k] += 1
    if c.get('late') and len(objs) < len(prep):
        objs.append(strapdown.Integrator(prep[-1][0]))
    for k in range(len(prep)):                                  # finish whatever is left
        pva, inc, cuts = prep[k]
        while pos[k] < len(cuts):
            prev = cuts[pos[k] - 1] if pos[k] else 0
            parts[k].append(objs[k].integrate(inc.iloc[prev:cuts[pos[k]]]).values.copy())
            pos[k] += 1
    for k in range(len(prep)):
        snap, parts_alone, traj = alone[k]
        m = len(prep[k][1]) + 1
        got = _snapshot(objs[k], m)
        if not np.array_equal(got, snap):
            bad = np.argwhere(got != snap)
            i = int(bad[0][0])
            return (f"integrator {k} of {len(prep)} alive together: state row {i} differs from the same integrator "
                    f"run alone: {got[i, :6].tolist()} vs {snap[i, :6].tolist()}")
        if not np.array_equal(objs[k].trajectory.values, traj, equal_nan=True):
            return f"integrator {k} of {len(prep)} alive together: .trajectory differs from the same integrator run alone"
        for j, (a, b) in enumerate(zip(parts[k], parts_alone)):
            if not np.array_equal(a, b, equal_nan=True):
                return f"integrator {k} of {len(prep)} alive together: chunk {j} returned by integrate() differs from the run alone"
    return None


# ---- direct finite-difference consistency of the compiled kernel ---------------------------
def kernel_step(y, dt, th, dv):
    """One step of the compiled kernel.  The state is placed at buffer row 1 (offset = 1) below a row of
    unrelated values and the increment at position 0, so that a kernel that reads any state component at the
    increment index instead of the buffer index (or from a neighbouring row) is not first-order consistent."""
    from pyins import _numba_integrate as ni
    lla = np.zeros((3, 3))
    vel = np.zeros((3, 3))
    mat = np.zeros((3, 3, 3))
    lla[0] = (-(y[0] * 0.5 + 17.0), y[1] + 31.0, y[2] + 4321.0)
    vel[0] = (y[4] - 55.0, y[3] + 44.0, -y[5] + 7.0)
    mat[0] = np.asarray(y[6:15]).reshape(3, 3).T
    lla[1], vel[1], mat[1] = y[:3], y[3:6], np.asarray(y[6:15]).reshape(3, 3)
    lla[2] = vel[2] = np.nan
    mat[2] = np.nan
    ni.integrate(np.array([dt]), lla, vel, mat, np.array([th], float), np.array([dv], float), 1, True)
    return np.hstack([lla[2], vel[2], mat[2].ravel()])


def fd_case(rng):
    from scipy.spatial.transform import Rotation
    lat, lon, alt = rng.uniform(-85, 85), rng.uniform(-180, 180), rng.uniform(-500, 20000)
    if rng.random() < 0.25:                                # the edges of the property's latitude domain and the equator
        lat = rng.choice([-85.0, -84.9, -84.5, -84.3, 84.3, 84.5, 84.9, 85.0, 0.0, -1e-3, 1e-3])
    speed = rng.uniform(0, 300)
    d = np.array([rng.gauss(0, 1), rng.gauss(0, 1), rng.gauss(0, 1)])
    v = speed * d / np.linalg.norm(d)
    C = Rotation.from_rotvec([rng.gauss(0, 2), rng.gauss(0, 2), rng.gauss(0, 2)]).as_matrix()
    w = [rng.uniform(-3, 3) for _ in range(3)]
    f = [rng.uniform(-20, 20) for _ in range(3)]
    return dict(y=[lat, lon, alt] + v.tolist() + C.ravel().tolist(), w=w, f=f)


# absolute tolerances (deg/s, deg/s, m/s | m/s^2 | 1/s): >= 100x above rounding + truncation (measured, see
# coverage fd_worst_err_over_tol), far below the effect of a wrong sign / factor / radius in any term
FD_TOL = np.array([2e-9, 4e-9, 1e-6] + [2e-5] * 3 + [2e-8] * 9)
FD_NAMES = ['lat', 'lon', 'alt', 'VN', 'VE', 'VD'] + [f'C{i}{j}' for i in range(3) for j in range(3)]


def fd_derivative(y, w, f, dt):
    """d/dt of one kernel step along theta = w dt, dv = f dt at dt = 0: forward differences at dt, dt/2, dt/4,
    Richardson-extrapolated (removes the O(dt) and O(dt^2) terms)."""
    def D(h):
        return (kernel_step(y, h, w * h, f * h) - y) / h
    return (8 * D(dt / 4) - 6 * D(dt / 2) + D(dt)) / 3


def fd_check(c):
    """Returns (list of (component, kernel derivative, nav_rhs) out of tolerance, abs errors)."""
    y = np.array(c['y'])
    w, f = np.array(c['w']), np.array(c['f'])
    # position: slow, large values (rounding ~ 1e-14 deg / dt) -> long step; velocity, attitude: fast -> short step
    est = fd_derivative(y, w, f, 2e-4)
    est[:3] = fd_derivative(y, w, f, 1e-2)[:3]
    rhs = nav_rhs(y, w, f)
    err = np.abs(est - rhs)
    return [(FD_NAMES[i], float(est[i]), float(rhs[i])) for i in range(15) if err[i] > FD_TOL[i]], err


def numeric_support(r, n_traj, n_fd, seed_off=0, n_long=0, n_gentle=0):
    fails = []
    rng = random.Random(r.seed + 101 + seed_off)
    worst = np.zeros(15)
    for i in range(n_fd):
        c = fd_case(rng)
        bad, err = fd_check(c)
        worst = np.maximum(worst, err / FD_TOL)
        r.case(('fd', r.seed, seed_off, i), sample=dict(kind='fd', **c) if i < 2 else None)
        if bad:
            fails.append((f"kernel step is not first-order consistent with nav_rhs: {bad[:3]}",
                          dict(key='fd-consistency', kind='fd', case=c)))
    n_rows = 10 * n_fd // 8
    for i in range(n_rows):
        c = incrow_case(rng, 'rate' if i % 2 == 0 else 'increment')
        what = incrow_check(c)
        r.case(('incrow', r.seed, seed_off, i), sample=dict(test='incrow', **c) if i < 1 else None)
        if what:
            fails.append((f"compute_increments_from_imu, {c['kind']}-type: {what}",
                          dict(key='increments-row', kind='incrow', case=c)))
    for i in range(max(3, n_traj // 3)):
        c = interleave_case(rng)
        what = interleave_check(c)
        r.case(('alive', r.seed, seed_off, i), sample=None)
        if what:
            fails.append((what, dict(key='integrators-alive-together', kind='alive', case=c)))
    fails.sort(key=lambda f: {'incrow': 0, 'alive': 1, 'fd': 2}.get(f[1]['kind'], 3))
    ratios = []
    dist = {}
    for i in range(n_traj):
        kind = 'rate' if i % 2 == 0 else 'increment'
        case = make_case(rng, kind, long=('gentle' if i < n_gentle else (i < n_gentle + n_long)),
                         hcls=(i // 2 + i) % 4 if i >= n_gentle else 0)
        if i >= n_gentle + n_long and i % 3 == 2:
            case.update(stepwise=True, T=2.0, h=max(case['h'], 0.01))
        if i >= n_gentle + n_long and i % 3 == 1:
            # argument forms: same inputs as labelled tables in another column layout / whole-number initial state
            case['lla'] = [float(round(case['lla'][0])), float(round(case['lla'][1])), float(round(case['lla'][2]))]
            case['v'] = [float(round(x)) for x in case['v']]
            case['rph'] = [float(round(x)) for x in case['rph']]
            case['form'] = 'imucols+inccols+intpva'
        bad, info = halving_case(case)
        e = info['err']
        ratios.append([max(e[k][g] / e[k + 1][g] for k in range(NLEV - 1)) if e[-1][g] > FLOOR0[g] * case.get('floor_scale', 1.0) else float('nan')
                       for g in range(3)])
        dk = f"{kind},h={case['h']:.6g},T={case['T']}"
        dist[dk] = dist.get(dk, 0) + 1
        r.case(('traj', r.seed, seed_off, i), sample=dict(case=case, info=info) if i < 2 else None)
        for b in bad:
            fails.append((f"{kind}-type sensor, h={case['h']}: {b}", dict(key='halving', kind='traj', case=case)))
    ra = np.array(ratios) if ratios else np.zeros((0, 3))
    r.coverage.setdefault('distribution', {}).update(dist)
    r.coverage['fd_worst_err_over_tol'] = float(worst.max()) if n_fd else None
    if len(ra):
        r.coverage['best_halving_ratio_min_over_cases'] = np.nanmin(ra, axis=0).tolist()
        r.coverage['best_halving_ratio_median'] = np.nanmedian(ra, axis=0).tolist()
    return fails


def check(r):
    r.trusted += [
        "translator tools/sym.py + tools/ir2coq.py (symbolic tracing of _numba_integrate.integrate, one loop iteration; "
        "mat_from_rotvec and gravity kept as calls of their own traced definitions)",
        "numba compilation of _numba_integrate.py not modelled (the Python source is traced; compiled kernel compared numerically)",
        "binary64 rounding not modelled: theorems are over the reals, decimal literals read as exact rationals, pi/180 as PI/180",
        "Spec/NavODE.v is the hand-written physics (Groves ch.5 / Savage) — reviewed, cross-checked numerically against the kernel",
    ]
    r.assumptions += [
        "PARTIAL: uniform stability constant L and local-error constant C of the concrete kernel are hypotheses of "
        "C01_strapdown_converges_partial, not proved; existence/smoothness of the exact flow not proved",
        "increments_consistent: one row of compute_increments_from_imu traced on a 2-sample DataFrame (Gen/C01Gen.v); "
        "increment-type samples are modelled as W(dt)-W(0), W(0)-W(-dt) for an antiderivative W of the signal "
        "(equal adjacent intervals); multi-row behaviour and unequal intervals are C15's subject",
        "step_consistent is stated for -90 < lat < 90 and alt >= -1000 km (cos lat > 0, radii > 0)",
        "convergence order / halving behaviour of the implementation is checked numerically only (support)",
    ]
    r.generate(['Earth', 'NumbaIntegrate', 'C01Gen'])
    r.prove('Props/C01.v')
    if r.tier == 'quick':
        fails = numeric_support(r, 6, 40)
    else:
        fails = numeric_support(r, 200, 2000, n_long=20, n_gentle=4)
    for what, rep in pick(fails):
        r.violation(what, rep)
    if r.tier == 'thorough':
        r.hygiene()


def pick(fails, n=5):
    """at most n failures, one of every kind of test first"""
    seen, first, rest = set(), [], []
    for f in fails:
        (first if f[1]['kind'] not in seen else rest).append(f)
        seen.add(f[1]['kind'])
    return (first + rest)[:n]


def falsify(r):
    fails = numeric_support(r, 24, 400, seed_off=7)
    for what, rep in pick(fails):
        r.violation(what, rep)


def replay(obj):
    rep = obj.get('replay', obj)
    print(obj.get('what', ''))
    if rep.get('kind') == 'fd':
        bad, err = fd_check(rep['case'])
        print("finite-difference derivative of the kernel vs nav_rhs (component, kernel, spec):")
        for b in bad:
            print("  ", b)
        print("max err/tol:", float((err / FD_TOL).max()))
        return 1 if bad else 0
    if rep.get('kind') == 'incrow':
        c = rep['case']
        what = incrow_check(c)
        print("IMU table (time, gyro xyz, accel xyz):")
        for tk, row in zip(c['t'], c['rows']):
            print("  ", repr(tk), row)
        print("expected rows (dt, theta, dv):", incrow_expected(c['kind'], c['t'], c['rows']).tolist())
        print("VIOLATED: " + what if what else "rows agree with the per-row formulas")
        return 1 if what else 0
    if rep.get('kind') == 'alive':
        what = interleave_check(rep['case'])
        print("VIOLATED: " + what if what else "every integrator reproduces its run alone bit for bit")
        return 1 if what else 0
    if rep.get('kind') == 'traj':
        bad, info = halving_case(rep['case'])
        print("errors (pos m, vel m/s, att) at h, h/2, h/4, h/8:", info['err'])
        print("change under halving:", info['change'])
        for b in bad:
            print("  VIOLATED:", b)
        return 1 if bad else 0
    print(obj)
    return 0
