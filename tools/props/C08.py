"""C08 -- Discretised process matrices are the exact transition and noise integral.

Tie: tools/gen_mx.py traces the LIVE `pyins.kalman.compute_process_matrices` at matrix granularity
on every run (block assignments into np.zeros((2n, 2n)) at block boundaries, expm as an opaque
oracle, blocks of the result), validates the IR against the real function and regenerates
coq/Gen/Kalman.v; the theorems of Props/C08.v are about those generated definitions.

Numerical support / falsifier (on the implementation, independent oracles):
  * Phi and Qd against an oracle that does NOT use Van Loan's block matrix: for h = dt / 2^s with
    |F h| <= 1/2, Phi(h) = sum (F h)^k / k! and Qd(h) = sum h^d w_d with w_1 = Q,
    w_{d+1} = (F w_d + w_d F^T) / (d + 1) (term-by-term integral of exp(F u) Q exp(F^T u)), then s
    doublings Qd(2t) = Phi(t) Qd(t) Phi(t)^T + Qd(t), Phi(2t) = Phi(t)^2 -- in exact rational
    arithmetic from the same binary64 inputs: pure fractions.Fraction for tiny cases, and 512-bit
    dyadic rationals (each product rounded to a multiple of 2^-512) otherwise;
  * every entry of Qd relative to the magnitude of ITS OWN rows (tolerance eps (1 + |X|) max(W_ii, W_jj) with
    W_ii the majorant (|exp(F s)| |Q| |exp(F^T s)| dt)_ii, not the norm of Qd): badly scaled Q (block diagonal with
    12..20 decades between the blocks, zero blocks) must keep the weak noise; the same for the assembly cases;
  * symmetry and PSD of Qd, zero step exactly (Phi == I, Qd == 0 bit for bit);
  * linearity in Q: Qd(2^k Q) == 2^k Qd(Q) and Phi independent of Q (Q spans 1e-20 .. 1e6; every tolerance
    is homogeneous of degree 1 in Q, so a zero or mis-scaled Qd for a tiny Q is a violation);
  * composition over random partitions of dt into 1..8 sub-steps (transitions multiply, noise
    accumulates through the later transitions, covariance propagation independent of the partition);
  * calls in a row on the SAME F and Q buffers updated in place in between (scaled, negated, zeroed, Q *= 4,
    interleaved with another dt), same dt: the result depends only on the current argument values;
  * inputs unmodified; integer-typed F (int64) and integer dt with a fractional Q give the float result;
  * the anchor filters._compute_error_propagation_matrices (assembly of the joint INS + sensor dynamics, noise
    input and intensities, and the call): for random EstimationModel pairs (every enable mask, bias walk on
    both sensors with different intensities, noise, scale/misalignment with readings), random pva and
    time_delta, the returned (Phi, Qd) against an own continuous model (F, Qc) written from the models'
    PUBLIC parameters (bias_sd, noise, bias_walk, scale_misal_sd; not from G, q, v), (a) discretised by
    the implementation's own compute_process_matrices -- entry by entry relative to sqrt(Qd_ii Qd_jj) at 1e-9
    plus one rounding unit -- and (b) by Gauss-Legendre quadrature of the definition with scipy expm;
Rounding scale: scipy's expm (Pade 13, scaling and squaring) has forward error up to about
500 * eps * (1 + |X|_1) * |exp(X)|_1 on the block matrix X (measured against the exact oracle; the
Pade denominator cancels for |X| close to 4.25, e.g. expm([[4, .2], [0, -4]])[0, 0] is off by 2300 ulp);
tolerances are 2e5 in these units, i.e. 400x that, and are relative to the magnitudes of the factors
of Qd = E12 E11^T.  Over 120000 random cases the worst error stayed below 1.4 % of the tolerance.
"""
import math
import random
from fractions import Fraction

import os
os.environ.setdefault('OPENBLAS_NUM_THREADS', '1')   # tiny matrices: BLAS threads only add latency
os.environ.setdefault('OMP_NUM_THREADS', '1')
import numpy as np
import scipy.linalg as sla

RULE = ("translator: matrix-granularity trace of kalman.compute_process_matrices validated on 60 random "
        "inputs per run; numeric support: F stable / unstable / nilpotent / zero / skew / random with "
        "|F| dt log-uniform 1e-4..20, n in 1..24, Q PSD of every rank incl. 0 with overall scale log-uniform "
        "1e-20..1e6, dt in [0, 10] incl. 0, partitions of dt into 1..8 sub-steps, Q rescaled by 2^k (linearity); "
        "all comparisons homogeneous in Q; integer-typed F / dt; every 5th case is an assembly case of "
        "filters._compute_error_propagation_matrices (random sensor-model enable masks and magnitudes, pva, readings, "
        "time_delta in 0.01..10 s); a case is distinct by (n, kind, rank Q, dt class, #sub-steps, index)")

EPS = 2.0 ** -52
MARGIN = 2.0e5
MARGIN_E = 2.0e5          # entrywise: in units of eps (1 + |X|) (|exp(F s)| |Q| |exp(F^T s)| dt)_ij
FLOOR2 = 1.0e9            # entrywise floor (eps (1+|X|))^2 max W: products of two rounding-level entries of the
                          # exponential at structurally zero positions (observed up to 5e6 in these units)
TRUNC_MARGIN = 100.0       # margin on the (deterministic) Pade truncation term
PREC = 512
ONE = 1 << PREC


# ---------------------------------------------------------------------------
# exact oracles (independent of Van Loan's construction)

def _fx(a):
    a = np.asarray(a, dtype=float)
    out = np.empty(a.shape, dtype=object)
    for idx, v in np.ndenumerate(a):
        f = Fraction(float(v))
        out[idx] = (f.numerator << PREC) // f.denominator
    return out


def _fmul(A, B):
    return A.dot(B) >> PREC


def _to_float(A):
    out = np.empty(A.shape)
    for idx, v in np.ndenumerate(A):
        out[idx] = float(Fraction(int(v), ONE))
    return out


def _halvings(F, dt):
    n = len(F)
    norm1 = float(np.abs(F).sum(axis=0).max()) * dt if n else 0.0
    return max(0, int(math.ceil(math.log2(norm1))) + 1) if norm1 > 0.5 else 0


def phi_qd_dyadic(F, Q, dt, terms=32):
    """(Phi, Qd) by series + doubling in 512-bit dyadic rationals."""
    F, Q = np.asarray(F, float), np.asarray(Q, float)
    n = len(F)
    s = _halvings(F, dt)
    d = Fraction(float(dt))

    def times_h(M):
        out = np.empty(M.shape, dtype=object)
        for idx, v in np.ndenumerate(M):
            out[idx] = (v * d.numerator) // (d.denominator << s)
        return out
    Ah, v = times_h(_fx(F)), times_h(_fx(Q))
    AhT = Ah.T.copy()
    ident = np.empty((n, n), dtype=object)
    for i in range(n):
        for j in range(n):
            ident[i, j] = ONE if i == j else 0
    Phi, term = ident.copy(), ident.copy()
    for k in range(1, terms + 1):
        term = _fmul(term, Ah) // k
        Phi = Phi + term
    Qd = v.copy()
    for k in range(1, terms):
        v = (_fmul(Ah, v) + _fmul(v, AhT)) // (k + 1)
        Qd = Qd + v
    for _ in range(s):
        Qd = _fmul(_fmul(Phi, Qd), Phi.T.copy()) + Qd
        Phi = _fmul(Phi, Phi)
    return _to_float(Phi), _to_float(Qd)


def phi_qd_fraction(F, Q, dt, terms=24):
    """the same in pure fractions.Fraction (no rounding at all; truncation of the series only)."""
    n = len(F)
    s = _halvings(np.asarray(F, float), dt)
    h = Fraction(float(dt)) / (1 << s)
    A = [[Fraction(float(F[i][j])) * h for j in range(n)] for i in range(n)]
    v = [[Fraction(float(Q[i][j])) * h for j in range(n)] for i in range(n)]

    def mm(a, b):
        return [[sum((a[i][k] * b[k][j] for k in range(n)), Fraction(0)) for j in range(n)] for i in range(n)]

    def tr(a):
        return [list(r) for r in zip(*a)]

    def add(a, b):
        return [[x + y for x, y in zip(r, q)] for r, q in zip(a, b)]
    ident = [[Fraction(int(i == j)) for j in range(n)] for i in range(n)]
    Phi, term = ident, ident
    for k in range(1, terms + 1):
        term = [[x / k for x in r] for r in mm(term, A)]
        Phi = add(Phi, term)
    Qd = v
    for k in range(1, terms):
        v = [[x / (k + 1) for x in r] for r in add(mm(A, v), mm(v, tr(A)))]
        Qd = add(Qd, v)
    for _ in range(s):
        Qd = add(mm(mm(Phi, Qd), tr(Phi)), Qd)
        Phi = mm(Phi, Phi)
    f = lambda a: np.array([[float(x) for x in r] for r in a]).reshape(n, n)
    return f(Phi), f(Qd)


def phi_qd_float(F, Q, dt, terms=24):
    """the same algorithm in binary64 (for dimensions where exact arithmetic is too slow)."""
    n = len(F)
    s = _halvings(F, dt)
    h = dt / (1 << s)
    A, v = F * h, Q * h
    Phi, term = np.eye(n), np.eye(n)
    for k in range(1, terms + 1):
        term = term @ A / k
        Phi = Phi + term
    Qd = v.copy()
    for k in range(1, terms):
        v = (A @ v + v @ A.T) / (k + 1)
        Qd = Qd + v
    for _ in range(s):
        Qd = Phi @ Qd @ Phi.T + Qd
        Phi = Phi @ Phi
    return Phi, Qd


# ---------------------------------------------------------------------------
# cases

def _randn(rng, *shape):
    return np.array([rng.gauss(0.0, 1.0) for _ in range(int(np.prod(shape)))]).reshape(shape)


SEQ_OPS = ['scaleF', 'zeroF', 'scaleQ', 'otherdt', 'same', 'negF']
KINDS = ['stable', 'unstable', 'nilpotent', 'zero', 'skew', 'random']


def make_blockcase(rng, idx):
    """badly scaled noise: F block diagonal (2 or 3 blocks, optionally with coupling FROM the weakly driven block INTO
    the strongly driven one only), Q block diagonal with 12..20 decades between the blocks, zero blocks allowed.
    Each entry of Qd is then compared RELATIVE to its own magnitude."""
    nb = rng.choice([2, 2, 3])
    sizes = [rng.randint(1, 3) for _ in range(nb)]
    n = sum(sizes)
    offs = np.cumsum([0] + sizes)
    dt = rng.choice([rng.uniform(0.01, 10), 10 ** rng.uniform(-3, 1)])
    F = np.zeros((n, n))
    Q = np.zeros((n, n))
    top = rng.uniform(-6, 3)
    exps = [top] + [top - rng.uniform(12, 20) * (k if rng.random() < 0.7 else 1) for k in range(1, nb)]
    order = list(range(nb))
    rng.shuffle(order)
    for k, b in enumerate(order):
        lo, hi = offs[b], offs[b + 1]
        sz = hi - lo
        kind = rng.choice(['zero', 'nilpotent', 'stable', 'random'])
        A = _randn(rng, sz, sz)
        if kind == 'zero':
            A = np.zeros((sz, sz))
        elif kind == 'nilpotent':
            A = np.triu(A, 1)
        elif kind == 'stable':
            A = A - (np.linalg.eigvals(A).real.max() + rng.uniform(0.1, 1)) * np.eye(sz)
        na = float(np.abs(A).sum(axis=0).max())
        if na * dt > 3.0:
            A *= 3.0 / (na * dt)
        F[lo:hi, lo:hi] = A
        if not (k > 0 and rng.random() < 0.2):                 # zero noise block
            rk = rng.randint(1, sz)
            g = _randn(rng, sz, rk)
            q = g @ g.T
            Q[lo:hi, lo:hi] = q * (10 ** exps[k] / float(np.abs(q).max()))
    if rng.random() < 0.5:          # the weakly driven block feeds the strongest one, never the other way round
        s_, w_ = order[0], order[-1]
        F[offs[s_]:offs[s_ + 1], offs[w_]:offs[w_ + 1]] = _randn(rng, sizes[s_], sizes[w_]) * rng.uniform(0, 1) / max(dt, 1.0)
    Q = (Q + Q.T) / 2
    k = rng.randint(1, 4)
    cuts = sorted(rng.random() for _ in range(k - 1))
    parts = [(b_ - a_) * dt for a_, b_ in zip([0.0] + cuts, cuts + [1.0])]
    a = _randn(rng, n, n)
    return dict(idx=idx, n=n, kind='blocks', rankQ=int(np.linalg.matrix_rank(Q)), dclass='uniform', F=F, Q=Q,
                dt=float(dt), parts=parts, P0=a @ a.T, order=rng.choice(['C', 'F']),
                qscale=float(np.abs(Q).max()) or 1e-300, lin=2.0 ** rng.randint(-20, 20), intF=False, intdt=False,
                seq=None)


def make_case(rng, idx, nmax):
    if rng.random() < 0.12:
        return make_blockcase(rng, idx)
    n = rng.choice([k for k in (1, 1, 2, 2, 3, 3, 4, 5, 6, 8, 12, 16, 24) if k <= nmax])
    kind = rng.choice(KINDS)
    F = _randn(rng, n, n)
    if kind == 'stable':
        F = F - (np.linalg.eigvals(F).real.max() + rng.uniform(0.1, 2)) * np.eye(n)
    elif kind == 'unstable':
        F = F - (np.linalg.eigvals(F).real.min() - rng.uniform(0.1, 1)) * np.eye(n)
    elif kind == 'nilpotent':
        F = np.triu(F, 1)
    elif kind == 'zero':
        F = np.zeros((n, n))
    elif kind == 'skew':
        F = F - F.T
    dclass = rng.choice(['zero', 'uniform', 'uniform', 'log'])
    dt = 0.0 if dclass == 'zero' else (rng.uniform(0, 10) if dclass == 'uniform' else 10 ** rng.uniform(-4, 1))
    # integer-typed F (int64 array with the same values) and integer dt, with a fractional Q
    intF = n <= 6 and rng.random() < 0.12
    intdt = rng.random() < (0.5 if intF else 0.05)
    if intdt:
        dt = float(rng.choice([0, 1, 1, 2, 3, 5, 10]))
        dclass = 'integer'
    # |F| dt over its whole range: clipped from above at theta, or set to theta exactly (log-uniform)
    theta = rng.choice([0.1, 1.0, 3.0, 10.0, 20.0, 10 ** rng.uniform(-4, math.log10(20.0))])
    nf = float(np.abs(F).sum(axis=0).max()) if n else 0.0
    if nf * dt > theta or (nf * dt > 0 and rng.random() < 0.3):
        F = F * (theta / (nf * dt))
    if intF:
        F = np.round(np.clip(F * rng.choice([1.0, 3.0]), -4, 4))
        if kind == 'skew':
            F = F - F.T
        nf = float(np.abs(F).sum(axis=0).max()) if n else 0.0
        if nf * dt > 24:
            dt = float(max(1, int(24 // nf))) if intdt else 24.0 / nf
    # Q: PSD of every rank, overall scale log-uniform over 26 decades (sensor noise densities are ~1e-14)
    rk = rng.randint(0, n)
    b = _randn(rng, n, rk) if rk else np.zeros((n, 1))
    qscale = 10 ** rng.uniform(-20, 6)
    Q = b @ b.T
    Q = (Q + Q.T) / 2
    if Q.any():
        Q = Q * (qscale / float(np.abs(Q).max()))
    k = rng.randint(1, 8)
    cuts = sorted(rng.random() for _ in range(k - 1))
    parts = [(b_ - a_) * dt for a_, b_ in zip([0.0] + cuts, cuts + [1.0])]
    a = _randn(rng, n, n)
    P0 = a @ a.T * 10 ** rng.uniform(-2, 2)
    return dict(idx=idx, n=n, kind=kind, rankQ=rk, dclass=dclass, F=F, Q=Q, dt=float(dt), parts=parts, P0=P0,
                order=rng.choice(['C', 'F']), qscale=qscale, lin=2.0 ** rng.randint(-60, 40),
                intF=bool(intF), intdt=bool(intdt),
                seq=([rng.choice(SEQ_OPS) for _ in range(rng.randint(1, 4))] if (n <= 8 and rng.random() < 0.25) else None))


# ---------------------------------------------------------------------------
# the property's statements on the implementation

def _n1(a):
    return float(np.abs(a).sum(axis=0).max()) if a.size else 0.0


_PADE = [(3, 1.495585217958292e-2), (5, 2.539398330063230e-1), (7, 9.504178996162932e-1), (9, 2.097847961257068)]


def _pade_order(X, slack=1.0):
    """the order scipy's expm (Al-Mohy & Higham 2009) selects from d_k = |X^k|^(1/k); 13 = scaling and squaring"""
    X2 = X @ X
    X4 = X2 @ X2
    X6, X8 = X4 @ X2, X4 @ X4
    d4, d6, d8 = _n1(X4) ** 0.25, _n1(X6) ** (1 / 6.0), _n1(X8) ** 0.125
    eta1, eta3 = max(d4, d6), max(d6, d8)
    for m, theta in _PADE:
        if (eta1 if m <= 5 else eta3) < slack * theta:
            return m
    return 13


def _pade_truncation(X, n):
    """(in_regime, term, term matrix): the regime of the recorded finding `van-loan-pade-order-tiny-Q`, the norm of
    the leading truncation term in the upper-right block, and its entries.

    scipy's expm selects the Pade order NORMWISE from the powers of the whole block matrix X.  Regime: the
    order selected for X is LOWER than the order selected for the same problem with Q rescaled to the size
    of F -- i.e. the order is low only because Q is tiny while the powers of F alone vanish or decay
    (nilpotent-chain-like dynamics: integrator chains, the INS error equations), although Qd is linear
    in Q.  The dropped term c_m X^(2m+1) (c_m = (m!)^2 / ((2m)! (2m+1)!); m = 3: F^3 Q (F^T)^3 dt^7 / 100800)
    is then negligible against |exp X| ~ 1 but NOT against the upper-right block, which is itself of the
    size of Q.  This is deterministic truncation, not rounding.  Outside this regime the term is NOT part
    of any tolerance: every other inexactness of Qd is a violation."""
    zero = np.zeros((n, n))
    if n == 0:
        return False, 0.0, zero
    nf, nq = _n1(X[:n, :n]), _n1(X[:n, n:])
    if not (nf > 0 and nq > 0):
        return False, 0.0, zero
    m_low = _pade_order(X, slack=2.0)                 # slack: scipy estimates the norms
    if m_low == 13:
        return False, 0.0, zero
    Xn = X.copy()
    Xn[:n, n:] *= max(1.0, nf / nq)
    if _pade_order(Xn) <= m_low:
        return False, 0.0, zero
    worst, Tm = 0.0, zero
    m_hi = _pade_order(X, slack=0.5)
    for m, _ in _PADE:
        if m_low <= m <= m_hi:
            cm = math.factorial(m) ** 2 / (math.factorial(2 * m) * math.factorial(2 * m + 1))
            blk = cm * np.abs(np.linalg.matrix_power(X, 2 * m + 1)[:n, n:])
            worst = max(worst, _n1(blk))
            Tm = np.maximum(Tm, blk)
    return worst > 0.0, worst, Tm


def _scale(F, Q, dt):
    """rounding units (absolute) of Phi and Qd for one call.  Everything that concerns Qd is
    homogeneous of degree 1 in Q (Qd is linear in Q, and so is the rounding error of the upper-right
    block of a block-triangular computation), so a zero or wrongly scaled Qd cannot hide behind an
    absolute tolerance; Phi does not depend on Q except through the number of squarings (|X|).
    In the regime of the recorded finding (only there) the Pade truncation term is added, with its
    own margin."""
    n = len(F)
    X = np.zeros((2 * n, 2 * n))
    X[:n, :n], X[:n, n:], X[n:, n:] = F, Q, -F.T
    X = X * dt
    E = sla.expm(X)                       # only its magnitudes are used
    nx = _n1(X)
    n11, n12, n22 = _n1(E[:n, :n]), _n1(E[:n, n:]), _n1(E[n:, n:])
    nd = max(n11, n22, 1.0)
    u = EPS * (1 + nx) * nd
    q12 = max(n12, _n1(Q) * dt)           # magnitude of the upper-right block and of what it is summed from
    rounding = u * q12 * max(n11, 1.0) + EPS * n * n11 * n12
    qdriven, term, Tm = _pade_truncation(X, n)
    # ... and the dropped term must actually matter (above 10 rounding units); otherwise it is not used
    regime = bool(qdriven and term * max(n11, 1.0) > 10.0 * rounding)
    trunc = term * max(n11, 1.0) * TRUNC_MARGIN / MARGIN if regime else 0.0      # in units of MARGIN
    # entry by entry: what each entry of Qd is summed from, |exp(F s)| |Q| |exp(F^T s)| over the step (majorant)
    Ea = np.abs(sla.expm(np.abs(np.asarray(F, float)) * dt))
    Wd = dt * np.einsum('ik,kl,il->i', Ea, np.abs(np.asarray(Q, float)), Ea)      # majorant of the variances
    # an off-diagonal entry is a sum of products of the two rows of E12 and E11: its rounding is that of the
    # LARGER of the two variances (positions that are structurally zero in exp(F s) are only zero to rounding)
    W = np.maximum.outer(Wd, Wd) if n else np.zeros((0, 0))
    uW = EPS * (1 + nx)
    # the dropped Pade term entry by entry (same regime: the order is low only because Q is tiny), as it enters
    # Qd = E12 E11^T; used by the entrywise statements where it exceeds 10 entrywise rounding units somewhere
    Tq = Tm @ np.abs(E[:n, :n]).T if qdriven else np.zeros((n, n))
    Tq = np.maximum(Tq, Tq.T)
    regime_e = bool(qdriven and n and (Tq > 10.0 * uW * W + 1e-300).any())
    return dict(bPhi=u + 1e-300, bQd=rounding + trunc, nx=nx, regime=bool(regime or regime_e), rounding=rounding,
                W=W, uW=uW, trunc=trunc, truncW=(TRUNC_MARGIN * Tq if regime_e else np.zeros((n, n))))


def check_case(c, oracle='auto', verbose=False, stats=None):
    from pyins import kalman
    fails, worst = [], [0.0]

    def cmp(what, err, units, **kw):
        tol = MARGIN * units
        ratio = err / tol if tol > 0 else (0.0 if err == 0 else math.inf)
        worst[0] = max(worst[0], ratio)
        if stats is not None:
            k = ('call sequence: ' + what.split('): ')[-1]) if what.startswith('call sequence') else \
                what.split(' (')[0].split(' of ')[0]
            stats[k] = max(stats.get(k, 0.0), ratio if math.isfinite(ratio) else 1e300)
        if verbose:
            print(f"  {what}: error {err:.3e}  tolerance {tol:.3e}")
        if not err <= tol:
            fails.append((what, dict(error=err, tolerance=tol, **kw)))

    order = c.get('order', 'C')
    F = np.array(c['F'], dtype=float, order=order)
    Q = np.array(c['Q'], dtype=float, order=order)
    dt = float(c['dt'])
    n = len(F)
    # what the implementation is called with: the same values, possibly integer-typed
    Fc = np.array(F, dtype=np.int64, order=order) if c.get('intF') else F
    as_t = (lambda t: int(t)) if (c.get('intdt') and float(dt).is_integer()) else (lambda t: t)
    snap = (Fc.tobytes(), Q.tobytes())

    def call(t):
        out = kalman.compute_process_matrices(Fc, Q, as_t(t) if t == dt else t)
        return np.asarray(out[0], float), np.asarray(out[1], float)
    try:
        Phi, Qd = call(dt)
    except Exception as ex:
        return [("compute_process_matrices raised " + type(ex).__name__ + ": " + str(ex)[:200], {})], math.inf
    if (Fc.tobytes(), Q.tobytes()) != snap:
        fails.append(("inputs were modified by compute_process_matrices", dict(order=order)))
    if Phi.shape != (n, n) or Qd.shape != (n, n) or not (np.isfinite(Phi).all() and np.isfinite(Qd).all()):
        return fails + [("output shape / non-finite output", {})], math.inf
    sc = _scale(F, Q, dt)
    if stats is not None and sc['regime']:
        stats['_regime_cases'] = stats.get('_regime_cases', 0) + 1
    # exact zero step
    if dt == 0.0:
        if not (np.array_equal(Phi, np.eye(n)) and not Qd.any()):
            fails.append(("zero step: Phi != I or Qd != 0 exactly", dict(Phi=Phi.tolist(), Qd=Qd.tolist())))
    # Phi, Qd against the oracle
    if oracle == 'auto':
        oracle = 'fraction' if (n <= 2 and sc['nx'] <= 1.0) else \
            ('dyadic' if n <= c.get('exact_nmax', 8) else 'float')
    ref = dict(fraction=phi_qd_fraction, dyadic=phi_qd_dyadic, float=phi_qd_float)[oracle]
    Pr, Qr = ref(F, Q, dt)
    slack = 3.0 if oracle == 'float' else 1.0
    cmp(f"Phi != exp(F dt) ({oracle} oracle)", float(np.abs(Phi - Pr).max(initial=0.0)), slack * sc['bPhi'])
    cmp(f"Qd != integral of exp(F u) Q exp(F^T u) ({oracle} oracle)", float(np.abs(Qd - Qr).max(initial=0.0)),
        slack * sc['bQd'])
    # every entry relative to the magnitude of ITS OWN rows (W_ij = max of the two variance majorants), not to the
    # norm of Qd: a weakly driven block next to a strongly driven one must keep its noise
    # floor: a state that no noise reaches gets the product of two rounding-level entries, (eps |E|)^2 times the
    # largest variance -- second order, 22+ decades below it
    Wt = slack * (MARGIN_E * sc['uW'] * sc['W'] + sc['truncW']) \
        + FLOOR2 * sc['uW'] ** 2 * float(sc['W'].max(initial=0.0)) + 1e-300
    cmp(f"Qd != integral of exp(F u) Q exp(F^T u) entry by entry, relative to the magnitude of each entry "
        f"({oracle} oracle), in units of the entrywise tolerance", float((np.abs(Qd - Qr) / Wt).max(initial=0.0)), 1.0 / MARGIN)
    # symmetric, PSD
    cmp("Qd not symmetric", float(np.abs(Qd - Qd.T).max(initial=0.0)), sc['bQd'])
    if n:
        cmp("Qd not positive semidefinite", max(0.0, -float(np.linalg.eigvalsh((Qd + Qd.T) / 2)[0])),
            n * sc['bQd'])
    # calls in a row on the SAME F and Q buffers, updated in place in between (the usual preallocated-buffer
    # loop), with the same dt: the result depends only on the current argument values
    if c.get('seq') and dt > 0.0:
        Fb, Qb = np.array(F, copy=True), np.array(Q, copy=True)
        try:
            kalman.compute_process_matrices(Fb, Qb, dt)
            for k, op in enumerate(c['seq']):
                if op == 'scaleF':
                    Fb *= 0.5
                elif op == 'negF':
                    Fb *= -1.0
                elif op == 'zeroF':
                    Fb[:] = 0.0
                elif op == 'scaleQ':
                    Qb *= 4.0
                elif op == 'otherdt':
                    kalman.compute_process_matrices(Fb, Qb, 0.5 * dt)
                o2 = kalman.compute_process_matrices(Fb, Qb, dt)
                P2, Q2 = np.asarray(o2[0], float), np.asarray(o2[1], float)
                s2 = _scale(Fb, Qb, dt)
                Pr2, Qr2 = ref(Fb, Qb, dt) if oracle != 'fraction' else phi_qd_dyadic(Fb, Qb, dt)
                lab = f"call sequence (F, Q updated in place: {'+'.join(c['seq'][:k + 1])}, same dt): "
                cmp(lab + "Phi != exp(F dt) of the current arguments", float(np.abs(P2 - Pr2).max(initial=0.0)),
                    slack * s2['bPhi'])
                cmp(lab + "Qd != integral for the current arguments", float(np.abs(Q2 - Qr2).max(initial=0.0)),
                    slack * s2['bQd'])
        except Exception as ex:
            fails.append((f"call sequence {c['seq']}: compute_process_matrices raised {type(ex).__name__}: "
                          f"{str(ex)[:160]}", {}))
    # linearity in Q (power-of-two factor: c * Qd is exact) and Phi independent of Q
    lin = float(c.get('lin') or 0.0)
    if lin and Q.any():
        try:
            out = kalman.compute_process_matrices(Fc, Q * lin, as_t(dt))
            Phi2, Qd2 = np.asarray(out[0], float), np.asarray(out[1], float)
        except Exception as ex:
            fails.append((f"compute_process_matrices raised {type(ex).__name__} for Q scaled by {lin!r}", {}))
            return fails, math.inf
        s2 = _scale(F, Q * lin, dt)
        cmp("Qd is not linear in Q: Qd(c Q) != c Qd(Q)", float(np.abs(Qd2 - lin * Qd).max(initial=0.0)),
            s2['bQd'] + lin * sc['bQd'], factor=lin)
        cmp("Phi depends on Q", float(np.abs(Phi2 - Phi).max(initial=0.0)), s2['bPhi'] + sc['bPhi'], factor=lin)
    # composition over the partition (first sub-step first)
    parts = [float(t) for t in c.get('parts') or []]
    if len(parts) > 1 and dt > 0.0:
        P0 = np.asarray(c['P0'], float)
        Pacc, Qacc, P = np.eye(n), np.zeros((n, n)), P0.copy()
        bP, bQ = 0.0, 0.0
        for t in parts:
            try:
                Pj, Qj = call(t)
            except Exception as ex:
                fails.append((f"compute_process_matrices raised {type(ex).__name__} on sub-step {t!r}", {}))
                return fails, math.inf
            sj = _scale(F, Q, t)
            nPj, nPa, nQa = _n1(Pj), _n1(Pacc), _n1(Qacc)
            bQ = nPj * nPj * bQ + 2 * sj['bPhi'] * nPj * nQa + sj['bQd'] + EPS * n * (nPj * nPj * nQa + _n1(Qj))
            bP = nPj * bP + sj['bPhi'] * nPa + EPS * n * nPj * nPa
            Qacc = Pj @ Qacc @ Pj.T + Qj
            Pacc = Pj @ Pacc
            P = Pj @ P @ Pj.T + Qj
        k = len(parts)
        cmp(f"transitions of {k} sub-steps do not multiply to the transition of the whole step",
            float(np.abs(Pacc - Phi).max(initial=0.0)), bP + sc['bPhi'], parts=parts)
        cmp(f"noise of {k} sub-steps does not accumulate to the noise of the whole step",
            float(np.abs(Qacc - Qd).max(initial=0.0)), bQ + sc['bQd'], parts=parts)
        one = Phi @ P0 @ Phi.T + Qd
        nP0, nPhi = _n1(P0), _n1(Phi)
        cmp(f"covariance propagated over {k} sub-steps differs from one step",
            float(np.abs(P - one).max(initial=0.0)),
            bQ + sc['bQd'] + 2 * (bP + sc['bPhi']) * max(nPhi, _n1(Pacc)) * nP0 + EPS * n * nPhi * nPhi * nP0,
            parts=parts)
    return fails, worst[0]



# ---------------------------------------------------------------------------
# the anchor filters._compute_error_propagation_matrices: assembly of the joint INS + sensor-parameter
# dynamics F, noise input G, intensities q, and the call of compute_process_matrices

PVA_COLS = ['lat', 'lon', 'alt', 'VN', 'VE', 'VD', 'roll', 'pitch', 'heading']
ASM_TOL_SCALED = 1e-9        # assembly: |Qd - Qd_own|_ij <= tol sqrt(Qd_own_ii Qd_own_jj)  (same discretisation)


def _gen_sensor(rng, mag, force_walk):
    """public parameters of one EstimationModel: per-axis values, non-positive = disabled"""
    style = 'full' if force_walk else rng.choice(['none', 'bias', 'full', 'random', 'random', 'random'])
    if style == 'none':
        return dict(bias_sd=None, noise=None, bias_walk=None, scale_misal_sd=None)
    ax = lambda lo, hi: [10 ** rng.uniform(lo, hi) for _ in range(3)]
    bias, noise, walk = ax(*mag['bias']), ax(*mag['noise']), ax(*mag['walk'])
    sm = [[10 ** rng.uniform(*mag['sm']) for _ in range(3)] for _ in range(3)]
    if style == 'bias':
        noise, walk, sm = None, None, None
    elif style == 'random':
        bias = [b if rng.random() < 0.65 else 0.0 for b in bias]
        walk = [w if (b > 0 and rng.random() < 0.6) else 0.0 for w, b in zip(walk, bias)]
        noise = [v if rng.random() < 0.6 else (0.0 if rng.random() < 0.7 else -1.0) for v in noise]
        sm = [[v if rng.random() < 0.3 else 0.0 for v in row] for row in sm] if rng.random() < 0.6 else None
    else:
        if rng.random() < 0.5:
            sm = None
    return dict(bias_sd=bias, noise=noise, bias_walk=walk, scale_misal_sd=sm)


GYRO_MAG = dict(bias=(-6, -4), noise=(-6, -4), walk=(-9, -6), sm=(-4, -2.5))
ACCEL_MAG = dict(bias=(-3, -1), noise=(-4, -2), walk=(-6, -3), sm=(-4, -2.5))


def make_assembly_case(rng, idx):
    both = rng.random() < 0.5                     # bias walk on both sensors, different intensities
    return dict(idx=idx, kind='assembly', with_altitude=rng.random() < 0.7,
                gyro_model=_gen_sensor(rng, GYRO_MAG, both), accel_model=_gen_sensor(rng, ACCEL_MAG, both),
                pva=[rng.uniform(-80, 80), rng.uniform(-180, 180), rng.uniform(-100, 5000),
                     rng.uniform(-50, 50), rng.uniform(-50, 50), rng.uniform(-5, 5),
                     rng.uniform(-30, 30), rng.uniform(-30, 30), rng.uniform(-180, 180)],
                gyro=[rng.uniform(-0.5, 0.5) for _ in range(3)],
                accel=[rng.gauss(0, 3), rng.gauss(0, 3), -9.8 + rng.gauss(0, 3)],
                dt=10 ** rng.uniform(-2, 1))


def _par(spec, name, shape):
    v = spec.get(name)
    a = np.zeros(shape) if v is None else np.array(v, dtype=float).reshape(shape)
    return np.where(a > 0, a, 0.0)


def _sensor_states(spec):
    """state layout from the PUBLIC parameters (docstring of EstimationModel): one bias state per axis with
    bias_sd > 0, then one scale/misalignment state per (output, input) pair with scale_misal_sd > 0"""
    bias, sm = _par(spec, 'bias_sd', (3,)), _par(spec, 'scale_misal_sd', (3, 3))
    st = [('bias', a, None) for a in range(3) if bias[a] > 0]
    st += [('sm', o, i) for o in range(3) for i in range(3) if sm[o, i] > 0]
    return st


def own_continuous(error_model, gspec, aspec, pva, gyro, accel):
    """joint dynamics F and continuous noise density Qc, written from the models' public parameters:
      d(ins)/dt = Fii ins + Fig e_gyro + Fia e_accel,
      e = bias + (scale/misalignment) readings + white noise of root-PSD `noise`,
      d(bias)/dt = white noise of root-PSD `bias_walk`, scale/misalignment constant."""
    Fii, Fig, Fia = error_model.system_matrices(pva)
    ni = Fii.shape[0]
    gs, as_ = _sensor_states(gspec), _sensor_states(aspec)
    n = ni + len(gs) + len(as_)
    F = np.zeros((n, n))
    Qc = np.zeros((n, n))
    F[:ni, :ni] = Fii
    for off, states, B, spec, rd in ((ni, gs, Fig, gspec, gyro), (ni + len(gs), as_, Fia, aspec, accel)):
        walk = _par(spec, 'bias_walk', (3,))
        noise = _par(spec, 'noise', (3,))
        for k, (kind, o, i) in enumerate(states):
            if kind == 'bias':
                F[:ni, off + k] = B[:, o]
                Qc[off + k, off + k] = walk[o] ** 2
            else:
                F[:ni, off + k] = B[:, o] * rd[i]
        Qc[:ni, :ni] += (B * noise ** 2) @ B.T
    return F, (Qc + Qc.T) / 2


_GL = np.polynomial.legendre.leggauss(24)


def own_quadrature(F, Qc, dt, panels=2):
    """Phi = exp(F dt), Qd = int_0^dt exp(F s) Qc exp(F^T s) ds by Gauss-Legendre quadrature of the definition"""
    n = len(F)
    Qd = np.zeros((n, n))
    for p in range(panels):
        lo, hi = dt * p / panels, dt * (p + 1) / panels
        for xk, wk in zip(*_GL):
            E = sla.expm(F * (0.5 * (hi - lo) * xk + 0.5 * (hi + lo)))
            Qd += (wk * 0.5 * (hi - lo)) * (E @ Qc @ E.T)
    return sla.expm(F * dt), (Qd + Qd.T) / 2


def check_assembly(c, verbose=False, stats=None):
    import pandas as pd
    from pyins import filters, kalman, inertial_sensor, error_model as em
    fails, worst = [], [0.0]

    def cmp(what, err, tol, **kw):
        ratio = err / tol if tol > 0 else (0.0 if err == 0 else math.inf)
        worst[0] = max(worst[0], ratio)
        if stats is not None:
            stats[what] = max(stats.get(what, 0.0), ratio if math.isfinite(ratio) else 1e300)
        if verbose:
            print(f"  {what}: error {err:.3e}  tolerance {tol:.3e}")
        if not err <= tol:
            fails.append((what, dict(error=err, tolerance=tol, **kw)))

    dt = float(c['dt'])
    pva = pd.Series([float(v) for v in c['pva']], index=PVA_COLS)
    gyro, accel = np.array(c['gyro'], float), np.array(c['accel'], float)
    emod = em.InsErrorModel(with_altitude=bool(c['with_altitude']))
    try:
        gm = inertial_sensor.EstimationModel(**c['gyro_model'])
        am = inertial_sensor.EstimationModel(**c['accel_model'])
        Phi, Qd = filters._compute_error_propagation_matrices(pva, gyro, accel, dt, emod, gm, am)
        Phi, Qd = np.asarray(Phi, float), np.asarray(Qd, float)
    except Exception as ex:
        return [("_compute_error_propagation_matrices raised " + type(ex).__name__ + ": " + str(ex)[:200], {})], \
            math.inf
    F, Qc = own_continuous(emod, c['gyro_model'], c['accel_model'], pva, gyro, accel)
    n = len(F)
    if Phi.shape != (n, n) or Qd.shape != (n, n):
        return [("assembly: state dimension differs from the models' public parameters",
                 dict(shape=list(Phi.shape), expected=n))], math.inf
    # (a) the assembly alone: same discretisation (the implementation's own) of the independently built F, Qc
    Pv, Qv = kalman.compute_process_matrices(F, Qc, dt)
    Pv, Qv = np.asarray(Pv, float), np.asarray(Qv, float)
    # entry by entry: relative to sqrt(Qd_ii Qd_jj), plus ONE rounding unit of the discretisation (both sides run
    # the same algorithm on inputs that differ by rounding; entries below that unit are not determined by it)
    sc = _scale(F, Qc, dt)
    d = np.sqrt(np.clip(np.diag(Qv), 0.0, None))
    cmp("assembly: Qd differs from the discretisation of the continuous model built from the sensor models' "
        "public parameters (entry by entry, relative to sqrt(Qd_ii Qd_jj))",
        float((np.abs(Qd - Qv) / (ASM_TOL_SCALED * np.outer(d, d) + sc['rounding'] + 1e-300)).max()), 1.0)
    cmp("assembly: Phi differs from the transition of the continuous model built from the public parameters",
        float(np.abs(Phi - Pv).max()), ASM_TOL_SCALED * max(1.0, float(np.abs(Pv).max())))
    # (b) against the quadrature of the definition (no Van Loan), with the rounding model of the random cases
    if stats is not None and sc['regime']:
        stats['_regime_cases'] = stats.get('_regime_cases', 0) + 1
    Pq, Qq = own_quadrature(F, Qc, dt)
    cmp("assembly: Phi != exp(F dt) of the own continuous model", float(np.abs(Phi - Pq).max()),
        3.0 * MARGIN * sc['bPhi'])
    cmp("assembly: Qd != Gauss-Legendre quadrature of exp(F s) Qc exp(F^T s) of the own continuous model",
        float(np.abs(Qd - Qq).max()), 3.0 * MARGIN * sc['bQd'])
    # (c) the same entry by entry, relative to the magnitude of the rows of each entry: the weakly driven sensor
    #     states (bias random walk 12+ decades below the accelerometer noise) must keep their noise
    Wt = 3.0 * (MARGIN_E * sc['uW'] * sc['W'] + sc['truncW']) \
        + FLOOR2 * sc['uW'] ** 2 * float(sc['W'].max(initial=0.0)) + 1e-300
    cmp("assembly: Qd != Gauss-Legendre quadrature entry by entry, relative to the magnitude of each entry, in units "
        "of the entrywise tolerance", float((np.abs(Qd - Qq) / Wt).max(initial=0.0)), 1.0)
    return fails, worst[0]

# ---------------------------------------------------------------------------

def _hexcase(c):
    out = {k: c[k] for k in ('idx', 'n', 'kind', 'rankQ', 'dclass', 'order', 'qscale', 'lin', 'exact_nmax', 'intF', 'intdt', 'seq') if k in c}
    for k in ('F', 'Q', 'P0'):
        a = np.asarray(c[k], dtype=float)
        out[k] = [float(v).hex() for v in a.ravel()]
        out[k + '_shape'] = list(a.shape)
    out['dt'] = float(c['dt']).hex()
    out['parts'] = [float(t).hex() for t in c.get('parts') or []]
    return out


def _unhex(o):
    c = dict(o)
    for k in ('F', 'Q', 'P0'):
        c[k] = np.array([float.fromhex(v) for v in o[k]]).reshape(o[k + '_shape'])
    c['dt'] = float.fromhex(o['dt'])
    c['parts'] = [float.fromhex(t) for t in o['parts']]
    return c


def numeric_statements(r, count, seed_off, nmax=24, exact_nmax=8):
    rng = random.Random(r.seed * 1000003 + seed_off)
    fails, worst, dist = [], 0.0, {}
    stats = {}
    for i in range(count):
        if i % 5 == 4:
            c = make_assembly_case(rng, i)
            f, w = check_assembly(c, stats=stats)
            worst = max(worst, w) if math.isfinite(w) else worst
            gw = any(x and x > 0 for x in (c['gyro_model']['bias_walk'] or []))
            aw = any(x and x > 0 for x in (c['accel_model']['bias_walk'] or []))
            r.case(('assembly', c['with_altitude'], gw, aw, i),
                   sample=dict(kind='assembly', gyro_model=c['gyro_model'], accel_model=c['accel_model'], dt=c['dt']))
            for k in ('assembly', 'assembly walk:' + ('both' if gw and aw else 'gyro' if gw else 'accel' if aw else 'none'),
                      'assembly altitude:' + str(bool(c['with_altitude']))):
                dist[k] = dist.get(k, 0) + 1
            for what, det in f:
                fails.append((what, dict(key='C08-numeric', case=c, detail=det)))
            continue
        c = make_case(rng, i, nmax)
        c['exact_nmax'] = exact_nmax
        f, w = check_case(c, stats=stats)
        worst = max(worst, w) if math.isfinite(w) else worst
        r.case((c['n'], c['kind'], c['rankQ'], c['dclass'], len(c['parts']), i),
               sample=dict(n=c['n'], F=c['kind'], rankQ=c['rankQ'], dt=c['dt'], substeps=len(c['parts'])))
        for k in (f"n={c['n']}", 'F:' + c['kind'], 'dt:' + c['dclass'], f"substeps={len(c['parts'])}",
                  'dtype F:' + ('int64' if c.get('intF') else 'float64'),
                  f"Qscale=1e{int(math.floor(math.log10(c['qscale']) / 4) * 4)}..",
                  'Q:' + ('zero' if c['rankQ'] == 0 else 'singular' if c['rankQ'] < c['n'] else 'full')):
            dist[k] = dist.get(k, 0) + 1
        for what, det in f:
            fails.append((what, dict(key='C08-numeric', case=_hexcase(c), detail=det)))
    dist['_known_finding_regime_cases'] = int(stats.pop('_regime_cases', 0))
    dist['_worst_ratio_by_statement'] = {k: float(f'{v:.3g}') for k, v in sorted(stats.items())}
    return fails, worst, dist


def check(r):
    import gen_mx
    r.trusted += [
        "translator tools/gen_mx.py (matrix-granularity symbolic tracing of kalman.compute_process_matrices; "
        "validated every run by an independent numpy interpreter of the IR against the real function, 60 inputs, 1e-9)",
        "scipy.linalg.expm is an opaque oracle: theorems instantiate it with the N-term exponential series (every N) "
        "or assume the laws vl_exp_laws of the exact exponential (proved for the formal series coefficientwise)",
        "binary64 rounding not modelled: theorems are over an arbitrary field of characteristic 0",
    ]
    r.assumptions += [
        "NOT proved: positive semidefiniteness of Qd in general (C08_noise_psd_partial covers the exact zero-dynamics "
        "instance only) -- checked numerically (eigvalsh) on the implementation",
        "NOT proved: scipy's Pade approximant equals the limit of the series up to rounding -- checked numerically "
        "against exact rational arithmetic",
    ]
    known = corpus_witnesses(r)                  # FIRST: the witnesses of the recorded findings
    ok = gen_mx.run_generate(r, ['Kalman'])
    gen_mx.prove_or_undischarged(r, ok, 'Props/C08.v')     # never proves against a stale Gen file
    n = 600 if r.tier == "quick" else 20000
    fails, worst, dist = numeric_statements(r, n, 8, nmax=24, exact_nmax=8 if r.tier == "quick" else 12)
    r.coverage['known_finding_regime_cases'] = dist.pop('_known_finding_regime_cases')
    r.coverage['distribution'] = dist
    r.coverage['numeric_support'] = dict(cases=n, failures=len(fails), margin_units=MARGIN,
                                         worst_error_over_tolerance=worst)
    r.log(f"numeric support: {n} cases ({r.coverage['known_finding_regime_cases']} in the regime of the recorded "
          f"finding), {len(fails)} failures, worst error/tolerance {worst:.2e}")
    for what, rep in fails[:5]:
        r.violation(what, rep)
    if r.tier == 'thorough' and ok:
        r.coqchk('Props/C08.v')
        r.hygiene('Props/C08.v')
    # the driver runs the falsifier only when NO violation at all was recorded; a recorded known finding
    # must not suppress it
    if r.breaks and known and len(r.violations) == known:
        r.log("running falsifier on the implementation (only known findings recorded so far) ...")
        r.falsified = True
        falsify(r)


KNOWN_KEY = 'van-loan-pade-order-tiny-Q'
CORPUS = os.path.join(os.path.dirname(os.path.dirname(os.path.dirname(os.path.abspath(__file__)))),
                      'corpus', 'C08-findings.json')


def witness_deviation(w):
    """relative error of the named entry of Qd against the exact rational value (pure Fractions)."""
    from pyins import kalman
    F, Q, dt = np.array(w['F'], float), np.array(w['Q'], float), float(w['dt'])
    i, j = w.get('entry', [0, 0])
    _, Qd = kalman.compute_process_matrices(F.copy(), Q.copy(), dt)
    _, Qx = phi_qd_fraction(F, Q, dt, terms=30)
    got, exact = float(np.asarray(Qd)[i, j]), float(Qx[i, j])
    return got, exact, (abs(got - exact) / abs(exact) if exact != 0 else (0.0 if got == 0 else math.inf))


def corpus_witnesses(r):
    """Recorded findings: when the implementation still shows the deviation, report it through the
    KNOWN-FINDING protocol (r.violation with the finding's key: the driver prints KNOWN-FINDING and does
    not count it); when it has disappeared, note that in the evidence.  Returns the number recorded."""
    import json
    rec, notes = 0, []
    if not os.path.exists(CORPUS):
        r.broken('harness', 'corpus', f"{CORPUS} is missing")
        return 0
    for w in json.load(open(CORPUS))['cases']:
        try:
            got, exact, rel = witness_deviation(w)
        except Exception as ex:
            r.violation(f"corpus witness {w['name']}: compute_process_matrices raised {type(ex).__name__}: {ex}",
                        dict(key='C08-numeric', corpus=w['name'], witness=w))
            continue
        r.case(('corpus', w['name']), sample=dict(corpus=w['name'], got=got, exact=exact, rel_err=rel))
        still = rel > float(w.get('rel_threshold', 1e-6))
        notes.append(dict(name=w['name'], key=w['expect'], got=got, exact=exact, rel_err=rel, still_deviates=still))
        if still and rel > float(w.get('rel_max', 0.02)):
            # far beyond the recorded deviation: something else is wrong -> an ordinary violation
            r.violation(f"corpus witness {w['name']}: Qd entry = {got!r} instead of {exact!r} (relative error {rel:.3e}, "
                        "far beyond the recorded finding)",
                        dict(key='C08-numeric', corpus=w['name'], witness=w, got=got, exact=exact, rel_err=rel))
            continue
        if still:
            i, j = w.get('entry', [0, 0])
            r.violation(f"Qd[{i},{j}] = {got!r} instead of {exact!r} (relative error {rel:.3e}): the Pade order scipy's "
                        "expm selects normwise drops a term that is not negligible against the E12 block",
                        dict(key=w['expect'], corpus=w['name'], witness=w, got=got, exact=exact, rel_err=rel))
            rec += 1
            r.log(f"corpus witness {w['name']}: deviation still present (rel. error {rel:.3e}) -> known finding "
                  f"{w['expect']}")
        else:
            r.notes.append(f"corpus witness {w['name']} of finding {w['expect']} no longer deviates "
                           f"(rel. error {rel:.3e}); the finding may be retired")
            r.log(f"corpus witness {w['name']}: the deviation has disappeared (rel. error {rel:.3e})")
    r.coverage['corpus_witnesses'] = notes
    return rec


def falsify(r):
    # always a search on the REAL function (independent of Gen/Kalman.v and of the translator)
    fails, worst, _ = numeric_statements(r, 3000, 88, nmax=8)
    r.log(f"falsifier: {len(fails)} failing checks, worst error/tolerance {worst:.2e}")
    seen = set()
    for what, rep in fails:
        k = what.split('(')[0].split(' of ')[0]
        if k in seen:
            continue
        seen.add(k)
        r.violation(what, rep)
        if len(seen) >= 5:
            break


def replay(obj):
    rep = obj.get('replay', obj)
    if 'witness' in rep:                    # a corpus witness (known finding)
        got, exact, rel = witness_deviation(rep['witness'])
        still = rel > float(rep['witness'].get('rel_threshold', 1e-6))
        print(f"C08 corpus witness {rep['witness'].get('name')}: Qd entry = {got!r}, exact = {exact!r}, "
              f"relative error {rel:.3e} -> " + ("still deviates" if still else "no longer deviates"))
        return 1 if still else 0
    if rep['case'].get('kind') == 'assembly':
        c = rep['case']
        print(f"C08 replay (assembly): gyro_model={c['gyro_model']} accel_model={c['accel_model']} dt={c['dt']!r} "
              f"with_altitude={c['with_altitude']}")
        fails, worst = check_assembly(c, verbose=True)
        for what, det in fails:
            print("FAILS:", what, det)
        print("still failing" if fails else "passes now")
        return 1 if fails else 0
    c = _unhex(rep['case'])
    print(f"C08 replay: n={c['n']} F:{c.get('kind')} rank Q={c.get('rankQ')} dt={c['dt']!r} "
          f"sub-steps={c['parts']}")
    from pyins import kalman
    try:
        Phi, Qd = kalman.compute_process_matrices(np.array(c['F']), np.array(c['Q']), c['dt'])
        print("implementation: Phi =\n", np.asarray(Phi), "\nQd =\n", np.asarray(Qd))
    except Exception as ex:
        print("implementation raised", type(ex).__name__, ex)
    if c['n'] <= 8:
        Pr, Qr = phi_qd_dyadic(c['F'], c['Q'], c['dt'])
        print("exact (dyadic rational) oracle: Phi =\n", Pr, "\nQd =\n", Qr)
    fails, worst = check_case(c, verbose=True)
    for what, det in fails:
        print("FAILS:", what, {k: v for k, v in det.items() if k != 'parts'})
    print("still failing" if fails else "passes now")
    return 1 if fails else 0
