"""C12 — Feedback filter: transparent without data, first-order equal to feedforward, re-runnable.

Proofs: Props/C12.v (Proofs/C12Proofs.v over Model/FeedbackSched.v, Model/Integrator.v,
Model/SensorModel.v, Model/FilterFlow.v).

On the implementation (this file):

 (1) TRANSPARENCY.  run_feedback_filter with measurements None / [] / only stamps outside
     [start, end) (before the start, exactly at the end, after the end; also measurement objects with
     empty tables) against strapdown.Integrator(initial, with_altitude).integrate(increments) of the
     same increments: the trajectory must be IDENTICAL BYTE FOR BYTE (values, index, columns), for
     time steps from below the IMU interval to above the whole span, random enable-masks of both sensor
     models (bias, walk, noise, scale/misalignment), both altitude modes, model objects that carry
     non-zero estimates from an earlier run.  The recorded calls are compared with the statements of
     the model: no kalman.correct, no set_pva, no update_estimates; the concatenation of the
     integrated batches is the increment table in order; every corrected batch equals the raw batch
     byte for byte (identity of correct_increments at reset estimates).
 (2) RE-RUN.  Each filter is run twice with the SAME model objects (the first run leaves non-zero
     estimates in them; the objects are additionally polluted by update_estimates with random values
     in between): every table of the second result is byte-identical to the first, and to a run with
     fresh model objects.
 (3) SMALL ERRORS.  One simulated data set in which every error source (initial pva error, sensor
     biases, measurement noise draws) and every sigma handed to the filters is multiplied by eps in
     {1, 0.1, 0.01, 0.001}.  v(eps) = (feedback - feedforward) / reported sd, row by row, for the
     trajectory, the sensor-parameter estimates and the relative sd difference.  The two loops
     discretise the same error dynamics differently (nonlinear re-integration against exp(F_avg dt)),
     which leaves an eps-independent part f in v (proportional to the time step; measured, bounded
     by FLOOR) next to the part that is of second order in the error size.  Checked with generous
     margins: the eps-dependent part w(eps) = v(eps) - v(eps/10) shrinks with log-log slope >= 0.7 over
     the three decades, |v| at the smallest eps is below FLOOR, and |v| never grows when eps shrinks.
"""
import os
import sys
import json
import math
import time
import random
import traceback
import collections

from props import C09 as S       # schedule generator, watchdog; sets BLAS threads to 1
from props import C11 as B       # data builders (masks, base trajectory)

import numpy as np

import common

RULE = ("transparency / re-run: schedules of props/C09.gen_schedule (1/128 s ticks; uniform / irregular / gapped "
        "sampling, 1..16 increments) x measurement modes {None, [], tables with stamps only outside [start, end), "
        "empty tables} x time_step from 1/8 of the sampling interval to 4x the span x random sensor-model masks "
        "(incl. scale/misalignment) x both altitude modes x model objects fresh / carrying estimates; small-error "
        "sweep: one 20 s manoeuvring data set per altitude mode with full sensor models + 12 s data sets with fixed partial "
        "enable masks (bias triads with a leading disabled axis, off-diagonal-only / partial-diagonal scale-misalignment) "
        "and masks drawn from the whole enable space + 6 s data sets on other time grids (time step not a multiple of / "
        "below the IMU period, non-uniform IMU sampling, no measurements, feedforward trajectory = every 2nd / 5th row of "
        "the integrated samples with scale-misalignment states), eps in {1, 0.1, 0.01, 0.001}; a case is distinct "
        "by (schedule key, masks, flags)")

DEN = B.DEN
FLOOR = 0.02          # bound on the eps-independent normalised disagreement (observed <= 2e-4)
SLOPE = 0.7
TABLES = ('trajectory', 'trajectory_sd', 'gyro', 'gyro_sd', 'accel', 'accel_sd')


# --------------------------------------------------------------------------------------
# helpers
# --------------------------------------------------------------------------------------
def frame_bytes(df):
    """canonical bytes of a DataFrame: values, index, column names"""
    import pandas as pd
    v = np.ascontiguousarray(np.asarray(df, dtype=float))
    idx = np.ascontiguousarray(np.asarray(df.index, dtype=float))
    cols = '|'.join(map(str, df.columns)) if isinstance(df, pd.DataFrame) else str(df.name)
    return v.tobytes() + b'#' + idx.tobytes() + b'#' + cols.encode() + b'#' + str(v.shape).encode()


def result_bytes(res):
    out = {n: frame_bytes(getattr(res, n)) for n in TABLES}
    for k in sorted(res.innovations):
        out['innovations.' + k] = frame_bytes(res.innovations[k])
    return out


def first_difference(a, b):
    """where two DataFrames differ (for the report)"""
    va, vb = np.asarray(a, dtype=float), np.asarray(b, dtype=float)
    if va.shape != vb.shape:
        return f"shape {va.shape} vs {vb.shape}"
    if list(a.index) != list(b.index):
        return "index differs"
    bad = np.argwhere(~((va == vb) | (np.isnan(va) & np.isnan(vb))))
    if len(bad):
        i, j = bad[0]
        return f"row {i} (t={a.index[i]}), column {a.columns[j]}: {va[i, j]!r} vs {vb[i, j]!r} ({len(bad)} entries differ)"
    if va.tobytes() != vb.tobytes():
        return "values equal as numbers but not as bytes (sign of zero / NaN payload)"
    return "columns / dtype differ"


def gen_case(rng, kind):
    """kind: 'transparent' | 'rerun'"""
    s = S.gen_schedule(rng, 'fb', 16)
    gm = B.gen_model_spec(rng, True)
    am = B.gen_model_spec(rng, True)
    c = dict(kind=kind, sched={k: v for k, v in s.items() if k != 'models'}, gm=gm, am=am,
             gscale=[10 ** rng.uniform(-5, -3.5), 10 ** rng.uniform(-6, -4), 10 ** rng.uniform(-8, -6), 10 ** rng.uniform(-4, -2.5)],
             ascale=[10 ** rng.uniform(-3, -1), 10 ** rng.uniform(-4, -2), 10 ** rng.uniform(-5, -3), 10 ** rng.uniform(-4, -2.5)],
             sig=[10 ** rng.uniform(-1, 2), 10 ** rng.uniform(-2, 1), 10 ** rng.uniform(-2, 0.5), 10 ** rng.uniform(-1.5, 1)],
             dirty=bool(rng.random() < 0.6), none_models=bool(rng.random() < 0.1))
    sc = c['sched']
    ep = sc['epochs']
    if kind == 'transparent':
        mode = rng.choice(['none', 'empty', 'outside', 'outside', 'empty-tables'])
        sensors = []
        if mode in ('outside', 'empty-tables'):
            order = list(S.CLS)
            rng.shuffle(order)
            for cls in order[:rng.randint(1, 3)]:
                ticks = []
                if mode == 'outside':
                    for _ in range(rng.randint(1, 4)):
                        ticks.append(rng.choice([ep[0] - rng.choice([1, 2, 17, 200]), ep[-1],
                                                 ep[-1] + rng.choice([1, 3, 40, 250])]))
                sensors.append([cls, sorted(set(ticks))])
        sc['sensors'] = sensors
        sc['meas_mode'] = 'list' if sensors else ('none' if mode == 'none' else 'empty')
        c['mode'] = mode
    else:
        c['mode'] = 'rerun'
        c['msd'] = [10 ** rng.uniform(-1, 1) for _ in sc['sensors']]
    return c


def key_of(c):
    return (c['kind'], c['mode'], S.key_of(dict(c['sched'], models=0)),
            tuple(c['gm']['bias'] + c['gm']['walk'] + c['gm']['noise'] + c['gm']['sm']),
            tuple(c['am']['bias'] + c['am']['walk'] + c['am']['noise'] + c['am']['sm']), c['dirty'], c['none_models'])


def build(c):
    import pandas as pd
    from pyins import strapdown, measurements, sim
    traj, imu = B.base()
    sc = c['sched']
    ep = sc['epochs']
    increments = strapdown.compute_increments_from_imu(imu.iloc[ep], 'rate')
    pva0 = traj.iloc[ep[0]]
    err = sim.generate_pva_error(3.0, 0.3, 0.2, 0.5, rng=7)
    initial = sim.perturb_pva(pva0, err)
    initial.name = pva0.name
    meas = None
    if sc['meas_mode'] == 'empty':
        meas = []
    elif sc['meas_mode'] == 'list':
        meas = []
        hi = len(traj) - 1
        for k, (cls, ticks) in enumerate(sc['sensors']):
            index = pd.Index([t / DEN for t in ticks], dtype=float, name='time')
            rows = traj.iloc[[min(max(t, 0), hi) for t in ticks]]
            sd = (c.get('msd') or [1.0] * 9)[k]
            cols = {'Position': ['lat', 'lon', 'alt'], 'NedVelocity': ['VN', 'VE', 'VD'], 'BodyVelocity': ['VX', 'VY', 'VZ']}[cls]
            gen = {'Position': sim.generate_position_measurements, 'NedVelocity': sim.generate_ned_velocity_measurements,
                   'BodyVelocity': sim.generate_body_velocity_measurements}[cls]
            data = gen(rows, sd, 11 + k) if ticks else pd.DataFrame(np.empty((0, 3)), columns=cols)
            data = pd.DataFrame(np.asarray(data, dtype=float), index=index, columns=cols)
            meas.append(getattr(measurements, cls)(data, sd))
    return dict(traj=traj, increments=increments, initial=initial, measurements=meas)


def models_of(c):
    if c['none_models']:
        return None, None
    return B.make_model(c['gm'], c['gscale']), B.make_model(c['am'], c['ascale'])


def pollute(model, rng):
    """leave arbitrary non-zero estimates in a model object (as an earlier run would)"""
    if model is None:
        return
    model.bias = np.array([rng.uniform(-1, 1) * 1e-2 for _ in range(3)])
    model.transform = np.identity(3) + np.array([[rng.uniform(-1, 1) * 1e-2 for _ in range(3)] for _ in range(3)])
    if model.n_states:
        model.update_estimates(np.array([rng.uniform(-1, 1) * 1e-3 for _ in range(model.n_states)]))


def fb_kwargs(c, inp, gm, am):
    sc = c['sched']
    kw = dict(time_step=sc['step'] / DEN, with_altitude=bool(sc['alt']))
    if gm is not None:
        kw.update(gyro_model=gm, accel_model=am)
    if sc['meas_mode'] != 'none':
        kw['measurements'] = inp['measurements']
    return kw


# --------------------------------------------------------------------------------------
# (1) transparency
# --------------------------------------------------------------------------------------
def work_transparent(c):
    out = dict(status='ok', fails=[], model=[])
    try:
        from pyins import filters, strapdown, kalman, inertial_sensor
        inp = build(c)
        sc = c['sched']
        rng = random.Random(hash(json.dumps(c['sched']['epochs'])) & 0xffff)
        gm, am = models_of(c)
        if c['dirty']:
            pollute(gm, rng)
            pollute(am, rng)
        plain = strapdown.Integrator(inp['initial'], bool(sc['alt'])).integrate(inp['increments'])
        # recorder
        log = dict(correct=0, set_pva=0, update=0, batches=[], raw=[], identity=True, deltas=[], ends=[])
        o_correct, o_set, o_upd = kalman.correct, strapdown.Integrator.set_pva, inertial_sensor.EstimationModel.update_estimates
        o_int, o_ci = strapdown.Integrator.integrate, filters._correct_increments

        def correct(*a, **k):
            log['correct'] += 1
            return o_correct(*a, **k)

        def set_pva(self, *a_, **k_):
            log['set_pva'] += 1
            return o_set(self, *a_, **k_)

        def upd(self, *a_, **k_):
            log['update'] += 1
            return o_upd(self, *a_, **k_)

        def integ(self, *a_, **k_):
            increments = B._pos(o_int, (self,) + a_, k_)[1]
            log['batches'].append(np.asarray(increments.index, dtype=float).tobytes())
            log['ends'].append((float(self.get_time()), float(increments.index[-1]) if len(increments) else float('nan')))
            return o_int(self, *a_, **k_)

        o_epm = filters._compute_error_propagation_matrices

        def epm(*a_, **k_):
            log['deltas'].append(float(B._pos(o_epm, a_, k_)[3]))
            return o_epm(*a_, **k_)

        def ci(*a_, **k_):
            increments = B._pos(o_ci, a_, k_)[0]
            res = o_ci(*a_, **k_)
            same = (np.asarray(res, dtype=float).tobytes() == np.asarray(increments, dtype=float).tobytes())
            if not same:
                log['identity'] = False
            return res
        nst = sum(len(t) for _, t in sc['sensors'])
        budget = 3 * (len(sc['epochs']) + nst * (1 + len(sc['sensors']))) + 8 * len(sc['sensors']) + 40
        kalman.correct, strapdown.Integrator.set_pva = correct, set_pva
        inertial_sensor.EstimationModel.update_estimates = upd
        strapdown.Integrator.integrate, filters._correct_increments = integ, ci
        filters._compute_error_propagation_matrices = epm
        try:
            with S.Watchdog([filters.run_feedback_filter.__code__], budget, 120):
                res = filters.run_feedback_filter(inp['initial'], *c['sig'], inp['increments'], **fb_kwargs(c, inp, gm, am))
        finally:
            kalman.correct, strapdown.Integrator.set_pva = o_correct, o_set
            inertial_sensor.EstimationModel.update_estimates = o_upd
            strapdown.Integrator.integrate, filters._correct_increments = o_int, o_ci
            filters._compute_error_propagation_matrices = o_epm
        # log['batches'][0] belongs to the plain integration? no: plain ran before patching
        if frame_bytes(res.trajectory) != frame_bytes(plain):
            out['fails'].append("feedback trajectory without measurements in [start, end) is not bit-identical to "
                                "Integrator.integrate of the same increments: " + first_difference(res.trajectory, plain))
        if log['correct'] or log['set_pva'] or log['update']:
            out['model'].append(f"calls without any measurement in the span: correct={log['correct']} set_pva={log['set_pva']} "
                                f"update_estimates={log['update']}")
        if b''.join(log['batches']) != np.asarray(inp['increments'].index, dtype=float).tobytes():
            out['model'].append("the concatenation of the integrated batches is not the increment table in order")
        spans = [b - a for a, b in log['ends']]
        if log['deltas'] != spans:
            bad = [(i, d, sp) for i, (d, sp) in enumerate(zip(log['deltas'], spans)) if d != sp][:3]
            out['model'].append("time_delta handed to _compute_error_propagation_matrices is not the integrator time after "
                                f"minus the time before the batch (call, time_delta, integrated span): {bad} "
                                f"({len(log['deltas'])} calls, {len(spans)} batches)")
        if not log['identity']:
            out['model'].append("_correct_increments with reset estimates changed the increments")
        for m in (gm, am):
            if m is not None and (np.any(m.bias != 0) or np.any(m.transform != np.identity(3))):
                out['model'].append("estimates are not at their reset values after a run without measurements")
        for n in ('gyro', 'accel'):
            if np.any(np.asarray(getattr(res, n), dtype=float) != 0):
                out['fails'].append(f"{n} estimates are not zero without measurements")
        out['n_batches'] = len(log['batches'])
    except S.NonTermination as e:
        out['status'] = 'nonterminating'
        out['fails'].append(f"run_feedback_filter does not terminate: {e}")
    except BaseException as e:
        out['status'] = 'exception'
        out['error'] = f"{type(e).__name__}: {e}\n{traceback.format_exc()[-1200:]}"
    return out


# --------------------------------------------------------------------------------------
# (2) re-run with the same model objects
# --------------------------------------------------------------------------------------
def work_rerun(c):
    out = dict(status='ok', fails=[], model=[])
    try:
        from pyins import filters, strapdown
        inp = build(c)
        sc = c['sched']
        rng = random.Random(len(sc['epochs']) * 977 + sc['step'])
        computed = strapdown.Integrator(inp['initial'], True).integrate(inp['increments'])

        def run_fb(gm, am):
            return filters.run_feedback_filter(inp['initial'], *c['sig'], inp['increments'], **fb_kwargs(c, inp, gm, am))

        def run_ff(gm, am):
            kw = fb_kwargs(c, inp, gm, am)
            kw['increments'] = inp['increments']
            return filters.run_feedforward_filter(computed, computed, *c['sig'], **kw)
        for name, runner in (('run_feedback_filter', run_fb), ('run_feedforward_filter', run_ff)):
            gm, am = models_of(dict(c, none_models=False))
            fresh = result_bytes(runner(*models_of(dict(c, none_models=False))))
            first = result_bytes(runner(gm, am))
            left = bool(np.any(gm.bias != 0) or np.any(am.bias != 0) or np.any(gm.transform != np.identity(3))
                        or np.any(am.transform != np.identity(3)))
            if c['dirty']:
                pollute(gm, rng)
                pollute(am, rng)
            second_res = runner(gm, am)
            second = result_bytes(second_res)
            out.setdefault('left_estimates', {})[name] = left
            for k in first:
                if first[k] != second.get(k):
                    out['fails'].append(f"{name}: second run with the same model objects differs from the first in {k}"
                                        + (" (after the objects were given other estimates)" if c['dirty'] else ""))
                    break
            for k in first:
                if first[k] != fresh.get(k):
                    out['fails'].append(f"{name}: run with fresh model objects differs from the first run in {k}")
                    break
            if name == 'run_feedforward_filter':
                if np.any(gm.bias != 0) or np.any(am.bias != 0) or np.any(gm.transform != np.identity(3)) \
                        or np.any(am.transform != np.identity(3)):
                    out['model'].append("run_feedforward_filter did not reset the estimates of the model objects")
    except BaseException as e:
        out['status'] = 'exception'
        out['error'] = f"{type(e).__name__}: {e}\n{traceback.format_exc()[-1200:]}"
    return out


# --------------------------------------------------------------------------------------
# (3) small-error agreement
# --------------------------------------------------------------------------------------
EPS = (1.0, 0.1, 0.01, 0.001)


# enable masks of the two sensor models used by the sweep (bias per axis, scale/misalignment per entry,
# row-major xx xy xz yx ...).  The fixed ones run on EVERY quick run: partial bias triads whose first
# enabled axis is preceded by a disabled one (state k is then NOT the bias of axis k), scale/misalignment
# sets with only off-diagonal / only some diagonal entries.
MASKS = {
    'full': dict(gb=[1, 1, 1], ab=[1, 1, 1], gs=[0] * 9, as_=[0] * 9),
    'g[x.z]a[.yz]': dict(gb=[1, 0, 1], ab=[0, 1, 1], gs=[0] * 9, as_=[0] * 9),
    'g[.yz]a[x.z]+sm-offdiag': dict(gb=[0, 1, 1], ab=[1, 0, 1], gs=[0, 1, 0, 1, 0, 0, 0, 1, 0], as_=[0, 0, 1, 0, 0, 0, 0, 1, 0]),
    'g[..z]a[.y.]+sm-diag-partial': dict(gb=[0, 0, 1], ab=[0, 1, 0], gs=[1, 0, 0, 0, 0, 0, 0, 0, 1], as_=[0] * 9),
}
FIXED_MASKS = ('g[x.z]a[.yz]', 'g[.yz]a[x.z]+sm-offdiag', 'g[..z]a[.y.]+sm-diag-partial')


def mask_of(name):
    """'rand:<k>' = the k-th mask of the whole enable space drawn deterministically"""
    if name in MASKS:
        return MASKS[name]
    rng = random.Random(int(name.split(':')[1]) * 7919 + 5)
    return dict(gb=[int(rng.random() < 0.6) for _ in range(3)], ab=[int(rng.random() < 0.6) for _ in range(3)],
                gs=[int(rng.random() < 0.25) for _ in range(9)], as_=[int(rng.random() < 0.25) for _ in range(9)])


# time-grid variants of the sweep.  dt0 = 1/64 s is the grid of the simulated truth; the IMU samples are a
# sub-set of it.  imu: ('uniform', stride) | ('nonuniform', [strides cycled]); step: covariance time step in s;
# meas: 'on' (epochs on IMU samples that are also rows of the feedforward trajectory) | 'none';
# sub: the feedforward filter gets every sub-th row of the computed trajectory (the increment table stays complete)
VARIANTS = {
    'base': dict(imu=('uniform', 2), step=0.25, meas='on', sub=1),
    'step-not-multiple': dict(imu=('uniform', 2), step=0.08, meas='on', sub=1),          # 2.56 IMU periods
    'step-below-imu': dict(imu=('uniform', 2), step=0.02, meas='on', sub=1),             # 0.64 IMU period
    'nonuniform-imu': dict(imu=('nonuniform', [1, 3, 2, 2, 5, 1, 2]), step=0.11, meas='on', sub=1),
    'no-measurements': dict(imu=('uniform', 2), step=0.08, meas='none', sub=1),
    'traj-every-2nd': dict(imu=('uniform', 2), step=0.08, meas='on', sub=2),
    'traj-every-5th': dict(imu=('uniform', 2), step=0.16, meas='on', sub=5),           # 5.12 IMU periods
}
DT0 = 1.0 / 64


def sweep_run(eps, alt, seed, mask='full', variant='base', T=20.0):
    """normalised signed disagreement vectors of one error scale"""
    var = VARIANTS[variant]
    step, sub = var['step'], var['sub']
    mk = mask_of(mask)
    gb, ab = np.array(mk['gb'], float), np.array(mk['ab'], float)
    gs, as_ = np.array(mk['gs'], float).reshape(3, 3), np.array(mk['as_'], float).reshape(3, 3)
    import pandas as pd
    from pyins import sim, strapdown, filters, measurements, inertial_sensor, earth
    # without altitude the filters assume level flight (VD = 0, constant altitude): the truth must satisfy it,
    # otherwise the un-modelled vertical motion is an error source that does not scale with eps
    vz = (0.2, 0.5) if alt else (0.0, 0.0)
    traj, imu = sim.generate_sine_velocity_motion(DT0, T, [50, 60, 100], [5, -3, vz[0]], [3, 3, vz[1]],
                                                  velocity_change_period=30)
    kind, strides = var['imu']
    sel, j = [0], 0
    while True:
        nxt = sel[-1] + (strides if kind == 'uniform' else strides[j % len(strides)])
        j += 1
        if nxt >= len(traj):
            break
        sel.append(nxt)
    traj, imu = traj.iloc[sel], imu.iloc[sel]
    rs = np.random.RandomState(1000 + seed)
    dirs = rs.uniform(-1, 1, size=15)
    dirs = np.sign(dirs) * (0.4 + 0.6 * np.abs(dirs))
    imu_e = imu.copy()
    # simulated sensor errors only where the models have a state (all errors scale with eps)
    sg = np.random.RandomState(2000 + seed).uniform(-1, 1, size=(3, 3))
    sa = np.random.RandomState(3000 + seed).uniform(-1, 1, size=(3, 3))
    G_ = np.asarray(imu[['gyro_x', 'gyro_y', 'gyro_z']], dtype=float)
    A_acc = np.asarray(imu[['accel_x', 'accel_y', 'accel_z']], dtype=float)
    imu_e[['gyro_x', 'gyro_y', 'gyro_z']] = G_ + G_.dot((eps * 1e-3 * sg * gs).T) + eps * 1e-4 * dirs[0:3] * gb
    imu_e[['accel_x', 'accel_y', 'accel_z']] = A_acc + A_acc.dot((eps * 1e-3 * sa * as_).T) + eps * 0.02 * dirs[3:6] * ab
    inc = strapdown.compute_increments_from_imu(imu_e, 'rate')
    err = pd.Series(eps * np.array([15, 15, 8, 0.4, 0.4, 0.2, 0.25, 0.25, 0.8]) * dirs[6:15],
                    index=['north', 'east', 'down', 'VN', 'VE', 'VD', 'roll', 'pitch', 'heading'])
    init = sim.perturb_pva(traj.iloc[0], err)
    init.name = traj.index[0]
    # measurement epochs: about one per second, on IMU samples whose row number is a multiple of `sub`
    per = max(sub, int(round(1.0 / (float(traj.index[-1]) / (len(traj) - 1)))) // sub * sub)
    rows = traj.iloc[per::per]
    rows = rows[rows.index < traj.index[-1]]
    pos = sim.generate_position_measurements(rows, eps * 1.0, rng=np.random.RandomState(seed))
    vel = sim.generate_ned_velocity_measurements(rows.iloc[::2], eps * 0.1, rng=np.random.RandomState(seed + 1))

    def meas():
        if var['meas'] == 'none':
            return []
        return [measurements.Position(pos, eps * 1.0), measurements.NedVelocity(vel, eps * 0.1)]

    def models():
        return (inertial_sensor.EstimationModel(bias_sd=eps * 1e-4 * gb, noise=eps * 1e-6, bias_walk=eps * 1e-7 * gb,
                                                scale_misal_sd=eps * 1e-3 * gs),
                inertial_sensor.EstimationModel(bias_sd=eps * 0.02 * ab, noise=eps * 1e-4,
                                                scale_misal_sd=eps * 1e-3 * as_))
    sds = (eps * 20, eps * 0.5, eps * 0.3, eps * 1.0)
    g, a = models()
    fb = filters.run_feedback_filter(init, *sds, inc, g, a, measurements=meas(), time_step=step, with_altitude=alt)
    comp = strapdown.Integrator(init, alt).integrate(inc)
    g2, a2 = models()
    comp_ff = comp.iloc[::sub]
    ff = filters.run_feedforward_filter(comp_ff, comp_ff, *sds, g2, a2, measurements=meas(), increments=inc,
                                        time_step=step, with_altitude=alt)
    idx = ff.trajectory.index.intersection(fb.trajectory_sd.index)
    if sub == 1 and (len(idx) != len(ff.trajectory.index) or len(idx) != len(fb.trajectory_sd.index)):
        raise RuntimeError("the two filters record different time grids on the same samples: "
                           f"{len(ff.trajectory.index)} feedforward rows, {len(fb.trajectory_sd.index)} feedback rows, "
                           f"{len(idx)} common")
    A_, B_, S_ = fb.trajectory.loc[idx], ff.trajectory.loc[idx], ff.trajectory_sd.loc[idx]
    rn, _, rp = earth.principal_radii(B_.lat, B_.alt)
    DEG = math.pi / 180
    d = np.column_stack([(A_.lat - B_.lat) * DEG * rn, (A_.lon - B_.lon) * DEG * rp, A_.alt - B_.alt] +
                        [A_[c] - B_[c] for c in ['VN', 'VE', 'VD', 'roll', 'pitch', 'heading']])
    Sv = np.asarray(S_, dtype=float)
    keep = [0, 1, 2, 3, 4, 5, 6, 7, 8] if alt else [0, 1, 3, 4, 6, 7, 8]
    vt = (d[:, keep] / Sv[:, keep])[1:]
    if list(fb.gyro.columns) != list(ff.gyro.columns) or list(fb.accel.columns) != list(ff.accel.columns):
        raise RuntimeError(f"estimate tables of the two filters have different columns: {list(fb.gyro.columns)} "
                           f"{list(ff.gyro.columns)} {list(fb.accel.columns)} {list(ff.accel.columns)}")
    vg = ((np.asarray(fb.gyro.loc[idx], dtype=float) - np.asarray(ff.gyro.loc[idx], dtype=float)) / np.asarray(ff.gyro_sd.loc[idx], dtype=float))[1:]
    va = ((np.asarray(fb.accel.loc[idx], dtype=float) - np.asarray(ff.accel.loc[idx], dtype=float)) / np.asarray(ff.accel_sd.loc[idx], dtype=float))[1:]
    Sf = np.asarray(fb.trajectory_sd.loc[idx], dtype=float)
    vs = (Sf[:, keep] / Sv[:, keep] - 1.0)[1:]
    vgs = (np.asarray(fb.gyro_sd.loc[idx], dtype=float) / np.asarray(ff.gyro_sd.loc[idx], dtype=float) - 1.0)[1:]
    vas = (np.asarray(fb.accel_sd.loc[idx], dtype=float) / np.asarray(ff.accel_sd.loc[idx], dtype=float) - 1.0)[1:]
    return dict(trajectory=vt, params=np.hstack([vg, va]), sd=np.hstack([vs, vgs, vas]), rows=len(idx))


def rms(v):
    return float(np.sqrt(np.mean(np.square(v)))) if v.size else 0.0


def sweep_job(alt, seed, mask='full', T=20.0, variant='base'):
    return (bool(alt), int(seed), str(mask), float(T), str(variant))


def work_sweep(job):
    job = tuple(job)
    alt, seed = job[0], job[1]
    mask = job[2] if len(job) > 2 else 'full'
    T = job[3] if len(job) > 3 else 20.0
    variant = job[4] if len(job) > 4 else 'base'
    out = dict(status='ok', fails=[], alt=alt, seed=seed, mask=mask, T=T, variant=variant, masks=mask_of(mask),
               grid=VARIANTS[variant])
    try:
        runs = [sweep_run(e, alt, seed, mask=mask, variant=variant, T=T) for e in EPS]
        if len({r_['rows'] for r_ in runs}) != 1 or runs[0]['rows'] < 10:
            out['status'] = 'harness-error'
            out['error'] = 'the two filters have too few common rows'
            return out
        table = {}
        for fld in ('trajectory', 'params', 'sd'):
            v = [r_[fld] for r_ in runs]
            if not all(np.isfinite(x).all() for x in v):
                out['fails'].append(f"{fld}: non-finite normalised disagreement")
                continue
            lv = [rms(x) for x in v]
            w = [rms(v[i] - v[i + 1]) for i in range(len(EPS) - 1)]
            xs = np.log10(EPS[:-1])
            slope = float(np.polyfit(xs, np.log10(np.maximum(w, 1e-300)), 1)[0]) if min(w) > 0 else float('inf')
            table[fld] = dict(level=lv, eps_dependent=w, slope=slope)
            if slope < SLOPE:
                out['fails'].append(f"{fld}: the error-dependent part of the normalised feedback/feedforward disagreement does "
                                    f"not shrink with the error scale: {['%.2e' % x for x in w]} for eps={list(EPS[:-1])} "
                                    f"(log-log slope {slope:.2f} < {SLOPE})")
            if lv[-1] > FLOOR:
                out['fails'].append(f"{fld}: feedback and feedforward results differ by {lv[-1]:.3g} reported standard "
                                    f"deviations (rms) at error scale {EPS[-1]} (bound {FLOOR})")
            if any(lv[i + 1] > 2.0 * lv[i] + 1e-3 for i in range(len(lv) - 1)):
                out['fails'].append(f"{fld}: the normalised disagreement grows when the errors shrink: {['%.2e' % x for x in lv]}")
        out['table'] = table
    except BaseException as e:
        out['status'] = 'exception'
        out['error'] = f"{type(e).__name__}: {e}\n{traceback.format_exc()[-1200:]}"
    return out


# --------------------------------------------------------------------------------------
# driver
# --------------------------------------------------------------------------------------
def _work_inner(c):
    if isinstance(c, (tuple, list)):
        return work_sweep(tuple(c))
    return work_transparent(c) if c['kind'] == 'transparent' else work_rerun(c)


# ---- line coverage of the implementation functions the models claim to cover (tools/linecov.py) ----
# the only line that may stay unreached, with the reason:
COV_ALLOW = ('assert False',)   # EstimationModel.correct_increments: defensive `else: assert False` after the
#                                 DataFrame / Series cases; the filters only pass DataFrames and Series


def cov_functions():
    """the ORIGINAL function objects (call before any wrapper is installed)"""
    from pyins import filters, inertial_sensor, error_model
    E = inertial_sensor.EstimationModel
    return {'filters.run_feedback_filter': filters.run_feedback_filter,
            'filters._correct_increments': filters._correct_increments,
            'EstimationModel.reset_estimates': E.reset_estimates,
            'EstimationModel.update_estimates': E.update_estimates,
            'EstimationModel.get_estimates': E.get_estimates,
            'EstimationModel.correct_increments': E.correct_increments,
            'InsErrorModel.correct_pva': error_model.InsErrorModel.correct_pva}


def _work(c):
    import linecov
    if isinstance(c, (tuple, list)):         # the error-scale sweep is long and adds no new lines: not monitored
        return _work_inner(c)
    cov = linecov.LineCoverage(cov_functions())
    with cov:
        measured = cov.active
        o = _work_inner(c)
    if measured:
        o['cov'] = {k: sorted(v) for k, v in cov.hit.items()}
    return o


def corpus():
    """fixed cases, run first, that reach every branch of the covered functions whatever the seed: default
    models / measurements None / []; step below the sampling interval and above the span; a measurement epoch
    with bias and scale-misalignment states (update / get: both kinds of state; correct_increments: Series and
    DataFrame; correct_pva: both altitude modes); a sensor without any stamp in the span next to sensors with."""
    ep = [512, 528, 544, 560, 576]
    none = dict(bias=[0, 0, 0], walk=[0, 0, 0], noise=[0, 0, 0], sm=[0] * 9)
    full = dict(bias=[1, 1, 1], walk=[1, 0, 1], noise=[1, 1, 0], sm=[1, 0, 0, 0, 1, 0, 1, 0, 1])
    bias = dict(bias=[1, 0, 1], walk=[0, 0, 0], noise=[0, 1, 0], sm=[0] * 9)
    base_ = dict(gscale=[1e-4, 1e-5, 1e-7, 1e-3], ascale=[1e-2, 1e-3, 1e-4, 1e-3], sig=[10.0, 1.0, 0.5, 2.0])

    def sched(**k):
        d = dict(filter='fb', epochs=ep, sensors=[], meas_mode='none', step=1, alt=True, cats=['corpus'])
        d.update(k)
        return d
    meas = [['Position', [530, 545]], ['NedVelocity', [100]], ['BodyVelocity', [528]]]
    return [
        dict(base_, kind='transparent', mode='none', sched=sched(), gm=none, am=none, dirty=False, none_models=True),
        dict(base_, kind='transparent', mode='empty', sched=sched(meas_mode='empty', alt=False, step=1000),
             gm=full, am=bias, dirty=True, none_models=False),
        dict(base_, kind='rerun', mode='rerun', sched=sched(meas_mode='list', sensors=meas, step=16),
             gm=full, am=bias, dirty=True, none_models=False, msd=[1.0, 0.3, 0.2]),
        dict(base_, kind='rerun', mode='rerun', sched=sched(meas_mode='list', sensors=meas, step=16, alt=False),
             gm=bias, am=full, dirty=False, none_models=False, msd=[1.0, 0.3, 0.2]),
    ]


def error_probes():
    """the documented ValueError of update_estimates (wrong length).  Returns (problems, hit lines, measured)."""
    import linecov
    problems = []
    cov = linecov.LineCoverage(cov_functions())
    with cov:
        active = cov.active
        m = B.make_model(dict(bias=[1, 1, 1], walk=[0, 0, 0], noise=[0, 0, 0], sm=[0] * 9), [1e-4, 1e-5, 1e-7, 1e-3])
        try:
            m.update_estimates(np.zeros(m.n_states + 1))
            problems.append("update_estimates accepts a vector of the wrong length")
        except ValueError:
            pass
    return problems, {k: sorted(v) for k, v in cov.hit.items()}, active


def cov_finish(r, cov, active):
    if not active:
        r.log("line coverage: sys.monitoring tool id not available, not measured")
        r.coverage['code_lines'] = dict(measured=False)
        return
    summ, missing = cov.report(allow=COV_ALLOW)
    r.coverage['code_lines'] = dict(measured=True, functions=summ, allowed_unreached=list(COV_ALLOW))
    tot = sum(v['executable'] for v in summ.values())
    got = sum(v['executed'] for v in summ.values())
    r.log(f"line coverage of the modelled implementation functions: {got}/{tot} executable lines executed, "
          f"{len(missing)} unexpected unreached")
    if missing:
        r.broken('correspondence', 'code line not exercised',
                 "the generated cases never execute these lines of the code the model claims to cover: "
                 + "; ".join(missing))


def run_many(cases, jobs=None):
    import multiprocessing
    jobs = jobs or int(os.environ.get('VERIF_JOBS', '0')) or max(1, min(8, (os.cpu_count() or 2) // 2))
    if jobs == 1 or len(cases) < 4:
        return [_work(c) for c in cases]
    ctx = multiprocessing.get_context('fork')
    with ctx.Pool(jobs) as pool:
        return pool.map(_work, cases, chunksize=1)


_WARM = False


def warm_up():
    global _WARM
    B.base()
    if not _WARM:
        rng = random.Random(1)
        work_transparent(gen_case(rng, 'transparent'))
        _WARM = True


def process(r, cases, label, max_report=3):
    t = time.time()
    results = run_many(cases)
    dist = r.coverage.setdefault('distribution', collections.Counter())
    nviol = nbrk = 0
    for c, o in zip(cases, results):
        if o.get('cov') is not None and getattr(r, 'linecov', None) is not None:
            r.linecov.merge(o['cov'])
            r.linecov_measured = True
        if isinstance(c, tuple):
            dist[f"sweep:alt={c[0]}"] += 1
            dist["sweep-mask:" + ('random' if str(c[2]).startswith('rand') else str(c[2]))] += 1
            dist["sweep-grid:" + str(c[4])] += 1
            what = dict(sweep=dict(alt=c[0], seed=c[1], mask=c[2], T=c[3], variant=c[4], masks=o.get('masks'),
                                   grid=o.get('grid')))
            r.case(('sweep',) + tuple(c), sample=dict(what, table=o.get('table')))
        else:
            sc = c['sched']
            for cat in sc.get('cats', []):
                if cat.split(':')[0] in ('imu', 'step', 'regime', 'altitude'):
                    dist[cat] += 1
            dist['mode:' + c['mode']] += 1
            dist['models:' + ('None' if c['none_models'] else 'dirty' if c['dirty'] else 'fresh')] += 1
            dist['scale-misalignment:' + ('yes' if any(c['gm']['sm']) or any(c['am']['sm']) else 'no')] += 1
            r.case(key_of(c), sample=dict(case=c, summary={k: o.get(k) for k in ('status', 'n_batches', 'left_estimates')}),
                   nontrivial=len(sc['epochs']) > 2)
            what = dict(case=c)
        if o['status'] in ('exception', 'harness-error'):
            nbrk += 1
            if nbrk <= max_report:
                r.broken('harness', f"{label}: {o['status']}", dict(what, error=o.get('error')))
            continue
        if o['fails']:
            nviol += 1
            if nviol <= max_report:
                r.log(f"PROPERTY FAILS on the implementation: {o['fails'][0]}")
                r.violation(o['fails'][0], dict(what, failures=o['fails']))
        if o.get('model'):
            nbrk += 1
            if nbrk <= max_report:
                r.broken('correspondence', f"{label}: {o['model'][0]}", json.dumps(dict(what, problems=o['model']))[:1500])
    r.log(f"{label}: {len(cases)} cases in {time.time() - t:.1f}s, {nviol} property failure(s), {nbrk} model/harness problem(s)")
    r.coverage.setdefault('correspondence', {})[label] = dict(cases=len(cases), property_failures=nviol, problems=nbrk)
    return results


def sweep_jobs(seed, tier, salt=0):
    """full models in both altitude modes (20 s data set) + the fixed partial masks and masks drawn from the
    whole enable space (12 s data sets, altitude mode alternating)"""
    seeds = [seed] if tier == 'quick' else [seed, seed + 1, seed + 2]
    jobs = [sweep_job(alt, sd + salt, 'full', 14.0 if tier == 'quick' else 20.0) for sd in seeds for alt in (True, False)]
    k = 0
    for sd in seeds:
        names = list(FIXED_MASKS) + [f"rand:{(sd + salt) * 10 + j}" for j in range(1 if tier == 'quick' else 6)]
        for nm in names:
            jobs.append(sweep_job((k + sd) % 2 == 0, sd + salt, nm, 12.0))
            k += 1
        # time-grid variants (6 s data sets): steps that are not multiples of / below the IMU period, a
        # non-uniform IMU grid, no measurements at all, feedforward trajectory coarser than the increment table
        # (with scale/misalignment states, so that the averages over the increments matter)
        sm_mask = 'g[.yz]a[x.z]+sm-offdiag'
        for v in [x for x in VARIANTS if x != 'base']:
            alts = (True, False) if tier != 'quick' else ((k + sd) % 2 == 0,)
            for alt in alts:
                mask = sm_mask if v.startswith('traj') else ('full', 'g[x.z]a[.yz]', sm_mask)[k % 3]
                jobs.append(sweep_job(alt, sd + salt, mask, 6.0, v))
            k += 1
    return jobs


def check(r):
    r.trusted += [
        "hand-written models Model/FeedbackSched.v, Model/Integrator.v, Model/SensorModel.v (tied to the code by the "
        "correspondence checks of C09, C02, C14) and the glue Model/FilterFlow.v",
        "float exactness of `v - 0.0*dt` and of LAPACK's solve with the identity matrix: checked byte for byte on "
        "every generated case, not proved",
        "the multi-step second-order bound (feedback vs feedforward) is NOT proved: examined by the error-scale sweep only",
    ]
    r.assumptions += [
        "fb_transparent: increment times strictly increasing after the initial time; no stamp of any sensor in [t0, t_end)",
        "small-error agreement is stated up to the discretisation mismatch of the two loops (proportional to the time "
        f"step, independent of the error scale; measured, bounded by {FLOOR} sd)",
    ]
    r.prove('Props/C12.v')
    warm_up()
    import linecov
    r.linecov = linecov.LineCoverage(cov_functions())
    r.linecov_measured = False
    problems, hits, active = error_probes()
    if active:
        r.linecov.merge(hits)
        r.linecov_measured = True
    for pr in problems:
        r.broken('correspondence', 'documented error path', pr)
    process(r, corpus(), 'corpus')
    rng = random.Random(r.seed * 1000003 + 12)
    nt, nr = (120, 30) if r.tier == 'quick' else (2500, 400)
    cases = [gen_case(rng, 'transparent') for _ in range(nt)]
    process(r, cases, 'transparent')
    cases = []
    while len(cases) < nr:
        c = gen_case(rng, 'rerun')
        if c['sched']['meas_mode'] == 'list' and any(
                c['sched']['epochs'][0] <= t < c['sched']['epochs'][-1] for _, ts in c['sched']['sensors'] for t in ts):
            cases.append(c)
    process(r, cases, 're-run')
    res = process(r, sweep_jobs(r.seed, r.tier), 'error-scale sweep')
    r.coverage['error_scale_sweep'] = [dict(alt=o.get('alt'), seed=o.get('seed'), mask=o.get('mask'), masks=o.get('masks'),
                                            variant=o.get('variant'), grid=o.get('grid'), table=o.get('table')) for o in res]
    cov_finish(r, r.linecov, r.linecov_measured)
    r.coverage['distribution'] = dict(sorted(r.coverage['distribution'].items()))
    if r.tier == 'thorough':
        r.hygiene('Props/C12.v')
        r.coqchk('Props/C12.v')


def falsify(r):
    warm_up()
    rng = random.Random(r.seed * 7919 + 1213)
    cases = [gen_case(rng, 'transparent') for _ in range(150)]
    for _ in range(40):
        c = gen_case(rng, 'rerun')
        if c['sched']['meas_mode'] == 'list':
            cases.append(c)
    cases += sweep_jobs(r.seed, 'quick', salt=5)
    results = run_many(cases)
    found = 0
    for c, o in zip(cases, results):
        if o['fails']:
            what = dict(sweep=dict(alt=c[0], seed=c[1], mask=c[2], T=c[3], variant=c[4], masks=o.get('masks'),
                                   grid=o.get('grid'))) if isinstance(c, tuple) else dict(case=c)
            r.log(f"falsifier: {o['fails'][0]}")
            r.violation(o['fails'][0], dict(what, failures=o['fails']))
            found += 1
            if found >= 2:
                break
    r.log(f"falsifier: {len(cases)} cases, {found} failing input(s) reported")


def replay(obj):
    rep = obj.get('replay', obj)
    warm_up()
    if 'sweep' in rep:
        sw = rep['sweep']
        o = work_sweep(sweep_job(sw['alt'], sw['seed'], sw.get('mask', 'full'), sw.get('T', 20.0), sw.get('variant', 'base')))
        print("error-scale sweep, eps =", list(EPS), "masks:", json.dumps(o.get('masks')), "time grid:",
              json.dumps(o.get('grid')))
        print(json.dumps(o.get('table'), indent=1))
    else:
        c = rep['case']
        print("case (time unit = 1/%d s):" % DEN)
        print("  ", json.dumps(c))
        o = _work(c)
    print("status:", o['status'], o.get('error', ''))
    for m in o.get('model', []):
        print("   model statement not met by the implementation:", m)
    if o['fails']:
        print("PROPERTY FAILS:")
        for f in o['fails']:
            print("   -", f)
        return 1
    print("property statements hold on this input")
    return 0
