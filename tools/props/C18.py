"""C18 — State differencing, resampling and perturbation obey their algebra.

Proof side: `Props/C18.v` (theorems about the generated `Gen/Util.v` to_180_range and about the
hand-written table model `Model/StateDiff.v`).

Tie of the model to the code (CORRESPONDENCE): generated table pairs / resampling requests /
Series pairs are run through the real `transform.compute_state_difference` /
`transform.resample_state` and through the Coq model (`vm_compute` of `state_diff_q`,
`resample_state_q`, `series_diff_q`); compared are the column labels and their order, the index
(exactly), which cells are angle / position / plain cells, and the cell values (times and values
are dyadic, so linear interpolation is exact in binary64; attitude cells are recorded by the model
as "scipy Slerp of these two Euler triples at this parameter" and evaluated with scipy here,
tolerance 1e-9 deg modulo 360).

Statement tests on the implementation (the property's own sentences, independent oracles) run on
every check and, with many more cases, as the falsifier.  Recorded findings
(/verif/known_findings.txt) are reported through the KNOWN-FINDING protocol: a failure is
attributed to a finding only when it lies in that finding's regime AND has its signature; every
other failure is a VIOLATION with a replay.
"""
import os
import json
import math
import bisect
import random
from fractions import Fraction

import numpy as np

import common

RULE = ("table pairs from random.Random(seed+k): categories equal index / nested / offset (same rate) / "
        "different rates / partially overlapping spans / irregular power-of-two gaps, 2..12 rows, stamps "
        "multiples of 1/16 on a time axis starting at 0, 1e5, 1.2e6 or 1.7e9 s (GPS/UNIX seconds), values dyadic; column sets are random ordered subsets of roll pitch heading lat "
        "lon alt VN VE VD x y z incl. partial rph / partial lla and different orders in the two tables; "
        "headings across the +-180 wrap; resampling requests unsorted with duplicates, end points, one ulp "
        "inside the ends and times outside the span at 1 ulp / 1e-6 s / 1 s / 1e3 s on both sides; Series pairs; plus the corpus witnesses of the recorded findings.  A case "
        "is distinct by (kind, category, columns, stamps, values)")

NAMES = ['roll', 'pitch', 'heading', 'lat', 'lon', 'alt', 'VN', 'VE', 'VD', 'x', 'y', 'z']
ID = {n: i for i, n in enumerate(NAMES)}
RPH = ['roll', 'pitch', 'heading']
LLA = ['lat', 'lon', 'alt']
NED = {'lat': 'north', 'lon': 'east', 'alt': 'down'}
KEY_RPH = 'rph-self-diff-rounding'
KEY_SUB_EQ = 'subsample-equal-median-nonzero'
KEY_SUB_LT = 'subsample-smaller-median-nonzero'
KEY_IDX = 'equal-median-index-mismatch'
CORPUS = os.path.join(common.VERIF, 'corpus', 'C18-findings.json')
ANG_TOL = 1e-9          # deg; binary64 rounding in scipy Slerp / Euler round trip is ~1e-13


# ----------------------------------------------------------------------------------------------
# tables
def mkdf(tab):
    import pandas as pd
    return pd.DataFrame(np.array(tab['rows'], dtype=float).reshape(len(tab['t']), len(tab['cols'])),
                        index=np.array(tab['t'], dtype=float), columns=list(tab['cols']))


def tab_of(df):
    return dict(cols=list(df.columns), t=[float(x) for x in df.index],
                rows=[[float(v) for v in row] for row in df.values])


def median_dt(tab):
    return float(np.median(np.diff(np.array(tab['t'], dtype=float))))


def renamed(cols):
    cols = list(cols)
    if all(c in cols for c in LLA):
        return [NED.get(c, c) for c in cols]
    return cols


def wrap_err(x, y):
    """distance of two angles modulo 360"""
    d = math.fmod(x - y, 360.0)
    if d < 0:
        d += 360.0
    return min(d, 360.0 - d)


def my_to180(x):
    """independent angle reduction (math.fmod is exact)"""
    r = math.fmod(x, 360.0)
    if r < 0:
        r += 360.0
    if r > 180.0:
        r -= 360.0
    return r


# ----------------------------------------------------------------------------------------------
# generators (dyadic)
GAPS = [0.125, 0.25, 0.5, 1.0, 2.0]


def gen_times(rng, n, gap=None, start=None):
    t = rng.randrange(0, 33) / 8.0 if start is None else start
    out = [t]
    for _ in range(n - 1):
        t += gap if gap is not None else rng.choice(GAPS)
        out.append(t)
    return out


def gen_value(rng, c, ctx):
    if c == 'lat':
        return ctx['lat0'] + rng.randint(-64, 64) / 1024.0
    if c == 'lon':
        return ctx['lon0'] + rng.randint(-64, 64) / 1024.0
    if c == 'alt':
        return ctx['alt0'] + rng.randint(-40, 40) / 4.0
    if c == 'roll':
        return rng.randint(-4 * 170, 4 * 170) / 4.0
    if c == 'pitch':
        return rng.randint(-4 * 60, 4 * 60) / 4.0
    if c == 'heading':
        if ctx['wrap']:
            return rng.choice([165.0, 170.0, 172.5, 177.5, 180.0, -177.5, -175.0, -170.0, -165.0, 0.0, -10.0])
        return rng.randint(-359, 360) / 2.0
    return rng.randint(-512, 512) / 8.0


def gen_ctx(rng):
    return dict(lat0=rng.choice([-60.0, -0.5, 0.0, 35.5, 50.0, 75.0]),
                lon0=rng.choice([-120.5, 0.0, 30.0, 179.0]),
                alt0=rng.choice([0.0, 100.0, 4000.0]), wrap=rng.random() < 0.5)


def gen_table(rng, cols, times, ctx):
    return dict(cols=list(cols), t=list(times), rows=[[gen_value(rng, c, ctx) for c in cols] for _ in times])


def gen_cols(rng):
    mode = rng.randrange(8)
    if mode == 0:
        cols = LLA + ['VN', 'VE', 'VD'] + RPH
    elif mode == 1:
        cols = rng.sample(RPH, rng.randint(1, 2)) + rng.sample(['VN', 'VE', 'x'], rng.randint(0, 2))    # partial rph
    elif mode == 2:
        cols = rng.sample(LLA, rng.randint(1, 2)) + rng.sample(['VN', 'heading', 'y'], rng.randint(0, 2))  # partial lla
    elif mode == 3:
        cols = RPH + rng.sample(['VN', 'z', 'alt'], rng.randint(0, 2))
    elif mode == 4:
        cols = LLA + rng.sample(['VD', 'roll', 'x'], rng.randint(0, 2))
    else:
        cols = rng.sample(NAMES, rng.randint(1, 10))
    cols = list(dict.fromkeys(cols))
    rng.shuffle(cols)
    return cols


def gen_cols_pair(rng):
    ca = gen_cols(rng)
    m = rng.randrange(4)
    if m == 0:
        cb = list(ca)
    elif m == 1:
        cb = list(ca)
        rng.shuffle(cb)
    else:
        cb = gen_cols(rng)
        if not set(ca) & set(cb):
            cb.append(rng.choice(ca))
        if m == 3:                      # make sure the interesting groups are often common
            for c in rng.choice([RPH, LLA]):
                if c not in ca:
                    ca.append(c)
                if c not in cb:
                    cb.insert(rng.randrange(len(cb) + 1), c)
    return ca, cb


CATEGORIES = ['equal', 'nested', 'offset', 'rates', 'partial', 'irregular']


def gen_time_pair(rng, cat):
    n = rng.randint(2, 12)
    if cat == 'equal':
        ta = gen_times(rng, n, rng.choice(GAPS + [None]))
        return ta, list(ta)
    if cat == 'nested':
        ta = gen_times(rng, max(n, 3), rng.choice(GAPS + [None]))
        k = rng.randint(2, len(ta))
        keep = sorted(rng.sample(range(len(ta)), k))
        if rng.random() < 0.5:
            keep = sorted(set(keep) | {0, len(ta) - 1})
        return ta, [ta[i] for i in keep]
    if cat == 'offset':
        g = rng.choice(GAPS[1:])
        ta = gen_times(rng, max(n, 3), g)
        off = rng.choice([g / 2, g, 2 * g, -g / 2])
        m = rng.randint(3, 12)
        return ta, gen_times(rng, m, g, ta[0] + off)
    if cat == 'rates':
        g1, g2 = rng.sample(GAPS, 2)
        ta = gen_times(rng, max(n, 3), g1)
        span = ta[-1] - ta[0]
        m = max(2, min(14, int(span / g2) + rng.randint(0, 3)))
        return ta, gen_times(rng, m, g2, ta[0] + rng.choice([0.0, g2 / 2 if g2 > 0.125 else 0.0, -g2]))
    if cat == 'partial':
        g1, g2 = rng.choice(GAPS), rng.choice(GAPS)
        ta = gen_times(rng, max(n, 4), g1)
        mid = ta[rng.randint(1, len(ta) - 2)]
        m = max(2, min(14, int((ta[-1] - mid) / g2) + rng.randint(2, 5)))
        return ta, gen_times(rng, m, g2, mid + rng.choice([0.0, 0.125]))
    return gen_times(rng, n), gen_times(rng, rng.randint(2, 12))


def common_index(ta, tb):
    """stamps of the result of compute_state_difference(a, b) (model-independent re-statement)"""
    ma, mb = np.median(np.diff(ta)), np.median(np.diff(tb))
    f, s = (tb, ta) if ma < mb else (ta, tb)
    return [t for t in f if s[0] <= t <= s[-1]]


# origins of the time axis: from zero, and absolute stamps (day / GPS-week seconds, UNIX seconds); all stamps
# stay multiples of 1/16 s, exactly representable below 2**31
ORIGINS = [0.0, 1.0e5, 1.2e6, 1.7e9]
# distances of out-of-span requests from the span ends; None = one ulp
OUT_DIST = [None, 1e-6, 1.0, 1e3]


def shift(ts, origin):
    return [origin + t for t in ts]


def gen_pair(rng, cat=None, origin=None):
    cat = cat or rng.choice(CATEGORIES)
    origin = rng.choice(ORIGINS) if origin is None else origin
    for _ in range(50):
        ta, tb = gen_time_pair(rng, cat)
        ta, tb = shift(ta, origin), shift(tb, origin)
        if rng.random() < 0.5:
            ta, tb = tb, ta
        if len(ta) >= 2 and len(tb) >= 2 and common_index(ta, tb):
            break
    else:
        ta = tb = shift([0.0, 1.0, 2.0], origin)
    ca, cb = gen_cols_pair(rng)
    ctx = gen_ctx(rng)
    a = gen_table(rng, ca, ta, ctx)
    b = gen_table(rng, cb, tb, ctx)
    return cat, a, b


def outside(t, k, side):
    """a request outside the span [t[0], t[-1]] at distance OUT_DIST[k % 4] (one ulp, 1e-6 s, 1 s, 1e3 s)"""
    d = OUT_DIST[k % len(OUT_DIST)]
    if side < 0:
        x = float(np.nextafter(t[0], -np.inf)) if d is None else t[0] - d
        return x if x < t[0] else float(np.nextafter(t[0], -np.inf))
    x = float(np.nextafter(t[-1], np.inf)) if d is None else t[-1] + d
    return x if x > t[-1] else float(np.nextafter(t[-1], np.inf))


def gen_requests(rng, tab, k=None):
    """requested times for resample_state: knots, midpoints, span ends, one ulp inside the span ends, and
    times OUTSIDE the span at 1 ulp .. 1e3 s (at least one on each side, the distance cycling with k)"""
    t = tab['t']
    k = rng.randrange(16) if k is None else k
    out = [outside(t, k, -1), outside(t, k // 4 + k, +1)]
    for _ in range(rng.randint(1, 10)):
        m = rng.randrange(8)
        if m == 0:
            out.append(rng.choice(t))
        elif m == 1:
            i = rng.randrange(len(t) - 1)
            out.append((t[i] + t[i + 1]) / 2)
        elif m == 2:
            out.append(outside(t, rng.randrange(4), rng.choice([-1, 1])))
        elif m == 3:
            out.append(rng.choice([t[0], t[-1]]))
        elif m == 4:
            out.append(rng.choice([float(np.nextafter(t[0], np.inf)), float(np.nextafter(t[-1], -np.inf))]))
        else:
            i = rng.randrange(len(t) - 1)
            out.append(t[i] + (t[i + 1] - t[i]) * rng.choice([0.25, 0.5, 0.75, 0.125]))
    if rng.random() < 0.3 and out:
        out.append(out[0])
    rng.shuffle(out)
    return out


# ----------------------------------------------------------------------------------------------
# Coq side
def qlit(x):
    f = Fraction(x)
    return f"(Qmake ({f.numerator})%Z {f.denominator}%positive)"


def coq_cols(cols):
    return "[" + "; ".join(f"{ID[c]}%nat" for c in cols) + "]"


def coq_row(vals):
    return "[" + "; ".join(qlit(v) for v in vals) + "]"


def coq_table(tab):
    rows = "; ".join(f"({qlit(t)}, {coq_row(r)})" for t, r in zip(tab['t'], tab['rows']))
    return f"(mkTable {coq_cols(tab['cols'])} [{rows}])"


def coq_case(case):
    k = case['kind']
    if k == 'diff':
        return f"enc_dtable (state_diff_q {coq_table(case['a'])} {coq_table(case['b'])})"
    if k == 'resample':
        return f"enc_rtable (resample_state_q {coq_table(case['a'])} {coq_row(case['ts'])})"
    if k == 'series':
        return (f"flat_map enc_dval (series_diff_q {coq_cols(case['cols'])} "
                f"{coq_row(case['r1'])} {coq_row(case['r2'])})")
    raise ValueError(k)


def eval_model(cases, name='c18'):
    """Evaluate the model on the cases inside coqc; returns list of flat integer encodings."""
    lines = ["From Coq Require Import List QArith ZArith.",
             "From PV Require Import Model.StateDiff.",
             "Import ListNotations.", "Open Scope Z_scope."]
    for i, c in enumerate(cases):
        lines.append(f"Definition case_{i} : list Z := {coq_case(c)}.")
    lines.append("Eval vm_compute in [" + "; ".join(f"case_{i}" for i in range(len(cases))) + "].")
    ok, out = common.eval_cases(name, "\n".join(lines) + "\n")
    if not ok:
        return None, out
    i = out.find('=')
    j = out.rfind(': list (list Z)')
    if i < 0 or j < 0:
        return None, out
    try:
        val = json.loads(out[i + 1:j].replace(';', ','))
    except Exception as e:       # pragma: no cover
        return None, f"cannot parse coqc output: {e}\n{out[-2000:]}"
    if len(val) != len(cases):
        return None, f"coqc returned {len(val)} results for {len(cases)} cases"
    return val, out


class Rd:
    def __init__(self, a):
        self.a, self.i = a, 0

    def z(self):
        v = self.a[self.i]
        self.i += 1
        return v

    def q(self):
        n = self.z()
        d = self.z()
        return Fraction(n, d)

    def q3(self):
        return (self.q(), self.q(), self.q())

    def val(self):
        if self.z() == 0:
            return ('Q', self.q())
        k = self.z()
        a = self.q3()
        b = self.q3()
        return ('A', k, a, b, self.q())

    def dval(self):
        tag = self.z()
        if tag == 0:
            return ('DQ', self.q())
        if tag == 1:
            sg = self.q()
            f = self.q()
            return ('DA', sg, f, self.val())
        k = self.z()
        d = self.q()
        ml = self.q()
        return ('DP', k, d, ml, self.q())

    def done(self):
        return self.i == len(self.a)


def dec_table(a, cell):
    rd = Rd(a)
    nc = rd.z()
    cols = [rd.z() for _ in range(nc)]
    nr = rd.z()
    rows = []
    for _ in range(nr):
        t = rd.q()
        rows.append((t, [getattr(rd, cell)() for _ in range(nc)]))
    if not rd.done():
        raise ValueError("trailing data in the model's encoding")
    return cols, rows


_slerp_cache = {}


def slerp_eval(a, b, w):
    """what the model's abstract [slerp a b w] stands for: scipy's composite
    from_euler('xyz', deg) -> Slerp on one interval -> as_euler('xyz', deg)"""
    key = (a, b, w)
    if key not in _slerp_cache:
        from scipy.spatial.transform import Rotation, Slerp
        rot = Rotation.from_euler('xyz', [[float(x) for x in a], [float(x) for x in b]], degrees=True)
        _slerp_cache[key] = Slerp([0.0, 1.0], rot)([float(w)]).as_euler('xyz', degrees=True)[0]
    return _slerp_cache[key]


def val_float(v):
    if v[0] == 'Q':
        return float(v[1])
    return float(slerp_eval(v[2], v[3], v[4])[v[1]])


def dval_float(d):
    """real-number meaning of a difference cell (mirrors [dvalR] of Proofs/StateDiffProofs.v)"""
    from pyins import earth
    if d[0] == 'DQ':
        return float(d[1])
    if d[0] == 'DA':
        return my_to180(float(d[1]) * (float(d[2]) - val_float(d[3])))
    _, k, dd, ml, ma = d
    rn, _, rp = earth.principal_radii(float(ml), float(ma))
    if k == ID['lat']:
        return float(dd) * (float(rn) * math.pi / 180)
    if k == ID['lon']:
        return float(dd) * (float(rp) * math.pi / 180)
    return -float(dd)


CELLS = {}          # kinds of cells compared by the correspondence check (coverage)


def close(x, y, angle):
    if angle:
        return wrap_err(x, y) <= ANG_TOL
    return abs(x - y) <= 1e-9 * max(1.0, abs(y))


def run_impl(case):
    import pandas as pd
    from pyins import transform
    k = case['kind']
    if k == 'diff':
        return transform.compute_state_difference(mkdf(case['a']), mkdf(case['b']))
    if k == 'resample':
        return transform.resample_state(mkdf(case['a']), list(case['ts']))
    s1 = pd.Series(case['r1'], index=case['cols'], dtype=float)
    s2 = pd.Series(case['r2'], index=case['cols'], dtype=float)
    return transform.compute_state_difference(s1, s2)


def compare_case(case, enc):
    """returns None if implementation and model agree, else a description"""
    try:
        impl = run_impl(case)
    except Exception as e:
        return f"implementation raised {type(e).__name__}: {e}"
    k = case['kind']
    if k == 'series':
        rd = Rd(enc)
        cells = [rd.dval() for _ in case['cols']]
        if not rd.done():
            return "model: wrong number of cells"
        want = renamed(case['cols'])
        if list(impl.index) != want:
            return f"labels: implementation {list(impl.index)} model {want}"
        for c, d, x in zip(case['cols'], cells, impl.values):
            CELLS['series:' + d[0]] = CELLS.get('series:' + d[0], 0) + 1
            if not close(float(x), dval_float(d), d[0] == 'DA'):
                return f"label {c}: implementation {float(x)!r} model {dval_float(d)!r} ({d[0]})"
        return None
    cols, rows = dec_table(enc, 'dval' if k == 'diff' else 'val')
    names = [NAMES[c] for c in cols]
    want = renamed(names) if k == 'diff' else names
    if list(impl.columns) != want:
        return f"columns: implementation {list(impl.columns)} model {want}"
    idx = [float(t) for t, _ in rows]
    if [float(x) for x in impl.index] != idx:
        return f"index: implementation {[float(x) for x in impl.index]} model {idx}"
    vals = impl.values
    has_rph = all(c in names for c in RPH)
    has_lla = all(c in names for c in LLA)
    for i, (t, cells) in enumerate(rows):
        for j, d in enumerate(cells):
            nm = names[j]
            if k == 'diff':
                kind_want = 'DA' if (has_rph and nm in RPH) else 'DP' if (has_lla and nm in LLA) else 'DQ'
                if d[0] != kind_want:
                    return f"cell kind at t={float(t)} column {nm}: model {d[0]}, expected {kind_want}"
                y = dval_float(d)
                ang = d[0] == 'DA'
                if ang and not (-180.0 < float(vals[i, j]) <= 180.0):
                    return f"angle difference outside (-180,180] at t={float(t)} {nm}: {float(vals[i, j])!r}"
            else:
                if (d[0] == 'A') != (has_rph and nm in RPH):
                    return f"cell kind at t={float(t)} column {nm}: model {d[0]}"
                y = val_float(d)
                ang = d[0] == 'A'
            CELLS[k + ':' + d[0]] = CELLS.get(k + ':' + d[0], 0) + 1
            if not close(float(vals[i, j]), y, ang):
                return (f"value at t={float(t)} column {nm}: implementation {float(vals[i, j])!r} "
                        f"model {y!r}")
    return None


def case_key(case):
    return json.dumps(case, sort_keys=True)


def gen_corr_cases(rng, n_diff, n_res, n_ser):
    cases = []
    for i in range(n_diff):
        cat, a, b = gen_pair(rng, CATEGORIES[i % len(CATEGORIES)], ORIGINS[(i // len(CATEGORIES)) % len(ORIGINS)])
        cases.append(dict(kind='diff', cat=cat, a=a, b=b))
    for i in range(n_res):
        cols = gen_cols(rng)
        ts = shift(gen_times(rng, rng.randint(2, 10), rng.choice(GAPS + [None])), ORIGINS[i % len(ORIGINS)])
        tab = gen_table(rng, cols, ts, gen_ctx(rng))
        cases.append(dict(kind='resample', cat='resample', a=tab, ts=gen_requests(rng, tab, i // len(ORIGINS))))
    for i in range(n_ser):
        cols = gen_cols(rng)
        ctx = gen_ctx(rng)
        cases.append(dict(kind='series', cat='series', cols=cols,
                          r1=[gen_value(rng, c, ctx) for c in cols], r2=[gen_value(rng, c, ctx) for c in cols]))
    return cases


def load_corpus():
    if not os.path.exists(CORPUS):
        return []
    return json.load(open(CORPUS))['cases']


def correspondence(r, cases, dist):
    bad = 0
    for lo in range(0, len(cases), 250):
        shard = cases[lo:lo + 250]
        encs, out = eval_model(shard, name=f'c18_{lo}')
        if encs is None:
            r.broken('correspondence', 'coqc evaluation of the model failed', out[-3000:])
            return
        for case, enc in zip(shard, encs):
            key = case_key(case)
            nontrivial = True
            r.case(key, sample=case if len(key) < 1500 else None, nontrivial=nontrivial)
            dist[case['kind'] + ':' + case.get('cat', '')] = dist.get(case['kind'] + ':' + case.get('cat', ''), 0) + 1
            try:
                msg = compare_case(case, enc)
            except Exception as e:
                msg = f"comparison crashed: {type(e).__name__}: {e}"
            if msg:
                bad += 1
                if bad <= 3:
                    r.broken('correspondence', f"{case['kind']} case disagrees with Model/StateDiff.v",
                             "case: " + key[:1000] + (" ..." if len(key) > 1000 else "") + "\n" + msg)
    return bad


# ----------------------------------------------------------------------------------------------
# statement tests on the implementation.  Each returns a list of dict(what, key, replay).
def _fail(what, key, **replay):
    rep = dict(replay)
    if key:
        rep['key'] = key
    return dict(what=what, key=key, replay=rep)


def split_cols(cols):
    cols = list(cols)
    ang = [c for c in cols if c in RPH] if all(c in cols for c in RPH) else []
    return ang, [c for c in cols if c not in ang]


def zero_status(d, src_cols):
    """(plain columns all exactly zero, max |angle column|)"""
    ang, plain = split_cols(src_cols)
    names = dict(zip(src_cols, renamed(src_cols)))
    pz = all(bool((d[names[c]].values == 0.0).all()) for c in plain if names[c] in d)
    am = max([float(np.abs(d[c].values).max()) for c in ang if c in d and len(d)] or [0.0])
    return pz, am


def st_self(tab):
    from pyins import transform
    a = mkdf(tab)
    d = transform.compute_state_difference(a, a)
    out = []
    if list(d.columns) != renamed(tab['cols']) or [float(x) for x in d.index] != tab['t']:
        out.append(_fail("self-difference does not keep the index / the columns", None, kind='self', a=tab))
        return out
    pz, am = zero_status(d, tab['cols'])
    if not pz or am >= ANG_TOL:
        out.append(_fail("difference of a table against itself is not zero", None, kind='self', a=tab,
                         max_angle=am))
    elif am > 0.0:
        out.append(_fail("self-difference of roll/pitch/heading is not exactly zero (rounding)", KEY_RPH,
                         kind='self', a=tab, max_angle=am))
    return out


def st_subsample(tab, keep):
    """tab against its sub-sampling rows[keep], both orders"""
    from pyins import transform
    a = mkdf(tab)
    sub = dict(cols=tab['cols'], t=[tab['t'][i] for i in keep], rows=[tab['rows'][i] for i in keep])
    b = mkdf(sub)
    ma, mb = median_dt(tab), median_dt(sub)
    out = []
    for order in ('full-sub', 'sub-full'):
        d = transform.compute_state_difference(a, b) if order == 'full-sub' else \
            transform.compute_state_difference(b, a)
        pz, am = zero_status(d, tab['cols'])
        must = (ma < mb) if order == 'full-sub' else (ma <= mb)
        rep = dict(kind='subsample', a=tab, keep=list(keep), order=order, median_full=ma, median_sub=mb)
        if pz and am < ANG_TOL:
            if must and [float(x) for x in d.index] != sub['t']:
                out.append(_fail("difference against a sub-sampling is not indexed by the sub-sampling's "
                                 "stamps", None, **rep))
            elif am > 0.0:
                out.append(_fail("difference against a sub-sampling: roll/pitch/heading not exactly zero "
                                 "(rounding)", KEY_RPH, **rep))
            continue
        if must:
            out.append(_fail("difference of a table against a sub-sampling of itself is not zero although "
                             "the full table has the smaller median interval", None, **rep))
            continue
        # regime of the recorded findings: the signature is "no operand swap towards the full table":
        # indexed by the FULL table's stamps inside the sub-sampling's span, zero on the kept stamps
        want_idx = [t for t in tab['t'] if sub['t'][0] <= t <= sub['t'][-1]]
        kept = d.loc[[t for t in sub['t']]] if [float(x) for x in d.index] == want_idx else None
        sig = kept is not None
        if sig:
            kz, ka = zero_status(kept, tab['cols'])
            sig = kz and ka < ANG_TOL
        if sig:
            key = KEY_SUB_EQ if ma == mb else KEY_SUB_LT
            out.append(_fail("difference against a sub-sampling is non-zero at the dropped stamps "
                             f"(median full {ma}, sub-sampling {mb})", key, variant='equal' if ma == mb else 'smaller',
                             **rep))
        else:
            out.append(_fail("difference against a sub-sampling is non-zero on stamps the sub-sampling has",
                             None, **rep))
    return out


def _antisym_cells(d1, d2, stamps, src_a, src_b):
    """compare by label on the given stamps; returns description of the first failure"""
    common_cols = [c for c in src_a if c in src_b]
    ang, _ = split_cols(common_cols)
    names = dict(zip(common_cols, renamed(common_cols)))
    for c in common_cols:
        n = names[c]
        x = d1.loc[stamps, n].values
        y = d2.loc[stamps, n].values
        for t, u, v in zip(stamps, x, y):
            u, v = float(u), float(v)
            if c in ang:
                if not (-180.0 < u <= 180.0 and -180.0 < v <= 180.0):
                    return f"angle difference outside (-180,180] at t={t} {n}: {u!r} / {v!r}"
                if wrap_err(u, -v) > ANG_TOL:
                    return f"t={t} {n}: {u!r} against {v!r}"
                if abs(abs(u) - 180.0) > ANG_TOL and abs(u + v) > ANG_TOL:
                    return f"t={t} {n}: {u!r} against {v!r}"
            elif not (u == -v):
                return f"t={t} {n}: {u!r} against {v!r}"
    return None


def st_antisym(ta, tb):
    from pyins import transform
    a, b = mkdf(ta), mkdf(tb)
    d1 = transform.compute_state_difference(a, b)
    d2 = transform.compute_state_difference(b, a)
    ma, mb = median_dt(ta), median_dt(tb)
    rep = dict(kind='antisym', a=ta, b=tb, median_a=ma, median_b=mb)
    out = []
    i1, i2 = [float(x) for x in d1.index], [float(x) for x in d2.index]
    if ma != mb or ta['t'] == tb['t']:
        if i1 != i2:
            return [_fail("diff(a,b) and diff(b,a) have different indices", None, **rep)]
        if ma != mb and list(d1.columns) != list(d2.columns):
            return [_fail("diff(a,b) and diff(b,a) have different column order although one call swaps", None,
                          **rep)]
        if sorted(d1.columns) != sorted(d2.columns):
            return [_fail("diff(a,b) and diff(b,a) have different columns", None, **rep)]
        msg = _antisym_cells(d1, d2, i1, ta['cols'], tb['cols'])
        if msg:
            out.append(_fail("difference is not antisymmetric: " + msg, None, **rep))
        return out
    # equal medians, different stamps: no call swaps
    shared = [t for t in ta['t'] if t in set(tb['t'])]
    if any(t not in i1 or t not in i2 for t in shared):
        return [_fail("a stamp common to both tables is missing from a difference", None, **rep)]
    msg = _antisym_cells(d1, d2, shared, ta['cols'], tb['cols']) if shared else None
    if msg:
        out.append(_fail("difference is not antisymmetric on the stamps both tables have: " + msg, None, **rep))
    if i1 != i2:
        wa = [t for t in ta['t'] if tb['t'][0] <= t <= tb['t'][-1]]
        wb = [t for t in tb['t'] if ta['t'][0] <= t <= ta['t'][-1]]
        if i1 == wa and i2 == wb:
            out.append(_fail("equal median intervals, different stamps: diff(a,b) is indexed by a's stamps and "
                             "diff(b,a) by b's", KEY_IDX, **rep))
        else:
            out.append(_fail("unexpected indices of diff(a,b) / diff(b,a)", None, **rep))
    return out


def st_range(ta, tb):
    from pyins import transform
    out = []
    for x, y, o in ((ta, tb, 'ab'), (tb, ta, 'ba')):
        d = transform.compute_state_difference(mkdf(x), mkdf(y))
        cc = [c for c in x['cols'] if c in y['cols']]
        ang, _ = split_cols(cc)
        for c in ang:
            v = d[c].values
            if len(v) and not bool(((v > -180.0) & (v <= 180.0)).all()):
                out.append(_fail(f"reported {c} difference outside (-180, 180]: {[float(u) for u in v]}", None,
                                 kind='range', a=ta, b=tb, order=o))
                break
    return out


# independent WGS-84
_A = 6378137.0
_E2 = 6.6943799901413e-3


def _radii(lat, alt):
    s = math.sin(math.radians(lat))
    x = 1 - _E2 * s * s
    re = _A / math.sqrt(x)
    return re * (1 - _E2) / x + alt, (re + alt) * math.cos(math.radians(lat))


def _ecef(lat, lon, alt):
    la, lo = math.radians(lat), math.radians(lon)
    n = _A / math.sqrt(1 - _E2 * math.sin(la) ** 2)
    return np.array([(n + alt) * math.cos(la) * math.cos(lo), (n + alt) * math.cos(la) * math.sin(lo),
                     (n * (1 - _E2) + alt) * math.sin(la)])


def st_metres(ta, tb):
    """equal-index tables with lat/lon/alt: NED metres against an independent formula and against
    the ECEF displacement (first order)"""
    from pyins import transform
    d = transform.compute_state_difference(mkdf(ta), mkdf(tb))
    a, b = mkdf(ta), mkdf(tb)
    out = []
    for t in d.index:
        la1, lo1, al1 = (float(a.loc[t, c]) for c in LLA)
        la2, lo2, al2 = (float(b.loc[t, c]) for c in LLA)
        rn, rp = _radii(0.5 * (la1 + la2), 0.5 * (al1 + al2))
        want = np.array([math.radians(la1 - la2) * rn, math.radians(lo1 - lo2) * rp, -(al1 - al2)])
        got = np.array([float(d.loc[t, c]) for c in ('north', 'east', 'down')])
        if np.abs(got - want).max() > 1e-9 * max(1.0, np.abs(want).max()):
            out.append(_fail(f"position difference at t={float(t)} is {got.tolist()}, metres at the mean "
                             f"latitude/altitude are {want.tolist()}", None, kind='metres', a=ta, b=tb))
            break
        ml, mo = math.radians(0.5 * (la1 + la2)), math.radians(0.5 * (lo1 + lo2))
        dx = _ecef(la1, lo1, al1) - _ecef(la2, lo2, al2)
        north = np.array([-math.sin(ml) * math.cos(mo), -math.sin(ml) * math.sin(mo), math.cos(ml)])
        east = np.array([-math.sin(mo), math.cos(mo), 0.0])
        down = -np.array([math.cos(ml) * math.cos(mo), math.cos(ml) * math.sin(mo), math.sin(ml)])
        geo = np.array([north @ dx, east @ dx, down @ dx])
        if np.abs(got - geo).max() > 1e-3 * np.abs(geo).max() + 1e-3:
            out.append(_fail(f"position difference at t={float(t)} is {got.tolist()}, the NED displacement is "
                             f"{geo.tolist()}", None, kind='metres', a=ta, b=tb))
            break
    return out


def st_lla_difference(ta, tb):
    """transform.compute_lla_difference (single points and stacked) is the same NED-metre conversion that
    compute_state_difference applies to lat/lon/alt columns"""
    import pandas as pd
    from pyins import transform
    a, b = mkdf(ta)[LLA], mkdf(tb)[LLA]
    out = []
    rep = dict(kind='lla_difference', a=ta, b=tb)
    stacked = transform.compute_lla_difference(a.values, b.values)
    d = transform.compute_state_difference(a, b)
    if stacked.shape != (len(a), 3) or np.abs(stacked - d[['north', 'east', 'down']].values).max() > \
            1e-9 * max(1.0, np.abs(stacked).max()):
        out.append(_fail("compute_lla_difference (stacked) differs from the position columns of "
                         "compute_state_difference", None, **rep))
    for i in range(len(a)):
        one = transform.compute_lla_difference(a.values[i], b.values[i])
        rn, rp = _radii(0.5 * (a.values[i, 0] + b.values[i, 0]), 0.5 * (a.values[i, 2] + b.values[i, 2]))
        dd = a.values[i] - b.values[i]
        want = np.array([math.radians(dd[0]) * rn, math.radians(dd[1]) * rp, -dd[2]])
        if one.shape != (3,) or np.abs(one - want).max() > 1e-9 * max(1.0, np.abs(want).max()) or \
                np.abs(one - stacked[i]).max() > 1e-9 * max(1.0, np.abs(want).max()):
            out.append(_fail(f"compute_lla_difference of row {i} is {one.tolist()}, metres at the mean latitude "
                             f"are {want.tolist()}", None, **rep))
            break
    return out


def st_perturb(traj, err):
    """perturb_pva -> compute_state_difference recovers the injected error to first order"""
    import pandas as pd
    from pyins import sim, transform, util
    t = mkdf(traj)[util.TRAJECTORY_COLS]
    e = mkdf(err)[util.TRAJECTORY_ERROR_COLS]
    out = []
    rep = dict(kind='perturb', a=traj, b=err)
    d = transform.compute_state_difference(sim.perturb_pva(t, e), t)
    if list(d.columns) != list(e.columns) or [float(x) for x in d.index] != [float(x) for x in e.index]:
        return [_fail("difference of a perturbed trajectory has unexpected index / columns", None, **rep)]
    dv, ev = d.values, e.values
    bad = np.abs(dv - ev) > 1e-3 * np.abs(ev) + 1e-6
    if bad.any():
        i, j = np.argwhere(bad)[0]
        out.append(_fail(f"perturbation not recovered: {e.columns[j]} at t={float(e.index[i])} injected "
                         f"{float(ev[i, j])!r} recovered {float(dv[i, j])!r}", None, **rep))
    ds = transform.compute_state_difference(sim.perturb_pva(t.iloc[0], e.iloc[0]), t.iloc[0])
    bad = np.abs(ds.values - e.iloc[0].values) > 1e-3 * np.abs(e.iloc[0].values) + 1e-6
    if list(ds.index) != list(e.columns) or bad.any():
        out.append(_fail("perturbation of a single Pva (Series) not recovered", None, **rep))
    return out


def st_resample(tab, ts):
    from pyins import transform
    from scipy.spatial.transform import Rotation
    a = mkdf(tab)
    out = transform.resample_state(a, list(ts))
    rep = dict(kind='resample', a=tab, ts=list(ts))
    if list(out.columns) != tab['cols']:
        return [_fail(f"resample_state changes the column order: {list(out.columns)}", None, **rep)]
    want = sorted(t for t in ts if tab['t'][0] <= t <= tab['t'][-1])
    got = [float(x) for x in out.index]
    if got != want:
        return [_fail(f"resample_state index {got}, requested times inside the span sorted {want}", None, **rep)]
    ang, plain = split_cols(tab['cols'])
    T = tab['t']
    for i, t in enumerate(got):
        row = out.iloc[i]
        hi = min(max(bisect.bisect_left(T, t), 1), len(T) - 1)
        lo = hi - 1
        s = (t - T[lo]) / (T[hi] - T[lo])
        for c in plain:
            ylo, yhi = float(a.iloc[lo][c]), float(a.iloc[hi][c])
            if t in T:
                if float(row[c]) != float(a.loc[t, c]):
                    return [_fail(f"resample_state does not reproduce column {c} at the original time {t}", None,
                                  **rep)]
            elif abs(float(row[c]) - (ylo + s * (yhi - ylo))) > 1e-9 * max(1.0, abs(ylo), abs(yhi)):
                return [_fail(f"resample_state: column {c} at t={t} is {float(row[c])!r}, linear interpolation "
                              f"gives {ylo + s * (yhi - ylo)!r}", None, **rep)]
        if ang:
            if t in T:
                for c in RPH:
                    if wrap_err(float(row[c]), float(a.loc[t, c])) > ANG_TOL:
                        return [_fail(f"resample_state does not reproduce {c} at the original time {t}", None,
                                      **rep)]
            r_lo = Rotation.from_euler('xyz', [float(a.iloc[lo][c]) for c in RPH], degrees=True)
            r_hi = Rotation.from_euler('xyz', [float(a.iloc[hi][c]) for c in RPH], degrees=True)
            r_t = Rotation.from_euler('xyz', [float(row[c]) for c in RPH], degrees=True)
            full = (r_lo.inv() * r_hi).as_rotvec()          # |.| <= pi: the shortest rotation
            part = (r_lo.inv() * r_t).as_rotvec()
            if np.linalg.norm(full) < math.pi - 1e-3 and np.abs(part - s * full).max() > 1e-9:
                return [_fail(f"resample_state: attitude at t={t} is not on the shortest rotation between the "
                              f"bracketing rows (fraction {s})", None, **rep)]
    return []


def st_to180(values):
    import pandas as pd
    from pyins import util
    out = []

    def ok(x, r):
        if not (-180.0 < r <= 180.0):
            return False
        fx, fr = Fraction(x), Fraction(r)
        k = round((fx - fr) / 360)
        return abs(fx - fr - 360 * k) <= Fraction(1, 10 ** 9)

    arr = np.array(values, dtype=float)
    ra = util.to_180_range(arr.copy())
    rs = util.to_180_range(pd.Series(arr.copy()))
    rl = util.to_180_range(list(values))
    rd = util.to_180_range(pd.DataFrame({'a': arr.copy(), 'b': arr.copy()}))
    for i, x in enumerate(values):
        r = util.to_180_range(float(x))
        rr = float(r)
        if not ok(float(x), rr):
            out.append(_fail(f"to_180_range({x!r}) = {rr!r} is not the congruent value in (-180, 180]", None,
                             kind='to180', x=float(x)))
        elif not (float(ra[i]) == rr == float(rs.iloc[i]) == float(rl[i]) == float(rd['a'].iloc[i])
                  == float(rd['b'].iloc[i])):
            out.append(_fail(f"to_180_range({x!r}): scalar {rr!r}, ndarray {float(ra[i])!r}, Series "
                             f"{float(rs.iloc[i])!r}, list {float(rl[i])!r}", None, kind='to180', x=float(x)))
        if len(out) >= 3:
            break
    return out


def to180_values(rng, n):
    vals = [k * 180.0 for k in range(-12, 13)] + [k * 90.0 for k in (-7, -3, 3, 7)]
    for k in (-3, -1, 0, 1, 3):
        b = k * 180.0
        vals += [np.nextafter(b, np.inf), np.nextafter(b, -np.inf)]
    vals += [5e-324, -5e-324, 1e-300, -1e-300, 1e-17, -1e-17, 1e15, -1e15, 1e15 + 180, 2.0 ** 53, -2.0 ** 53,
             1e22, -1e22, 1e300, -1e300, 1.7e308, -1.7e308, 360.0 * 12345678 + 180.0, -360.0 * 12345678 - 180.0,
             179.99999999999997, -179.99999999999997, 180.00000000000003, -180.00000000000003]
    for _ in range(n):
        m = rng.randrange(4)
        if m == 0:
            vals.append(rng.uniform(-720, 720))
        elif m == 1:
            vals.append(rng.choice([-1, 1]) * 10 ** rng.uniform(-20, 18))
        elif m == 2:
            vals.append(rng.randint(-10 ** 6, 10 ** 6) * 180.0 + rng.choice([0.0, 1e-9, -1e-9, 0.5]))
        else:
            vals.append(rng.randint(-4000, 4000) / 8.0)
    return [float(v) for v in vals]


# generators for the statement tests (dyadic or generic floats)
def rough(rng, tab):
    """replace the dyadic values by generic floats (same stamps)"""
    t2 = dict(tab)
    t2['rows'] = [[v + rng.uniform(-1e-3, 1e-3) if c not in ('heading',) else v for c, v in zip(tab['cols'], row)]
                  for row in tab['rows']]
    return t2


def wrap_pairs(rng):
    """heading pairs across the wrap, differences of exactly +-180 / 360, denser table first and second"""
    out = []
    for (h1, h2) in [(100.0, -80.0), (-80.0, 100.0), (180.0, 0.0), (0.0, 180.0), (170.0, -170.0), (-170.0, 170.0),
                     (90.0, -90.0), (180.0, 180.0), (-135.0, 45.0), (179.5, -0.5), (0.0, 0.0)]:
        for (ga, gb) in [(0.5, 1.0), (1.0, 0.5), (1.0, 1.0)]:
            na, nb = int(4 / ga) + 1, int(4 / gb) + 1
            extra = rng.choice([[], ['VN'], ['lat', 'lon', 'alt']])
            cols = RPH + extra
            ctx = gen_ctx(rng)
            a = dict(cols=cols, t=[i * ga for i in range(na)],
                     rows=[[0.0, 0.0, h1] + [gen_value(rng, c, ctx) for c in extra] for _ in range(na)])
            b = dict(cols=cols, t=[i * gb for i in range(nb)],
                     rows=[[0.0, 0.0, h2] + [gen_value(rng, c, ctx) for c in extra] for _ in range(nb)])
            out.append((a, b))
    return out


def gen_traj(rng, n):
    lat0, lon0 = rng.uniform(-75, 75), rng.uniform(-179, 179)
    t = [i * 0.5 for i in range(n)]
    rows, errs = [], []
    for i in range(n):
        rows.append([lat0 + 1e-4 * i, lon0 + 1e-4 * i * rng.uniform(-1, 1), rng.uniform(0, 3000),
                     rng.uniform(-20, 20), rng.uniform(-20, 20), rng.uniform(-3, 3),
                     rng.uniform(-40, 40), rng.uniform(-40, 40),
                     rng.choice([rng.uniform(-180, 180), 179.995, -179.995, 180.0])])
        errs.append([rng.uniform(-2, 2), rng.uniform(-2, 2), rng.uniform(-2, 2),
                     rng.uniform(-.2, .2), rng.uniform(-.2, .2), rng.uniform(-.2, .2),
                     rng.uniform(-.03, .03), rng.uniform(-.03, .03), rng.uniform(-.03, .03)])
    from pyins import util
    return (dict(cols=list(util.TRAJECTORY_COLS), t=t, rows=rows),
            dict(cols=list(util.TRAJECTORY_ERROR_COLS), t=t, rows=errs))


def antimeridian_trajs(rng):
    """states / trajectory tables whose longitude is within a few east-error magnitudes of +-180 deg on both
    sides (east errors of both signs, several latitudes), rows that cross the antimeridian, and longitudes
    outside [-180, 180] (0..360 convention, > 180 as produced by an eastward run): compute_state_difference
    subtracts longitudes as plain numbers, so perturb_pva must not re-wrap them"""
    from pyins import util
    out = []
    for lat in (-60.0, 0.0, 35.5, 75.0):
        deg = 2.0 / (111e3 * math.cos(math.radians(lat)))        # ~ 2 m east in degrees
        lons = [180.0, -180.0, 180.0 - 0.25 * deg, -180.0 + 0.25 * deg, 180.0 - deg, -180.0 + deg,
                180.0 - 3 * deg, -180.0 + 3 * deg, 180.0 + 0.5 * deg, -180.0 - 0.5 * deg,
                181.5, 270.0, 359.99999, 360.0 + deg, -200.0]
        for lon0 in lons:
            for sgn in (1.0, -1.0):
                n = 3
                t = [i * 0.5 for i in range(n)]
                step = rng.choice([0.0, 0.4 * deg, -0.4 * deg])       # rows may cross the antimeridian
                rows, errs = [], []
                for i in range(n):
                    rows.append([lat + 1e-5 * i, lon0 + step * (i - 1), rng.uniform(0, 3000),
                                 rng.uniform(-20, 20), rng.uniform(-20, 20), rng.uniform(-3, 3),
                                 rng.uniform(-40, 40), rng.uniform(-40, 40), rng.uniform(-180, 180)])
                    errs.append([rng.uniform(-2, 2), sgn * rng.uniform(0.5, 2.0), rng.uniform(-2, 2),
                                 rng.uniform(-.2, .2), rng.uniform(-.2, .2), rng.uniform(-.2, .2),
                                 rng.uniform(-.03, .03), rng.uniform(-.03, .03), rng.uniform(-.03, .03)])
                out.append((dict(cols=list(util.TRAJECTORY_COLS), t=t, rows=rows),
                            dict(cols=list(util.TRAJECTORY_ERROR_COLS), t=t, rows=errs)))
    return out


def statement_tests(r, rng, n, count=None):
    """run the property's statements on the implementation; returns the list of failures"""
    fails = []
    cnt = count if count is not None else {}

    def add(kind, fs):
        cnt[kind] = cnt.get(kind, 0) + 1
        fails.extend(fs)

    def guarded(kind, fn, *args):
        try:
            add(kind, fn(*args))
        except Exception as e:
            add(kind, [_fail(f"{kind}: implementation raised {type(e).__name__}: {e}", None, kind=kind,
                             args=json.loads(json.dumps(args, default=str)))])

    for tr, er in antimeridian_trajs(rng):
        guarded('perturb', st_perturb, tr, er)
    for a, b in wrap_pairs(rng):
        guarded('range', st_range, a, b)
        guarded('antisym', st_antisym, a, b)
    for i in range(n):
        cat, a, b = gen_pair(rng, CATEGORIES[i % len(CATEGORIES)], ORIGINS[(i // 2) % len(ORIGINS)])
        if i % 3 == 2:
            a, b = rough(rng, a), rough(rng, b)
        r.case(('st', case_key(dict(a=a, b=b))))
        guarded('antisym', st_antisym, a, b)
        guarded('range', st_range, a, b)
        guarded('self', st_self, a)
        if len(a['t']) >= 3:
            k = rng.randint(2, len(a['t']) - 1)
            keep = sorted(rng.sample(range(len(a['t'])), k))
            if rng.random() < 0.6:
                keep = sorted(set(keep) | {0, len(a['t']) - 1})
            if len(keep) < len(a['t']) and len(keep) >= 2:
                guarded('subsample', st_subsample, a, keep)
        guarded('resample', st_resample, a, gen_requests(rng, a, i // 8))
        if i % 4 == 0:
            ctx = gen_ctx(rng)
            cols = LLA + rng.sample(['VN', 'roll', 'x'], rng.randint(0, 2))
            rng.shuffle(cols)
            ts = gen_times(rng, rng.randint(2, 6), rng.choice(GAPS))
            ma, mb = gen_table(rng, cols, ts, ctx), gen_table(rng, cols, ts, ctx)
            guarded('metres', st_metres, ma, mb)
            guarded('lla_difference', st_lla_difference, ma, mb)
        if i % 5 == 0:
            tr, er = gen_traj(rng, rng.randint(2, 6))
            guarded('perturb', st_perturb, tr, er)
    guarded('to180', st_to180, to180_values(rng, 20 * n))
    return fails


def corpus_statement_tests(cnt):
    """the recorded findings' witnesses: exercised on every run"""
    fails = []
    for c in load_corpus():
        try:
            if c['kind'] == 'self':
                fs = st_self(c['a'])
            elif c['kind'] == 'subsample':
                fs = st_subsample(c['a'], c['keep'])
            elif c['kind'] == 'antisym':
                fs = st_antisym(c['a'], c['b'])
            else:
                continue
        except Exception as e:
            fs = [_fail(f"corpus case {c.get('name')}: implementation raised {type(e).__name__}: {e}", None,
                        kind=c['kind'], corpus=c.get('name'))]
        cnt['corpus:' + c['kind']] = cnt.get('corpus:' + c['kind'], 0) + 1
        for f in fs:
            f['replay']['corpus'] = c.get('name')
        fails.extend(fs)
    return fails


def report(r, fails, seen):
    """known findings once per key; every other failure is a violation (at most 5 reported)"""
    nreal = 0
    counts = r.coverage.setdefault('known_finding_occurrences', {})
    for f in fails:
        if f['key']:
            counts[f['key']] = counts.get(f['key'], 0) + 1
            if f['key'] in seen:
                continue
            seen.add(f['key'])
            r.violation(f['what'], f['replay'])
        else:
            nreal += 1
            if nreal <= 5:
                r.violation(f['what'], f['replay'])
    return nreal


def corpus_corr_cases():
    out = []
    for c in load_corpus():
        a = c['a']
        if c['kind'] == 'self':
            out.append(dict(kind='diff', cat='corpus', a=a, b=a))
        elif c['kind'] == 'subsample':
            sub = dict(cols=a['cols'], t=[a['t'][i] for i in c['keep']], rows=[a['rows'][i] for i in c['keep']])
            out.append(dict(kind='diff', cat='corpus', a=a, b=sub))
            out.append(dict(kind='diff', cat='corpus', a=sub, b=a))
        elif c['kind'] == 'antisym':
            out.append(dict(kind='diff', cat='corpus', a=a, b=c['b']))
            out.append(dict(kind='diff', cat='corpus', a=c['b'], b=a))
    return out


def _dead_scalar_wrap(info):
    import ast as _ast
    st = info['stmt']
    return (info['name'].endswith('to_180_range') and isinstance(st, _ast.AugAssign) and isinstance(st.op, _ast.Add)
            and isinstance(st.target, _ast.Name) and any(isinstance(p, _ast.If) for p in info['parents']))


# Lines of the anchored functions that may stay unreached, each with its reason:
COV_ALLOW = (
    # compute_state_difference: mixed DataFrame / Series input is rejected; outside the property's quantifier
    # (pairs of tables, pairs of Series) and outside the model
    # (matched structurally: any `raise ValueError(...)` statement of compute_state_difference, however its
    # message is spelled)
    'raise ValueError("Both inputs must be either DataFrame or Series")',
    # to_180_range scalar path, body of `elif result < -180:` -- dead code: `angle % 360` is never negative
    # (C18_to180_range_congruent is proved from exactly this fact, Proofs/To180Proofs.v to180_scalar_cases)
    'result += 360',
    # the same line whatever the local variable / constant is called: in to_180_range, an augmented `+=` on a plain
    # name (the ndarray path assigns through a mask subscript) inside an if/elif arm
    _dead_scalar_wrap,
)


def covered_functions():
    from pyins import transform, util, sim
    return {'transform.resample_state': transform.resample_state,
            'transform.compute_state_difference': transform.compute_state_difference,
            'util.to_180_range': util.to_180_range,
            'sim.perturb_pva': sim.perturb_pva,
            'transform.perturb_lla': transform.perturb_lla,
            'transform.compute_lla_difference': transform.compute_lla_difference}


def check(r):
    r.trusted += [
        "translator tools/sym.py + tools/ir2coq.py for util.to_180_range (scalar and ndarray paths), validated "
        "against the real function each run; Python float % read as x - 360*floor(x/360) over the reals",
        "Model/StateDiff.v is hand-written; tied to transform.resample_state / compute_state_difference by the "
        "correspondence check of this harness (pandas / scipy interp1d behaviour enters only through it)",
        "scipy Slerp / Rotation Euler round trip: Section variable `slerp` with the two endpoint hypotheses "
        "(explicit premises of the theorems), validated numerically to 1e-9 deg",
        "earth.principal_radii is uninterpreted (rn, rp) in C18; its geometry is C16",
        "binary64 rounding not modelled: theorems are over Q / the reals",
    ]
    r.assumptions += [
        "diff_recovers_perturbation: only the exact algebraic form is proved (C18_perturb_recovered_partial); "
        "first-order closeness is checked numerically (relative 1e-3)",
        "shortest-arc property of scipy Slerp is not proved; checked numerically against Rotation.as_rotvec",
        "recorded findings (known_findings.txt): " + ", ".join([KEY_RPH, KEY_SUB_EQ, KEY_SUB_LT, KEY_IDX]),
    ]
    r.generate(['Util'])
    r.prove('Props/C18.v')

    import linecov
    quick = r.tier == 'quick'
    rng = random.Random(r.seed + 18)
    cov = linecov.LineCoverage(covered_functions())
    cov.__enter__()
    measured = cov.active          # False when the sys.monitoring tool id is taken by someone else
    try:
        nreal = _run_cases(r, quick, rng)
    finally:
        cov.__exit__(None, None, None)
    summ, missing = cov.report(allow=COV_ALLOW)
    _, missing_all = cov.report(allow=())
    allowed_hit = [m for m in missing_all if m not in missing]     # allowed lines that indeed stayed unreached
    r.coverage['code_lines'] = dict(functions=summ, allowed=[a if isinstance(a, str) else a.__name__ for a in COV_ALLOW], allowed_and_unreached=allowed_hit,
                                    measured=measured)
    r.log("code lines (executed/reachable): "
          + ", ".join(f"{k.split('.')[-1]} {v['executed']}/{v['executed'] + len(v['unreached'])}" for k, v in summ.items())
          + f"; allowed and unreached: {[m.split(': ')[0] for m in allowed_hit]}"
          + (f"; NOT exercised: {missing}" if missing else "; every other executable line reached"))
    if not measured:
        r.broken('correspondence', 'line coverage could not be measured (sys.monitoring tool id in use)', '')
    elif missing:
        r.broken('correspondence', 'code line not exercised', missing)
    if r.tier == 'thorough':
        r.hygiene('Props/C18.v')
        if hasattr(r, 'coqchk'):
            r.coqchk('Props/C18.v')
    # the driver calls falsify() only when no violation at all was recorded; known findings are
    # always recorded here, so call it ourselves when something broke and nothing concrete is known
    if r.breaks and nreal == 0 and not getattr(r, 'falsified', False):
        r.falsified = True          # the newer driver does this itself; do not run the search twice
        r.log("something broke: running the falsifier on the implementation ...")
        falsify(r, _SEEN)


_SEEN = set()


def _run_cases(r, quick, rng):
    dist = {}
    cases = corpus_corr_cases() + (gen_corr_cases(rng, 120, 50, 40) if quick else gen_corr_cases(rng, 1500, 500, 300))
    nbad = correspondence(r, cases, dist)
    r.coverage['distribution'] = dist
    r.coverage['correspondence'] = dict(cases=len(cases), disagreements=nbad, cells_compared=dict(CELLS))
    r.log(f"correspondence: {len(cases)} cases, {nbad} disagreement(s)")

    cnt = {}
    seen = _SEEN
    seen.clear()
    fails = corpus_statement_tests(cnt)
    fails += statement_tests(r, random.Random(r.seed + 1018), 60 if quick else 1500, cnt)
    nreal = report(r, fails, seen)
    r.coverage['statement_tests'] = dict(runs=cnt, failures_other_than_known_findings=nreal)
    r.log(f"statement tests: {cnt}; {nreal} failure(s) other than known findings")
    return nreal


def falsify(r, seen=None):
    seen = set(seen or [KEY_RPH, KEY_SUB_EQ, KEY_SUB_LT, KEY_IDX])
    for k in range(4):
        fails = statement_tests(r, random.Random(r.seed + 7000 + k), 400)
        if report(r, fails, seen):
            return


def replay(obj):
    """re-run a recorded input on the implementation (and on the model for table pairs)"""
    rep = obj.get('replay', obj)
    kind = rep.get('kind')
    print("replay:", json.dumps({k: v for k, v in rep.items() if k not in ('a', 'b')}))
    fs = []
    try:
        if kind == 'self':
            fs = st_self(rep['a'])
            show = [dict(kind='diff', a=rep['a'], b=rep['a'])]
        elif kind == 'subsample':
            a = rep['a']
            sub = dict(cols=a['cols'], t=[a['t'][i] for i in rep['keep']], rows=[a['rows'][i] for i in rep['keep']])
            fs = st_subsample(a, rep['keep'])
            show = [dict(kind='diff', a=a, b=sub), dict(kind='diff', a=sub, b=a)]
        elif kind == 'antisym':
            fs = st_antisym(rep['a'], rep['b'])
            show = [dict(kind='diff', a=rep['a'], b=rep['b']), dict(kind='diff', a=rep['b'], b=rep['a'])]
        elif kind == 'range':
            fs = st_range(rep['a'], rep['b'])
            show = [dict(kind='diff', a=rep['a'], b=rep['b']), dict(kind='diff', a=rep['b'], b=rep['a'])]
        elif kind == 'metres':
            fs = st_metres(rep['a'], rep['b'])
            show = [dict(kind='diff', a=rep['a'], b=rep['b'])]
        elif kind == 'lla_difference':
            fs = st_lla_difference(rep['a'], rep['b'])
            show = [dict(kind='diff', a=rep['a'], b=rep['b'])]
        elif kind == 'perturb':
            fs = st_perturb(rep['a'], rep['b'])
            show = []
        elif kind == 'resample':
            fs = st_resample(rep['a'], rep['ts'])
            show = [dict(kind='resample', a=rep['a'], ts=rep['ts'])]
        elif kind == 'to180':
            fs = st_to180([rep['x']])
            from pyins import util
            print("implementation: to_180_range(%r) = %r" % (rep['x'], float(util.to_180_range(rep['x']))))
            show = []
        else:
            print("unknown replay kind", kind)
            return 1
    except Exception as e:
        print(f"implementation raised {type(e).__name__}: {e}")
        return 1
    for c in show:
        try:
            print("implementation:")
            print(run_impl(c))
            encs, out = eval_model([c], name='c18_replay')
            if encs is None:
                print("model: coqc failed:", out[-500:])
            else:
                print("model agrees with the implementation" if compare_case(c, encs[0]) is None
                      else "model differs: " + str(compare_case(c, encs[0])))
        except Exception as e:
            print(f"  ({type(e).__name__}: {e})")
    for f in fs:
        print("FAILS:" if not f['key'] else f"FAILS (known finding {f['key']}):", f['what'])
    if not fs:
        print("the recorded input no longer fails")
    return 1 if fs else 0
