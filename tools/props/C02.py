"""C02 — Integrator result is independent of call history.

Pipeline
  1. translator: regenerate Gen/NumbaIntegrate.v (one kernel step is a function of row j, the
     increment, dt and the flag only) and trace the step into garbage-filled buffers (the step does
     not depend on what the buffers held in row j+1 before the call; tools/reg/c13.py);
  2. proofs: Props/C02.v (all histories, any kstep/to_pub/of_pub, any capacity >= 1, both modes);
  3. correspondence of Model/Integrator.v with pyins.strapdown.Integrator: call histories from a
     grammar are run on the real class (bounds-guarded kernel, INITIAL_SIZE monkeypatched) and on
     the model instantiated with free-algebra rows inside Coq.  The model's provenance of every
     trajectory row / return value / written buffer cell is evaluated with single-row calls of the
     real kernel and compared BIT FOR BIT with what the real object holds;
  4. the property's own statement is checked on the implementation for every history
     (single-shot equality per supply segment, predict == next appended row, returned tails,
     time index); a failure is shrunk to a minimal history and reported as a violation.
"""
import os
import sys
import copy
import json
import random
import itertools
import contextlib
import traceback
import collections

import numpy as np
import pandas as pd

HERE = os.path.dirname(os.path.abspath(__file__))
if os.path.dirname(HERE) not in sys.path:
    sys.path.insert(0, os.path.dirname(HERE))
import common

RULE = ("call histories drawn from a grammar: Integrate(k) with k in 0..remaining (biased to 0..3 and to "
        "sizes that end just below / at / just above the current capacity and twice the capacity), "
        "Predict(next | foreign | already used increment), GetPva, GetTime, SetPva(random pva with VD != 0); "
        "INITIAL_SIZE in {1,2,3,5,8,10000}; both altitude modes; ~40 % of the increment tables store their labelled "
        "columns in a permuted order (half of those with an unrelated extra column), ~40 % of the histories supply all or a "
        "random subset of their pvas as int64 Series of whole numbers, half spell with_altitude as numpy.bool_ or int "
        "(labels and values define the meaning: the model is unchanged); the time axis is float seconds, float seconds + 1e9, "
        "int64 ms, int64 ns ~1.7e18 or int32 ticks (index values and dtype compared exactly); groups of 2-3 histories are also "
        "run on objects alive at once, constructed first and advanced alternately; increments with both branches of "
        "mat_from_rotvec; thorough adds every history of <= 5 ops over {I0,I1,I2,I3,Pnext,Pforeign,S} at "
        "capacity 2 (2D) and 3 (3D), <= 4 ops for the other two mode/capacity pairs.  A case is distinct by (mode, capacity, op sequence); non-trivial if it "
        "integrates at least one increment")

# model time k : Z  <->  index label lab(d, k); the time axis comes in several dtypes / magnitudes
TIME_AXES = ['float64 seconds', 'float64 seconds + 1e9 (GPS/UNIX)', 'int64 milliseconds', 'int64 nanoseconds ~1.7e18',
             'int32 ticks']


def lab(d, k):
    """the index label (a python / numpy scalar of the history's time axis) of model time k"""
    t = d.get('tax', 0)
    if t == 0:
        return float(k) * 0.25
    if t == 1:
        return 1e9 + float(k) * 0.25
    if t == 2:
        return 1_700_000_000_000 + 250 * int(k)
    if t == 3:
        return 1_700_000_000_000_000_123 + 250_000_001 * int(k)      # > 2**53, odd: not representable in float64
    return np.int32(1000 + 250 * int(k))


def lab_index(d, ks):
    dt = {0: 'float64', 1: 'float64', 2: 'int64', 3: 'int64', 4: 'int32'}[d.get('tax', 0)]
    return pd.Index([lab(d, k) for k in ks], dtype=dt)


def _py(x):
    return x.item() if isinstance(x, np.generic) else x


INC_COLS = ['dt', 'theta_x', 'theta_y', 'theta_z', 'dv_x', 'dv_y', 'dv_z']
CAPS = [1, 2, 3, 5, 8, 10000]
EXTRA_COL = 'temperature'


class KernelOutOfBounds(Exception):
    pass


# ---------------------------------------------------------------------------
# data of a history (deterministic function of the integers stored in the history)

def make_data(h):
    """increment table (natural rows 0..n-1, then nf foreign rows) and the supplied pvas."""
    from pyins.util import TRAJECTORY_COLS
    rs = np.random.RandomState(h['seed'] % (2 ** 31))
    n, nf, npva = h['n'], h['nf'], h['npva']
    m = n + nf
    t0 = int(rs.randint(0, 40))
    dt = rs.choice([0.005, 0.01, 0.0125, 0.02, 0.1], size=m) * rs.uniform(0.5, 1.5, size=m)
    scale = rs.choice([1e-4, 2e-3, 0.05], size=(m, 1))           # both branches of mat_from_rotvec
    theta = rs.normal(size=(m, 3)) * scale
    dv = rs.normal(size=(m, 3)) * rs.choice([0.02, 0.5, 5.0], size=(m, 1))
    dv[:, 2] -= 9.8 * dt
    labels = [t0 + 1 + i for i in range(n)] + [int(x) for x in rs.randint(0, t0 + n + 6, size=nf)]
    table = np.hstack([dt.reshape(-1, 1), theta, dv])
    pv = np.column_stack([
        rs.uniform(-80, 80, npva), rs.uniform(-180, 180, npva), rs.uniform(-100, 5000, npva),
        rs.uniform(-50, 50, npva), rs.uniform(-50, 50, npva),
        rs.choice([-1, 1], npva) * rs.uniform(0.5, 8, npva),
        rs.uniform(-180, 180, npva), rs.uniform(-80, 80, npva), rs.uniform(-180, 180, npva)])
    ipva = int_pvas(h)                        # ids of the pvas handed over as int64 Series of whole numbers
    for k in ipva:
        pv[k] = np.round(pv[k]) + 0.0         # (+ 0.0: no negative zeros, int64 cannot carry them)
        if pv[k, 5] == 0:
            pv[k, 5] = 1.0
    order = list(INC_COLS)
    if h.get('cols'):                         # labelled columns stored in another order + an unrelated column
        rc = np.random.RandomState(int(h['cols']) % (2 ** 31))
        order = [INC_COLS[i] for i in rc.permutation(7)]
        if order == list(INC_COLS):
            order = order[1:] + order[:1]
        if int(h['cols']) % 2:                # odd: additionally an unrelated column somewhere
            order.insert(int(rc.randint(0, 8)), EXTRA_COL)
    return dict(t0=t0, table=table, labels=labels, pvas=pv, cols=TRAJECTORY_COLS, ipva=ipva, order=order,
                tax=int(h.get('tax', 0)))


def int_pvas(h):
    """history field `ipva`: True = every pva, or a bit mask over the pva ids (mixed representations)"""
    m = h.get('ipva', 0)
    if m is True:
        return set(range(h['npva']))
    return {k for k in range(h['npva']) if (int(m) >> k) & 1}


def alt_value(h):
    """history field `flag`: how the with_altitude switch is spelled: bool, numpy.bool_, or int 0/1"""
    a = bool(h['alt'])
    f = h.get('flag', 0)
    return a if f == 0 else (np.bool_(a) if f == 1 else int(a))


def inc_frame(d, ids):
    df = pd.DataFrame(d['table'][list(ids)].reshape(-1, 7),
                      index=lab_index(d, [d['labels'][i] for i in ids]), columns=INC_COLS)
    if d['order'] != list(INC_COLS):
        if EXTRA_COL in d['order']:
            df[EXTRA_COL] = 20.5
        df = df[d['order']]
    return df


def inc_series(d, i):
    s = pd.Series(d['table'][i].copy(), index=INC_COLS, name=lab(d, d['labels'][i]))
    if d['order'] != list(INC_COLS):
        if EXTRA_COL in d['order']:
            s[EXTRA_COL] = 20.5
        s = s[d['order']]
    return s


def pva_series(d, k, label, name=None):
    vals = d['pvas'][k].copy()
    if k in d['ipva']:
        vals = vals.astype(np.int64)
    return pd.Series(vals, index=d['cols'], name=lab(d, label) if name is None else name)


# ---------------------------------------------------------------------------
# history grammar.  ops: ['I', k] | ['P', id] | ['G'] | ['T'] | ['S', pva id]

def gen_history(rng, force=None):
    force = force or {}
    alt = force.get('alt', rng.random() < 0.5)
    cap = force.get('cap', rng.choice(CAPS))
    n = rng.choice([3, 6, 10, 16, 24]) if cap < 10000 else rng.choice([3, 8, 14])
    nf, npva = 3, 4
    nops = rng.randint(1, 12)
    ops = []
    cursor, ndata, size = 0, 1, cap
    for _ in range(nops):
        u = rng.random()
        if u < 0.45 and cursor == n and rng.random() < 0.8:
            u = 0.45 + 0.55 * rng.random()            # table used up: mostly other operations
        if u < 0.45:
            rem = n - cursor
            cands = [0, 1, 2, 3]
            # sizes whose last written row ends just below / at / above a growth boundary
            for target in (size - 1, size, size + 1, 2 * size, 2 * size + 1):
                cands.append(target - ndata)
            cands.append(rng.randint(0, max(0, rem)))
            k = rng.choice([c for c in cands if 0 <= c <= rem] or [0])
            ops.append(['I', k])
            cursor += k
            if ndata + k > size:
                size = max(2 * size, ndata + k)
            ndata += k
        elif u < 0.70:
            v = rng.random()
            if v < 0.55 and cursor < n:
                i = cursor                            # the increment the next integrate will use
            elif v < 0.8:
                i = n + rng.randrange(nf)             # foreign row
            else:
                i = rng.randrange(n)                  # any row of the table
            ops.append(['P', i])
            if ndata + 1 > size:
                size = max(2 * size, ndata + 1)
        elif u < 0.80:
            ops.append(['G'])
        elif u < 0.88:
            ops.append(['T'])
        else:
            ops.append(['S', 1 + rng.randrange(npva - 1)])
    cols = force.get('cols', rng.randrange(1, 2 ** 20) if rng.random() < 0.4 else 0)
    u = rng.random()                           # none / all / a random mix of int64 and float pvas
    ipva = force.get('ipva', 0 if u < 0.6 else ((1 << npva) - 1 if u < 0.75 else rng.randrange(1, 1 << npva)))
    flag = force.get('flag', rng.choice([0, 0, 1, 2]))
    tax = force.get('tax', rng.choice([0, 0, 1, 2, 3, 3, 4]))
    return dict(alt=bool(alt), cap=int(cap), seed=rng.randrange(2 ** 30), n=n, nf=nf, npva=npva, ops=ops,
                cols=int(cols), ipva=ipva, flag=int(flag), tax=int(tax))


def exhaustive_histories(cap, alt, maxlen=5):
    alphabet = [['I', 0], ['I', 1], ['I', 2], ['I', 3], ['P', 'next'], ['P', 'foreign'], ['S', 1]]
    for ln in range(1, maxlen + 1):
        for combo in itertools.product(range(len(alphabet)), repeat=ln):
            ops, cursor = [], 0
            n = 3 * ln
            for c in combo:
                o = alphabet[c]
                if o[0] == 'I':
                    ops.append(['I', o[1]])
                    cursor += o[1]
                elif o[0] == 'P':
                    ops.append(['P', cursor if o[1] == 'next' else n])
                else:
                    ops.append(['S', 1])
            sc = sum(combo) + ln
            yield dict(alt=alt, cap=cap, seed=1000 * cap + 17 * ln + sum(combo), n=n, nf=1, npva=2,
                       ops=ops + [['G'], ['T']], cols=(100 + sc) if sc % 3 == 0 else 0, ipva=sc % 4, flag=sc % 3, tax=sc % 5)


def hist_key(h):
    return (h['alt'], h['cap'], bool(h.get('cols')), h.get('ipva', 0), h.get('flag', 0), h.get('tax', 0),
            tuple(tuple(o) for o in h['ops']))


# ---------------------------------------------------------------------------
# the real class, instrumented

@contextlib.contextmanager
def initial_size(cap):
    """Integrator.INITIAL_SIZE := cap (read by the constructor only)"""
    from pyins import strapdown
    old_size = strapdown.Integrator.INITIAL_SIZE
    strapdown.Integrator.INITIAL_SIZE = cap
    try:
        yield
    finally:
        strapdown.Integrator.INITIAL_SIZE = old_size


@contextlib.contextmanager
def guarded_kernel(log):
    """the compiled kernel is called through a guard that refuses any call that would read or write outside
    the buffers (the compiled code would silently corrupt memory) and that fills the rows the call is about
    to overwrite with NaN (they are dead: the model replaces them)."""
    from pyins import strapdown
    old_k = strapdown.integrate

    def guarded(dt, lla, vel, mat, theta, dv, offset, with_altitude):
        n = len(theta)
        log.append((int(offset), int(n), int(len(lla))))
        if not (len(lla) == len(vel) == len(mat) and len(dt) == n == len(dv)):
            raise KernelOutOfBounds(f"inconsistent lengths {len(lla)},{len(vel)},{len(mat)},{len(dt)},{n},{len(dv)}")
        if n > 0 and not (0 <= offset and offset + n < len(lla)):
            raise KernelOutOfBounds(f"kernel would access rows {offset}..{offset + n} of buffers of "
                                    f"length {len(lla)}")
        if n > 0:
            for a in (lla, vel, mat):
                a[offset + 1: offset + 1 + n] = np.nan if a.dtype.kind == 'f' else -(2 ** 40)
        return old_k(dt, lla, vel, mat, theta, dv, offset, with_altitude)

    strapdown.integrate = guarded
    try:
        yield
    finally:
        strapdown.integrate = old_k


@contextlib.contextmanager
def instrumented(cap, log):
    with initial_size(cap), guarded_kernel(log):
        yield


def _row(series):
    return (_py(series.name), np.array(series.values, dtype=float))


def _real_steps(h, d, deep, out):
    """the history on the real class as a coroutine: yields after the constructor and after every operation
    (so that several objects can be advanced alternately); fills `out`"""
    from pyins import strapdown
    with initial_size(h['cap']):
        it = strapdown.Integrator(pva_series(d, 0, d['t0']), with_altitude=alt_value(h))
    yield 'constructed'
    cursor = 0
    for o in h['ops']:
        if o[0] == 'I':
            ids = list(range(cursor, cursor + o[1]))
            cursor += o[1]
            before = (_py(it.trajectory.index[-1]), it.trajectory.values[-1].copy(),
                      len(it.trajectory))
            ret = it.integrate(inc_frame(d, ids))
            out['obs'].append(('F', [_py(x) for x in ret.index], np.array(ret.values, dtype=float),
                               str(ret.index.dtype)))
            out['extra'].append(dict(before=before, after_len=len(it.trajectory),
                                     tail=it.trajectory.values[-(len(ids) + 1):].copy(),
                                     labels=[_py(lab(d, d['labels'][i])) for i in ids]))
        elif o[0] == 'P':
            ex = {}
            if deep:
                clone = copy.deepcopy(it)
                tb = (it.trajectory.values.tobytes(), list(it.trajectory.index))
                nd = len(it.trajectory)
                pref = (it.lla[:nd].tobytes(), it.velocity_n[:nd].tobytes(), it.mat_nb[:nd].tobytes())
            ret = it.predict(inc_series(d, o[1]))
            out['obs'].append(('R',) + _row(ret))
            if deep:
                ex['unchanged'] = (tb == (it.trajectory.values.tobytes(), list(it.trajectory.index)) and
                                   pref == (it.lla[:nd].tobytes(), it.velocity_n[:nd].tobytes(),
                                            it.mat_nb[:nd].tobytes()))
                clone.integrate(inc_frame(d, [o[1]]))
                ex['next_row'] = _row(clone.trajectory.iloc[-1])
                ex['clone_len'] = (nd, len(clone.trajectory))
            out['extra'].append(ex)
        elif o[0] == 'G':
            out['obs'].append(('R',) + _row(it.get_pva()))
            out['extra'].append(dict(last=_row(it.trajectory.iloc[-1])))
        elif o[0] == 'T':
            out['obs'].append(('T', _py(it.get_time())))
            out['extra'].append(dict(last=_py(it.trajectory.index[-1])))
        elif o[0] == 'S':
            ret = it.set_pva(pva_series(d, o[1], -7))
            out['obs'].append(('U', ret))
            out['extra'].append({})
        else:
            raise ValueError(o)
        yield o[0]
    out.update(index=[_py(x) for x in it.trajectory.index], index_dtype=str(it.trajectory.index.dtype),
               values=np.array(it.trajectory.values, dtype=float),
               columns=list(it.trajectory.columns),
               cap=len(it.lla), caps=(len(it.lla), len(it.velocity_n), len(it.mat_nb)),
               lla=it.lla.copy(), vel=it.velocity_n.copy(), mat=it.mat_nb.copy(),
               with_altitude=bool(it.with_altitude))


def run_real(h, d, deep=True):
    """Run the history on the real class.  Returns dict(ok, ...)."""
    log = []
    out = dict(ok=True, obs=[], extra=[], klog=log)
    try:
        with guarded_kernel(log):
            for _ in _real_steps(h, d, deep, out):
                pass
    except Exception as e:                                      # any legal history must run
        out.update(ok=False, error=f"{type(e).__name__}: {e}", tb=traceback.format_exc()[-1500:])
    return out


def run_together(hs):
    """several Integrator objects alive at once: all constructed first, then advanced alternately, one
    operation each in turn.  Returns the per-object results (same format as run_real)."""
    log = []
    outs = [dict(ok=True, obs=[], extra=[], klog=log) for _ in hs]
    with guarded_kernel(log):
        gens = [_real_steps(h, make_data(h), False, out) for h, out in zip(hs, outs)]
        alive = list(range(len(hs)))
        while alive:
            for i in list(alive):
                try:
                    next(gens[i])
                except StopIteration:
                    alive.remove(i)
                except Exception as e:
                    outs[i].update(ok=False, error=f"{type(e).__name__}: {e}", tb=traceback.format_exc()[-1500:])
                    alive.remove(i)
    return outs


def together_failures(hs):
    """each of several objects advanced alternately must behave bit-identically to the same history run
    alone (the trajectory depends only on ITS supplied states and increments)"""
    hs = [normalise(h) for h in hs]
    together = run_together(hs)
    fails = []
    same = lambda a, b: np.asarray(a, dtype=float).tobytes() == np.asarray(b, dtype=float).tobytes()
    for i, (h, t) in enumerate(zip(hs, together)):
        a = run_real(h, make_data(h), deep=False)
        who = f"object {i} of {len(hs)} advanced alternately"
        if not a['ok']:
            continue                                            # reported by the single-object checks
        if not t['ok']:
            fails.append(f"{who} raised {t['error']} although the same history runs alone")
            continue
        if t['index'] != a['index'] or t['index_dtype'] != a['index_dtype']:
            fails.append(f"{who}: time index {t['index']} differs from the same history run alone {a['index']}")
        elif not same(t['values'], a['values']):
            bad = [k for k in range(len(a['index'])) if not same(t['values'][k], a['values'][k])]
            fails.append(f"{who}: trajectory rows {bad} differ from the same history run alone (row {bad[0]}: "
                         f"{t['values'][bad[0]].tolist()} vs alone {a['values'][bad[0]].tolist()})")
        for j, (x, y) in enumerate(zip(t['obs'], a['obs'])):
            ok = x[0] == y[0] and x[1] == y[1] and (x[0] not in ('F', 'R') or same(x[2], y[2]))
            if not ok:
                fails.append(f"{who}: result of op {j} {h['ops'][j]} differs from the same history run alone")
                break
    return fails


def shrink_together(hs, budget=150):
    pred = lambda g: len(g) >= 2 and bool(together_failures(g))
    hs = [normalise(h) for h in hs]
    changed = True
    while changed and budget > 0:
        changed = False
        for i in range(len(hs)):
            if len(hs) > 2:
                c = hs[:i] + hs[i + 1:]
                budget -= 1
                if pred(c):
                    hs, changed = c, True
                    break
        if changed:
            continue
        for i, h in enumerate(hs):
            for j in range(len(h['ops'])):
                c = copy.deepcopy(hs)
                del c[i]['ops'][j]
                budget -= 1
                if pred(c):
                    hs, changed = [normalise(x) for x in c], True
                    break
            if changed or budget <= 0:
                break
    for i in range(len(hs)):
        for key in ('cols', 'ipva', 'flag', 'tax'):
            if hs[i].get(key):
                c = copy.deepcopy(hs)
                c[i][key] = 0
                if pred(c):
                    hs = c
    return hs


def check_together(r, hists, ngroups, rng):
    """groups of 2-3 of the generated histories, objects alive at once"""
    nviol = 0
    pool = [h for h in hists if any(o[0] == 'I' and o[1] > 0 for o in h['ops'])]
    for g in range(ngroups):
        k = 2 + (g % 2)
        group = [pool[(3 * g + j) % len(pool)] for j in range(k)] if g < len(pool) // 3 else rng.sample(pool, k)
        f = together_failures(group)
        r.case(('together',) + tuple(hist_key(h) for h in group),
               sample=dict(kind='together', histories=group) if g == 0 else None)
        if f and nviol < 2:
            nviol += 1
            small = shrink_together(group)
            ff = together_failures(small) or f
            r.violation("Integrator objects alive at once influence each other: " + ff[0],
                        dict(key='c02-together', histories=small, failures=ff))
    return nviol


# ---------------------------------------------------------------------------
# the property's own statement, on the implementation only

def segments(h):
    """[(pva id, label or None (= label of the overwritten row), [increment ids])] per supply."""
    segs = [[0, [], None]]
    cursor = 0
    for o in h['ops']:
        if o[0] == 'I':
            segs[-1][1] += list(range(cursor, cursor + o[1]))
            cursor += o[1]
        elif o[0] == 'S':
            segs.append([o[1], [], None])
    return segs


def statement_failures(h, d, real):
    """Compare the run with what the property says.  Returns list of strings (empty = holds)."""
    from pyins import strapdown
    if not real['ok']:
        return [f"a legal call history raised {real['error']}"]
    fails = []
    same = lambda a, b: np.asarray(a, dtype=float).tobytes() == np.asarray(b, dtype=float).tobytes()
    # (1) per supply segment: the rows equal ONE integrate call on a fresh integrator started from
    #     the supplied state (default capacity); a later set_pva replaces the segment's last row
    exp_idx, exp_val = [], []
    label = lab(d, d['t0'])
    segs = segments(h)
    log = []
    dc = dict(d, ipva=set(), order=list(INC_COLS))
    try:
        with instrumented(10000, log):
            for k, (pid, ids, _) in enumerate(segs):
                # the reference is always given in the canonical representation (float64 pva, documented
                # column order): labels and values define the meaning, not dtype or storage order
                p = pva_series(dc, pid, None, name=label)
                f = strapdown.Integrator(p, with_altitude=h['alt'])
                f.integrate(inc_frame(dc, ids))
                idx = [_py(x) for x in f.trajectory.index]
                val = np.array(f.trajectory.values, dtype=float)
                if k + 1 < len(segs):
                    label = f.trajectory.index[-1]
                    idx, val = idx[:-1], val[:-1]
                exp_idx += idx
                exp_val.append(val)
    except Exception as e:
        return [f"single-shot integration raised {type(e).__name__}: {e}"]
    exp_val = np.vstack(exp_val)
    want = pd.Index([lab(d, d['t0'])])
    cursor = 0
    for o in h['ops']:
        if o[0] == 'I':
            want = want.append(inc_frame(d, range(cursor, cursor + o[1])).index)
            cursor += o[1]
    want_idx = [_py(x) for x in want]
    if real['index'] != want_idx or real['index'] != exp_idx:
        fails.append(f"time index {real['index']} != start time followed by every increment time once {want_idx}")
    elif real['index_dtype'] != str(want.dtype):
        fails.append(f"time index has dtype {real['index_dtype']}, the start time followed by the increment times "
                     f"has dtype {want.dtype}")
    if fails:
        pass
    elif not same(real['values'], exp_val):
        bad = [i for i in range(len(exp_idx)) if not same(real['values'][i], exp_val[i])]
        fails.append(f"trajectory rows {bad} differ bitwise from single-shot integration since the last supplied state "
                     f"(row {bad[0]}: got {real['values'][bad[0]].tolist()} want {exp_val[bad[0]].tolist()})")
    if real['columns'] != list(d['cols']):
        fails.append(f"trajectory columns {real['columns']}")
    # (2)-(4) per operation
    for j, (o, ob, ex) in enumerate(zip(h['ops'], real['obs'], real['extra'])):
        if o[0] == 'I':
            bl, bv, bn = ex['before']
            want_idx = [bl] + ex['labels']
            if ob[1] != want_idx:
                fails.append(f"op {j} integrate returned index {ob[1]} != previous label + chunk labels {want_idx}")
            elif not same(ob[2][0], bv):
                fails.append(f"op {j} integrate: first returned row is not the previous last row")
            elif not same(ob[2], ex['tail']) or ex['after_len'] != bn + o[1]:
                fails.append(f"op {j} integrate: returned rows are not the rows it appended")
        elif o[0] == 'P' and ex:
            nlab, row = ex['next_row']
            if not ex['unchanged']:
                fails.append(f"op {j} predict changed the trajectory or the valid buffer prefix")
            if ob[1] != nlab or not same(ob[2], row) or ex['clone_len'][1] != ex['clone_len'][0] + 1:
                fails.append(f"op {j} predict returned ({ob[1]}, {ob[2].tolist()}) but integrating that increment "
                             f"appends ({nlab}, {row.tolist()})")
        elif o[0] == 'G':
            if ob[1] != ex['last'][0] or not same(ob[2], ex['last'][1]):
                fails.append(f"op {j} get_pva is not the last trajectory row")
        elif o[0] == 'T':
            if ob[1] != ex['last']:
                fails.append(f"op {j} get_time is not the last index label")
        elif o[0] == 'S':
            if ob[1] is not None:
                fails.append(f"op {j} set_pva returned {ob[1]!r}")
    return fails


def normalise(h):
    """make a (possibly edited) history legal again: chunks must fit in the table, ids in range."""
    h = copy.deepcopy(h)
    cursor = 0
    for o in h['ops']:
        if o[0] == 'I':
            o[1] = max(0, min(o[1], h['n'] - cursor))
            cursor += o[1]
        elif o[0] == 'P':
            o[1] = max(0, min(o[1], h['n'] + h['nf'] - 1))
    return h


def fails_statement(h):
    h = normalise(h)
    d = make_data(h)
    return statement_failures(h, d, run_real(h, d))


def shrink(h, pred=None, budget=400):
    """greedy minimisation of a failing history (drop ops, reduce chunk sizes, reduce capacity)."""
    pred = pred or (lambda x: bool(fails_statement(x)))
    h = normalise(h)
    changed = True
    while changed and budget > 0:
        changed = False
        for i in range(len(h['ops'])):
            c = copy.deepcopy(h)
            del c['ops'][i]
            budget -= 1
            if pred(c):
                h, changed = normalise(c), True
                break
        if changed:
            continue
        for i, o in enumerate(h['ops']):
            if o[0] == 'I' and o[1] > 0:
                for nk in sorted({0, o[1] // 2, o[1] - 1}):
                    if nk >= o[1]:
                        continue
                    c = copy.deepcopy(h)
                    c['ops'][i][1] = nk
                    budget -= 1
                    if pred(c):
                        h, changed = normalise(c), True
                        break
                if changed:
                    break
        if changed:
            continue
        for nc in [c for c in CAPS if c < h['cap']]:
            c = copy.deepcopy(h)
            c['cap'] = nc
            budget -= 1
            if pred(c):
                h, changed = normalise(c), True
                break
    for key in ('cols', 'ipva', 'flag', 'tax'):
        if h.get(key):
            c = copy.deepcopy(h)
            c[key] = 0
            if pred(c):
                h = normalise(c)
    if h.get('ipva'):                          # mixed representations: keep only the pvas that matter
        for k in sorted(int_pvas(h)):
            c = copy.deepcopy(h)
            c['ipva'] = sum(1 << j for j in int_pvas(h) if j != k)
            if pred(c):
                h = normalise(c)
    used = sum(o[1] for o in h['ops'] if o[0] == 'I')
    c = copy.deepcopy(h)
    c['n'] = max(1, used)
    c = normalise(c)
    if c['ops'] == h['ops'] and pred(c):
        h = c
    return h


# ---------------------------------------------------------------------------
# provenance terms: mirror of the history summary (what Props/C02.v proves the model computes)
#   bterm: ('S', alt, r, id) | ('O', p) | ('X',)          pterm: ('T', r) | ('P', id) | ('Z', p)

def expected_terms(h, d):
    alt = h['alt']
    sup = (lambda k: ('P', k)) if alt else (lambda k: ('Z', ('P', k)))
    p0 = sup(0)
    rows = [(d['t0'], p0, ('O', p0))]
    dirty = None
    obs = []
    cursor = 0
    for o in h['ops']:
        if o[0] == 'I':
            for i in range(cursor, cursor + o[1]):
                nb = ('S', alt, rows[-1][2], i)
                rows.append((d['labels'][i], ('T', nb), nb))
            cursor += o[1]
            if o[1] > 0:
                dirty = None
            obs.append(('F', [(t, p) for t, p, _ in rows[-(o[1] + 1):]]))
        elif o[0] == 'P':
            nb = ('S', alt, rows[-1][2], o[1])
            dirty = nb
            obs.append(('R', d['labels'][o[1]], ('T', nb)))
        elif o[0] == 'G':
            obs.append(('R', rows[-1][0], rows[-1][1]))
        elif o[0] == 'T':
            obs.append(('T', rows[-1][0]))
        elif o[0] == 'S':
            p = sup(o[1])
            rows[-1] = (rows[-1][0], p, ('O', p))
            obs.append(('U',))
    traj = [(t, p) for t, p, _ in rows]
    buf = [b for _, _, b in rows] + ([dirty] if dirty is not None else [])
    return traj, obs, buf


class Evaluator:
    """evaluates provenance terms with single-row calls of the real kernel / transform functions"""

    def __init__(self, d):
        self.d = d
        self.memo = {}
        self.steps = 0

    def b(self, t):
        r = self.memo.get(t)
        if r is not None:
            return r
        from pyins import transform, _numba_integrate as ni
        if t[0] == 'S':
            l0, v0, m0 = self.b(t[2])
            row = self.d['table'][t[3]]
            lla = np.full((2, 3), np.nan)
            vel = np.full((2, 3), np.nan)
            mat = np.full((2, 3, 3), np.nan)
            lla[0], vel[0], mat[0] = l0, v0, m0
            ni.integrate(np.array([row[0]]), lla, vel, mat, np.ascontiguousarray(row[1:4].reshape(1, 3)),
                         np.ascontiguousarray(row[4:7].reshape(1, 3)), 0, bool(t[1]))
            self.steps += 1
            r = (lla[1].copy(), vel[1].copy(), mat[1].copy())
        elif t[0] == 'O':
            p = self.p(t[1])
            r = (p[0:3].copy(), p[3:6].copy(), np.array(transform.mat_from_rph(p[6:9]), dtype=float))
        else:
            raise ValueError("garbage cell has no value")
        self.memo[t] = r
        return r

    def p(self, t):
        r = self.memo.get(t)
        if r is not None:
            return r
        from pyins import transform
        if t[0] == 'T':
            l, v, m = self.b(t[1])
            r = np.hstack([l, v, transform.mat_to_rph(m[None])[0]])
        elif t[0] == 'P':
            r = np.array(self.d['pvas'][t[1]], dtype=float)
        elif t[0] == 'Z':
            r = self.p(t[1]).copy()
            r[5] = 0.0
        else:
            raise ValueError(t)
        self.memo[t] = r
        return r


def numeric_mismatches(h, d, real, traj, obs, buf):
    """model provenance evaluated with single real kernel steps vs the real object, bit for bit."""
    if not real['ok']:
        return [f"implementation raised {real['error']} (model: every history succeeds)"], 0
    ev = Evaluator(d)
    bad = []
    same = lambda a, b: np.asarray(a, dtype=float).tobytes() == np.asarray(b, dtype=float).tobytes()
    if real['index'] != [_py(lab(d, t)) for t, _ in traj]:
        bad.append(f"index {real['index']} vs model {[_py(lab(d, t)) for t, _ in traj]}")
    else:
        for k, (t, p) in enumerate(traj):
            if not same(real['values'][k], ev.p(p)):
                bad.append(f"trajectory row {k}: real {real['values'][k].tolist()} vs model term value "
                           f"{ev.p(p).tolist()}")
                break
    if len(real['obs']) != len(obs):
        bad.append("number of observations")
    for j, (ro, mo) in enumerate(zip(real['obs'], obs)):
        if ro[0] != mo[0]:
            bad.append(f"op {j}: kind {ro[0]} vs {mo[0]}")
        elif ro[0] == 'F':
            if ro[1] != [_py(lab(d, t)) for t, _ in mo[1]] or \
                    any(not same(ro[2][k], ev.p(p)) for k, (_, p) in enumerate(mo[1])):
                bad.append(f"op {j}: returned frame differs from the model's")
        elif ro[0] == 'R':
            if ro[1] != _py(lab(d, mo[1])) or not same(ro[2], ev.p(mo[2])):
                bad.append(f"op {j}: returned row ({ro[1]}, {ro[2].tolist()}) vs model ({_py(lab(d, mo[1]))}, "
                           f"{ev.p(mo[2]).tolist()})")
        elif ro[0] == 'T':
            if ro[1] != _py(lab(d, mo[1])):
                bad.append(f"op {j}: get_time {ro[1]} vs {_py(lab(d, mo[1]))}")
        elif ro[0] == 'U':
            if ro[1] is not None:
                bad.append(f"op {j}: set_pva returned {ro[1]!r}")
    if len(set(real['caps'])) != 1:
        bad.append(f"buffer lengths differ {real['caps']}")
    if real['with_altitude'] != h['alt']:
        bad.append("with_altitude flag")
    if len(buf) > real['cap']:
        bad.append(f"model wrote {len(buf)} cells, real capacity {real['cap']}")
    else:
        for k, b in enumerate(buf):
            l, v, m = ev.b(b)
            if not (same(real['lla'][k], l) and same(real['vel'][k], v) and same(real['mat'][k], m)):
                bad.append(f"buffer row {k} differs from the model's {'valid' if k < len(traj) else 'predicted'} row")
                break
    return bad, ev.steps


# ---------------------------------------------------------------------------
# Coq side

def _coq_terms(terms):
    """let-bound, hash-consed Coq text for a collection of terms.  Returns (lets, name_of)."""
    names = {}
    lets = []

    def go(t):
        nm = names.get(t)
        if nm is not None:
            return nm
        if t[0] == 'S':
            body = f"BStep {'true' if t[1] else 'false'} {go(t[2])} {t[3]}%nat"
        elif t[0] == 'O':
            body = f"BOfPub {go(t[1])}"
        elif t[0] == 'X':
            body = "BGarbage"
        elif t[0] == 'T':
            body = f"PToPub {go(t[1])}"
        elif t[0] == 'P':
            body = f"PGiven {t[1]}%nat"
        elif t[0] == 'Z':
            body = f"PZeroVd {go(t[1])}"
        else:
            raise ValueError(t)
        nm = f"x{len(names)}"
        names[t] = nm
        lets.append(f"let {nm} := {body} in")
        return nm

    for t in terms:
        go(t)
    return lets, names


def coq_ops(h, d):
    out, cursor = [], 0
    for o in h['ops']:
        if o[0] == 'I':
            ids = range(cursor, cursor + o[1])
            cursor += o[1]
            out.append("Integrate [" + "; ".join(f"({i}%nat, {d['labels'][i]}%Z)" for i in ids) + "]")
        elif o[0] == 'P':
            out.append(f"Predict ({o[1]}%nat, {d['labels'][o[1]]}%Z)")
        elif o[0] == 'G':
            out.append("GetPva")
        elif o[0] == 'T':
            out.append("GetTime")
        elif o[0] == 'S':
            out.append(f"SetPva (PGiven {o[1]}%nat)")
    return "[" + "; ".join(out) + "]"


def coq_case(h, d, real, traj, obs, buf):
    terms = [p for _, p in traj] + list(buf)
    for o in obs:
        if o[0] == 'F':
            terms += [p for _, p in o[1]]
        elif o[0] == 'R':
            terms.append(o[2])
    lets, nm = _coq_terms(terms)
    row = lambda t, p: f"({t}%Z, {nm[p]})"
    obs_txt = []
    for o in obs:
        if o[0] == 'F':
            obs_txt.append("OFrame [" + "; ".join(row(t, p) for t, p in o[1]) + "]")
        elif o[0] == 'R':
            obs_txt.append(f"ORow {row(o[1], o[2])}")
        elif o[0] == 'T':
            obs_txt.append(f"OTime {o[1]}%Z")
        else:
            obs_txt.append("OUnit")
    err = 'false' if real['ok'] else 'true'
    cap = real['cap'] if real['ok'] else 0
    return ("(" + "\n ".join(lets) + "\n mkCase " +
            f"{'true' if h['alt'] else 'false'} {h['cap']}%Z {d['t0']}%Z 0%nat {coq_ops(h, d)} {err}\n  [" +
            "; ".join(row(t, p) for t, p in traj) + "]\n  [" + "; ".join(obs_txt) + "]\n  " +
            f"{cap}%Z [" + "; ".join(nm[b] for b in buf) + "])")


COQ_HEAD = """From Coq Require Import List ZArith Bool.
From PV Require Import Model.Integrator.
Import ListNotations.
"""

# printing of the model's own output (used on a sample, and by replay)
COQ_SER = """
Fixpoint ser_b (t : bterm) : list Z :=
  match t with
  | BStep f r i => 0%Z :: (if f then 1%Z else 0%Z) :: Z.of_nat i :: ser_b r
  | BOfPub p => 1%Z :: ser_p p
  | BGarbage => [2%Z]
  end
with ser_p (t : pterm) : list Z :=
  match t with
  | PToPub r => 3%Z :: ser_b r
  | PGiven i => [4%Z; Z.of_nat i]
  | PZeroVd p => 5%Z :: ser_p p
  end.
Definition ser_row (r : trow) : list Z := fst r :: ser_p (snd r).
Definition ser_obs (o : tobs) : list Z :=
  match o with
  | OFrame rows => 10%Z :: Z.of_nat (length rows) :: flat_map ser_row rows
  | ORow r => 11%Z :: ser_row r
  | OTime t => [12%Z; t]
  | OUnit => [13%Z]
  end.
Definition ser_run (c : tcase) : list Z :=
  match t_run_init (c_alt c) (Z.to_nat (c_cap c)) (c_t0 c) (PGiven (c_p0 c)) (c_ops c) with
  | None => [(-1)%Z]
  | Some (s, os) =>
      (if with_alt s then 1%Z else 0%Z) :: Z.of_nat (length (buf s)) ::
      Z.of_nat (length (traj s)) :: flat_map ser_row (traj s) ++
      Z.of_nat (length os) :: flat_map ser_obs os ++
      Z.of_nat (length (buf s)) :: flat_map ser_b (buf s)
  end.
"""


def eval_check_cases(tag, case_texts):
    """Returns list of check_case codes (0 = agreement) or raises RuntimeError."""
    import re
    txt = COQ_HEAD + "Definition cases : list tcase := [\n" + ";\n".join(case_texts) + "\n].\n" + \
        "Eval vm_compute in (map check_case cases).\n"
    ok, out = common.eval_cases(tag, txt, timeout=900)
    if not ok:
        raise RuntimeError("coqc failed on the case file: " + out[-1500:])
    m = re.search(r'=\s*\[(.*?)\]\s*:\s*list nat', out, re.S)
    if not m:
        raise RuntimeError("cannot parse coqc output: " + out[-800:])
    codes = [int(x) for x in re.findall(r'\d+', m.group(1))]
    if len(codes) != len(case_texts):
        raise RuntimeError(f"{len(codes)} answers for {len(case_texts)} cases")
    return codes


def model_output(tag, case_texts):
    """Run the model and PRINT its output (provenance terms); parsed into python terms."""
    import re
    txt = COQ_HEAD + COQ_SER + "Definition cases : list tcase := [\n" + ";\n".join(case_texts) + "\n].\n" + \
        "Eval vm_compute in (map ser_run cases).\n"
    ok, out = common.eval_cases(tag, txt, timeout=900)
    if not ok:
        raise RuntimeError("coqc failed on the case file: " + out[-1500:])
    m = re.search(r'=\s*(\[.*\])\s*:\s*list \(list Z\)', out, re.S)
    if not m:
        raise RuntimeError("cannot parse coqc output: " + out[-800:])
    lists = [[int(x) for x in re.findall(r'-?\d+', part)] for part in re.findall(r'\[([^\[\]]*)\]', m.group(1))]
    if len(lists) != len(case_texts):
        raise RuntimeError(f"{len(lists)} answers for {len(case_texts)} cases")
    return [decode_run(l) for l in lists]


def decode_run(toks):
    pos = [0]

    def nxt():
        v = toks[pos[0]]
        pos[0] += 1
        return v

    def db():
        c = nxt()
        if c == 0:
            f = nxt() == 1
            i = nxt()
            return ('S', f, db(), i)
        if c == 1:
            return ('O', dp())
        if c == 2:
            return ('X',)
        raise ValueError(f"bterm tag {c}")

    def dp():
        c = nxt()
        if c == 3:
            return ('T', db())
        if c == 4:
            return ('P', nxt())
        if c == 5:
            return ('Z', dp())
        raise ValueError(f"pterm tag {c}")

    def drow():
        t = nxt()
        return (t, dp())

    if toks == [-1]:
        return None
    walt = nxt() == 1
    cap = nxt()
    traj = [drow() for _ in range(nxt())]
    obs = []
    for _ in range(nxt()):
        c = nxt()
        if c == 10:
            obs.append(('F', [drow() for _ in range(nxt())]))
        elif c == 11:
            t, p = drow()
            obs.append(('R', t, p))
        elif c == 12:
            obs.append(('T', nxt()))
        elif c == 13:
            obs.append(('U',))
        else:
            raise ValueError(f"obs tag {c}")
    buf = [db() for _ in range(nxt())]
    if pos[0] != len(toks):
        raise ValueError("trailing tokens")
    return dict(with_altitude=walt, cap=cap, traj=traj, obs=obs, buf=buf)


CODES = {1: "model errs / implementation does not (or vice versa)", 2: "trajectory provenance",
         3: "returned values", 4: "final capacity", 5: "written buffer cells",
         6: "a cell the harness believes unwritten is written in the model", 7: "with_altitude flag"}


# ---------------------------------------------------------------------------
# fixed corpus (run first, every seed) and line coverage of the modelled methods

def corpus(modes=(True, False)):
    """histories that reach every branch of the modelled methods deterministically: buffer growth in
    integrate and in predict, empty chunk, predict of the next / a foreign / a used increment, set_pva,
    getters, both altitude modes, no growth at the default capacity"""
    out = []
    for alt in modes:
        out.append(dict(alt=alt, cap=1, seed=11, n=8, nf=2, npva=3,
                        ops=[['I', 0], ['I', 2], ['P', 2], ['P', 8], ['G'], ['T'], ['S', 1], ['I', 3], ['P', 0],
                             ['S', 2], ['I', 0], ['G'], ['T'], ['I', 3]]))
        out.append(dict(alt=alt, cap=10000, seed=12, n=4, nf=1, npva=2,
                        ops=[['P', 0], ['I', 4], ['S', 1], ['G'], ['T']]))
        # increments stored as (theta, dv, dt) / another permutation with an unrelated column; int64 pvas
        out.append(dict(alt=alt, cap=2, seed=13, n=5, nf=1, npva=3, cols=4711, ipva=False,
                        ops=[['P', 0], ['I', 1], ['P', 1], ['P', 5], ['I', 2], ['S', 1], ['P', 3], ['I', 2], ['G']]))
        out.append(dict(alt=alt, cap=3, seed=14, n=5, nf=1, npva=3, cols=0, ipva=True,
                        ops=[['G'], ['S', 2], ['G'], ['P', 0], ['I', 2], ['S', 1], ['I', 3], ['G'], ['T']]))
        out.append(dict(alt=alt, cap=1, seed=15, n=4, nf=1, npva=3, cols=98, ipva=True,
                        ops=[['P', 0], ['I', 2], ['S', 1], ['P', 2], ['I', 2], ['G']]))
        # int64 initial state overwritten by a float state before any integrate (fix 9491288) and the reverse;
        # the switch spelled numpy.bool_ / int
        out.append(dict(alt=alt, cap=2, seed=16, n=3, nf=1, npva=3, cols=0, ipva=0b001, flag=1,
                        ops=[['S', 1], ['G'], ['P', 0], ['I', 2], ['S', 2], ['I', 1], ['G']]))
        out.append(dict(alt=alt, cap=2, seed=17, n=3, nf=1, npva=3, cols=0, ipva=0b110, flag=2,
                        ops=[['G'], ['S', 1], ['G'], ['I', 1], ['S', 2], ['P', 1], ['I', 2], ['T']]))
        # time axes: GPS-like float seconds, int64 ms, int64 ns beyond 2**53, int32 ticks
        for tax in (1, 2, 3, 4):
            out.append(dict(alt=alt, cap=2, seed=20 + tax, n=4, nf=1, npva=2, cols=0, ipva=0, flag=0, tax=tax,
                            ops=[['T'], ['P', 0], ['I', 1], ['T'], ['P', 4], ['I', 0], ['S', 1], ['I', 2], ['G'], ['T']]))
    return out


# source lines of the modelled methods that may stay unexecuted, each with its reason
COV_ALLOW = (
    'assert False',     # _integrate: `mode` is only ever 'integrate' or 'predict' (private helper called by the
                        # two public methods); the model has no such path
)


def _plain_function(obj):
    import inspect
    if isinstance(obj, (classmethod, staticmethod)):
        obj = obj.__func__
    elif isinstance(obj, property):
        obj = obj.fget
    obj = getattr(obj, 'py_func', obj)
    return obj if inspect.isfunction(obj) else None


def class_functions(cls):
    """every function defined in the class body (public or private, whatever it is called today)"""
    out = {}
    for name, obj in vars(cls).items():
        f = _plain_function(obj)
        if f is not None:
            out[f"{cls.__name__}.{name}"] = f
    return out


def named_functions(pairs):
    """[(owner, attribute name)] -> the functions that exist; names that disappeared are returned separately"""
    out, missing = {}, []
    for owner, name in pairs:
        f = _plain_function(vars(owner).get(name)) if hasattr(owner, '__dict__') else None
        if f is None:
            missing.append(f"{getattr(owner, '__name__', owner)}.{name}")
        else:
            out[f"{owner.__name__}.{name}"] = f
    return out, missing


def with_private_callees(funcs, namespaces):
    """add, transitively, every PRIVATE helper (module-level function or method, name starting with one
    underscore) of the given namespaces that a measured function refers to by name: a refactoring that moves
    code of a modelled function into a helper keeps that code in the measured set."""
    cand = {}
    for ns in namespaces:
        for name, obj in vars(ns).items():
            if name.startswith('_') and not name.startswith('__'):
                f = _plain_function(obj)
                if f is not None and getattr(f, '__module__', None) == getattr(ns, '__module__', getattr(ns, '__name__', None)):
                    cand.setdefault(name, (f"{ns.__name__.split('.')[-1]}.{name}", f))
    out = dict(funcs)
    have = {id(f.__code__) for f in out.values()}
    todo = list(out.values())

    def names(code):
        yield from code.co_names
        for c in code.co_consts:
            if hasattr(c, 'co_names'):
                yield from names(c)
    while todo:
        f = todo.pop()
        for nm in names(f.__code__):
            if nm in cand and id(cand[nm][1].__code__) not in have:
                label, g = cand[nm]
                out[label] = g
                have.add(id(g.__code__))
                todo.append(g)
    return out


def cov_functions():
    """the whole Integrator class (the model is a model of the class, however its methods are split) plus
    the private module-level helpers they call"""
    from pyins import strapdown
    return with_private_callees(class_functions(strapdown.Integrator), [strapdown, strapdown.Integrator])


class Coverage:
    """linecov.LineCoverage plus the bookkeeping every harness needs (C13 reuses it)"""

    def __init__(self, functions, allow):
        import linecov
        self.cov = linecov.LineCoverage(functions)
        self.allow = allow
        self.was_active = False

    def __enter__(self):
        self.cov.__enter__()
        self.was_active = self.cov.active
        return self

    def __exit__(self, *a):
        return self.cov.__exit__(*a)

    def finish(self, r):
        if not self.was_active:
            r.log("line coverage: sys.monitoring tool id not available, not measured")
            r.coverage['code_lines'] = dict(measured=False)
            return
        summ, missing = self.cov.report(allow=self.allow)
        r.coverage['code_lines'] = dict(measured=True, functions=summ, allowed_unreached=list(self.allow))
        tot = sum(v['executable'] for v in summ.values())
        got = sum(v['executed'] for v in summ.values())
        r.log(f"line coverage of the modelled implementation functions: {got}/{tot} executable lines executed, "
              f"{len(missing)} unexpected unreached")
        if missing:
            r.broken('correspondence', 'code line not exercised',
                     "the generated cases never execute these lines of the code the model claims to cover: "
                     + "; ".join(missing))


# ---------------------------------------------------------------------------
# one history through everything except coqc (picklable result; used serially and in a pool)

def process(h):
    d = make_data(h)
    real = run_real(h, d)
    fails = statement_failures(h, d, real)
    traj, obs, buf = expected_terms(h, d)
    mism, steps = numeric_mismatches(h, d, real, traj, obs, buf)
    growth = 0
    if real['ok']:
        sizes = [h['cap']] + [c for _, _, c in real['klog']]
        growth = sum(1 for a, b in zip(sizes, sizes[1:]) if b != a)
    return dict(h=h, fails=fails, mism=mism, case=coq_case(h, d, real, traj, obs, buf), steps=steps,
                growth=growth, nrows=len(traj), ok=real['ok'], cap_final=real.get('cap'))


def kernel_isolation(r, rng, n):
    """the compiled kernel writes exactly rows offset+1..offset+n, reads row `offset` only, and its
    result does not depend on what the other rows held (binary check of the translator's premise)."""
    from pyins import _numba_integrate as ni
    bad = []
    for _ in range(n):
        size = rng.randint(3, 9)
        k = rng.randint(1, size - 1)
        off = rng.randint(0, size - 1 - k)
        alt = rng.random() < 0.5
        h = dict(seed=rng.randrange(2 ** 30), n=k, nf=0, npva=1)
        d = make_data(h)
        ev = Evaluator(d)
        res = []
        for fill in (np.nan, 1e300, -7.5):
            lla = np.full((size, 3), fill)
            vel = np.full((size, 3), fill)
            mat = np.full((size, 3, 3), fill)
            lla[off], vel[off], mat[off] = ev.b(('O', ('P', 0)))
            keep = (lla.copy(), vel.copy(), mat.copy())
            ni.integrate(np.ascontiguousarray(d['table'][:k, 0]), lla, vel, mat,
                         np.ascontiguousarray(d['table'][:k, 1:4]), np.ascontiguousarray(d['table'][:k, 4:7]),
                         off, alt)
            for a, b0 in zip((lla, vel, mat), keep):
                msk = np.ones(size, bool)
                msk[off + 1: off + 1 + k] = False
                if a[msk].tobytes() != b0[msk].tobytes():
                    bad.append(dict(what="kernel wrote outside rows offset+1..offset+n", seed=h['seed'], size=size,
                                    offset=off, n=k, alt=alt))
            res.append((lla[off + 1: off + 1 + k].tobytes(), vel[off + 1: off + 1 + k].tobytes(),
                        mat[off + 1: off + 1 + k].tobytes()))
        if len(set(res)) != 1:
            bad.append(dict(what="kernel result depends on the previous content of the rows it writes",
                            seed=h['seed'], size=size, offset=off, n=k, alt=alt))
        # n steps at once == n single steps
        t = ('O', ('P', 0))
        for i in range(k):
            t = ('S', alt, t, i)
        l, v, m = ev.b(t)
        if (l.tobytes(), v.tobytes(), m.tobytes()) != (lla[off + k].tobytes(), vel[off + k].tobytes(),
                                                       mat[off + k].tobytes()):
            bad.append(dict(what="n kernel steps in one call differ bitwise from n single-step calls",
                            seed=h['seed'], size=size, offset=off, n=k, alt=alt))
        r.case(('kernel', size, off, k, alt))
    return bad


def _map(fn, items, workers):
    if workers <= 1 or len(items) < 64:
        return [fn(x) for x in items]
    import multiprocessing as mp
    with mp.get_context('fork').Pool(workers) as pool:
        return pool.map(fn, items, chunksize=32)


def run_batch(r, hists, tag, workers=1, shard=400):
    """process + coq comparison; records cases, breaks and violations.  Returns #problems."""
    results = _map(process, hists, workers)
    problems = 0
    viol_reported = 0
    # Coq shards (in parallel threads: each is a coqc subprocess)
    shards = [results[i:i + shard] for i in range(0, len(results), shard)]
    from concurrent.futures import ThreadPoolExecutor

    def one(arg):
        k, sh = arg
        try:
            return eval_check_cases(f"{tag}_{k}", [x['case'] for x in sh])
        except Exception as e:
            return e
    with ThreadPoolExecutor(max(1, min(8, workers))) as ex:
        coded = list(ex.map(one, list(enumerate(shards))))
    for sh, codes in zip(shards, coded):
        if isinstance(codes, Exception):
            r.broken('correspondence', 'coq evaluation of the model failed', str(codes))
            problems += 1
            continue
        for x, c in zip(sh, codes):
            h = x['h']
            r.case(hist_key(h), sample=dict(history=h, rows=x['nrows'], final_capacity=x['cap_final']),
                   nontrivial=x['nrows'] > 1)
            if x['fails']:
                problems += 1
                if viol_reported < 3:
                    viol_reported += 1
                    small = shrink(h)
                    ff = fails_statement(small) or x['fails']
                    r.violation("Integrator history property fails on the implementation: " + ff[0],
                                dict(key='c02-history', history=small, failures=ff, original=h))
            if c != 0 or x['mism']:
                problems += 1
                if len([b for b in r.breaks if b['kind'] == 'correspondence']) < 5:
                    r.broken('correspondence', f"history {json.dumps(h)}",
                             f"coq check_case code {c} ({CODES.get(c, 'agreement')}); numeric: {x['mism'][:3]}")
    return problems, results


def distribution(results):
    ops = collections.Counter()
    chunks = collections.Counter()
    caps = collections.Counter()
    modes = collections.Counter()
    grow = collections.Counter()
    for x in results:
        h = x['h']
        caps[h['cap']] += 1
        modes['3D' if h['alt'] else '2D'] += 1
        modes['permuted increment columns + extra column'] += 1 if h.get('cols') else 0
        ip = int_pvas(h)
        modes['int64 whole-number pvas: all'] += 1 if len(ip) == h['npva'] else 0
        modes['int64 whole-number pvas: mixed with float'] += 1 if 0 < len(ip) < h['npva'] else 0
        modes['with_altitude spelled ' + ['bool', 'numpy.bool_', 'int'][h.get('flag', 0)]] += 1
        modes['time axis ' + TIME_AXES[h.get('tax', 0)]] += 1
        grow[min(x['growth'], 4)] += 1
        for o in h['ops']:
            ops[o[0]] += 1
            if o[0] == 'I':
                chunks[min(o[1], 10)] += 1
    return dict(histories=len(results), op_kinds=dict(ops), chunk_sizes_capped_at_10=dict(sorted(chunks.items())),
                capacities=dict(sorted(caps.items())), modes=dict(modes),
                growth_events_per_history_capped_at_4=dict(sorted(grow.items())),
                kernel_steps_for_term_evaluation=sum(x['steps'] for x in results))


def printed_model_sample(r, results, k):
    """the literal pipeline on a sample: coqc PRINTS the model's provenance, python evaluates it with
    the real kernel and compares with the real object (also validates the in-Coq comparison path)."""
    sample = [x for x in results if x['ok'] and x['nrows'] <= 12][:k]
    if not sample:
        return
    try:
        outs = model_output('c02p', [x['case'] for x in sample])
    except Exception as e:
        r.broken('correspondence', 'printing the model output failed', str(e))
        return
    for x, mo in zip(sample, outs):
        h = x['h']
        d = make_data(h)
        real = run_real(h, d, deep=False)
        if mo is None:
            r.broken('correspondence', f"history {json.dumps(h)}", "model returned the error value")
            continue
        written = [b for b in mo['buf'] if b != ('X',)]
        if any(b == ('X',) for b in mo['buf'][:len(written)]):
            r.broken('correspondence', f"history {json.dumps(h)}", "garbage cell inside the written prefix")
            continue
        mism, _ = numeric_mismatches(h, d, real, mo['traj'], mo['obs'], written)
        if mo['cap'] != real.get('cap') or mo['with_altitude'] != h['alt']:
            mism = list(mism) + [f"capacity model {mo['cap']} real {real.get('cap')}"]
        if mism:
            r.broken('correspondence', f"printed model output, history {json.dumps(h)}", mism[:3])
        r.case(('printed',) + hist_key(h))


def kernel_premise(r):
    """translator premise: trace one kernel step (both modes) into buffers whose row j+1 holds undeclared
    symbolic garbage (tools/reg/c13.py); the trace fails closed if any of the 15 components of the new
    row depends on anything but row j, the increment, dt and the flag, or is left unwritten."""
    try:
        import gen
        with common.Lock():
            rng = random.Random(r.seed)
            for e in gen.REGISTRY:
                if e['name'] in ('c13_kstep2d_fresh', 'c13_kstep3d_fresh'):
                    ctx, paths = gen.trace_entry(e)
                    st = []
                    gen.validate_entry(e, ctx, paths, rng, st)
                    r.coverage.setdefault('translator', []).extend(st)
                    r.evaluations += sum(x['samples'] for x in st)
                    if len(paths) != 1:
                        r.broken('translator', e['name'], f"{len(paths)} paths: the kernel step branches on data")
        r.log("translator: kernel step is a function of (row j, increment, dt, flag) only, in both modes")
    except Exception:
        r.broken('translator', 'kernel step premise', traceback.format_exc())


def check(r):
    r.trusted += [
        "translator tools/sym.py + tools/ir2coq.py: one kernel step (step2d_*/step3d_*) is a function of row j, "
        "increment, dt and flag only; tools/reg/c13.py (c13_kstep*_fresh): it does not depend on the previous "
        "content of row j+1",
        "tools/props/C02.py: evaluation of provenance terms by single-row calls of the compiled kernel, "
        "transform.mat_from_rph / mat_to_rph; bitwise comparison by ndarray.tobytes()",
        "pandas/numpy container semantics (DataFrame.iloc, pd.concat, ndarray.resize keeps the prefix) are "
        "modelled by lists in Model/Integrator.v and tied only by the correspondence run",
    ]
    r.assumptions += [
        "bit-identity is a theorem for any deterministic kstep/to_pub/of_pub; that the compiled kernel is such a "
        "function (same bits for the same row/increment, whatever the batch size and buffer position) is checked "
        "by the correspondence run, not proved",
    ]
    if r.generate(['NumbaIntegrate']):
        kernel_premise(r)
    r.prove('Props/C02.v')

    rng = random.Random(r.seed + 2)
    quick = r.tier == 'quick'
    workers = 1 if quick else min(12, os.cpu_count() or 1)
    bad = kernel_isolation(r, rng, 40 if quick else 600)
    for b in bad[:3]:
        r.violation("compiled kernel: " + b['what'], dict(key='c02-kernel', **b))
    hists = corpus()
    for cap in CAPS:                       # every capacity and mode is present in every run
        for alt in (True, False):
            hists.append(gen_history(rng, dict(cap=cap, alt=alt)))
    n = 300 if quick else 20000
    while len(hists) < n:
        hists.append(gen_history(rng))
    cv = Coverage(cov_functions(), COV_ALLOW)
    if workers > 1:
        # the pool's processes are not monitored: a serial slice of the same generator (corpus first) is
        with cv:
            for h in hists[:150]:
                process(h)
        problems, results = run_batch(r, hists, 'c02', workers)
    else:
        with cv:                           # quick tier: the whole batch runs in this process
            problems, results = run_batch(r, hists, 'c02', workers)
    with cv:
        ntog = 40 if quick else 1500
        check_together(r, hists, ntog, rng)
    cv.finish(r)
    r.coverage['distribution'] = distribution(results)
    r.coverage['distribution']['groups of 2-3 objects alive at once, advanced alternately'] = ntog
    printed_model_sample(r, results, 10 if quick else 40)
    if not quick:
        ex_total = 0
        for cap in (2, 3):
            for alt in (True, False):
                # full length 5 for (cap 2, 2D) and (cap 3, 3D); length 4 for the two cross combinations
                ex = list(exhaustive_histories(cap, alt, 5 if (cap == 2) != alt else 4))
                ex_total += len(ex)
                p2, res2 = run_batch(r, ex, f"c02x{cap}{int(alt)}", workers)
                problems += p2
        r.coverage['exhaustive_sweep'] = dict(histories=ex_total, max_ops="5 (cap 2 in 2D, cap 3 in 3D), 4 (cap 2 in 3D, cap 3 in 2D)",
                                        alphabet="I0 I1 I2 I3 Pnext Pforeign S (+ final G, T)",
                                        capacities=[2, 3], modes=['3D', '2D'])
        r.hygiene('Props/C02.v')
        r.coqchk('Props/C02.v')
    r.log(f"correspondence: {len(results)} random histories, {problems} problem(s)")


def falsify(r):
    """independent search on the implementation only: the property's statement on fresh histories."""
    rng = random.Random(r.seed + 202)
    found = 0
    for k in range(4000):
        h = gen_history(rng, dict(cap=rng.choice([1, 2, 3, 5]))) if k % 2 else gen_history(rng)
        f = fails_statement(h)
        if f:
            small = shrink(h)
            ff = fails_statement(small) or f
            r.violation("Integrator history property fails on the implementation: " + ff[0],
                        dict(key='c02-history', history=small, failures=ff, original=h))
            found += 1
            if found >= 2:
                return
    for b in kernel_isolation(r, rng, 300)[:2]:
        r.violation("compiled kernel: " + b['what'], dict(key='c02-kernel', **b))
    check_together(r, corpus() + [gen_history(rng) for _ in range(300)], 150, rng)


def replay(obj):
    rep = obj.get('replay', obj)
    if 'histories' in rep:
        hs = [normalise(h) for h in rep['histories']]
        for i, h in enumerate(hs):
            print(f"object {i}:", json.dumps(h))
        for i, (t, h) in enumerate(zip(run_together(hs), hs)):
            a = run_real(h, make_data(h), deep=False)
            print(f"object {i} advanced alternately:", t.get('index'), "ok" if t['ok'] else t.get('error'))
            if t['ok'] and a['ok']:
                print(pd.DataFrame(t['values'], index=t['index']).to_string(header=False))
                print(" alone:")
                print(pd.DataFrame(a['values'], index=a['index']).to_string(header=False))
        f = together_failures(hs)
        print("property statement on the implementation:", f or "holds")
        return 1 if f else 0
    return _replay_single(obj)


def _replay_single(obj):
    rep = obj.get('replay', obj)
    if 'history' not in rep:
        print("kernel-level replay:", rep)
        class _R:
            def case(self, *a, **k):
                pass
        bad = kernel_isolation(_R(), random.Random(0), 200)
        print("kernel isolation failures:", bad[:3])
        return 1 if bad else 0
    h = normalise(rep['history'])
    d = make_data(h)
    print("history:", json.dumps(h))
    print("increments (dt theta dv), labels:", d['labels'])
    real = run_real(h, d)
    if real['ok']:
        print("implementation trajectory index:", real['index'])
        print(pd.DataFrame(real['values'], index=real['index'], columns=d['cols']).to_string())
        print("final capacity:", real['cap'], " kernel calls (offset, n, size):", real['klog'])
    else:
        print("implementation raised:", real['error'])
    fails = statement_failures(h, d, real)
    traj, obs, buf = expected_terms(h, d)
    try:
        mo = model_output('c02r', [coq_case(h, d, real, traj, obs, buf)])[0]
        print("model (Coq) trajectory provenance:")
        for t, p in (mo['traj'] if mo else []):
            print("  ", _py(lab(d, t)), p)
        print("model capacity:", mo and mo['cap'])
        if mo and real['ok']:
            nm = numeric_mismatches(h, d, real, mo['traj'], mo['obs'], [b for b in mo['buf'] if b != ('X',)])
            print("model vs implementation:", nm[0] or "bit-identical")
    except Exception as e:
        print("model evaluation failed:", e)
    print("property statement on the implementation:", fails or "holds")
    return 1 if fails else 0
