"""C14 — Sensor error simulation and estimation models are exact mutual inverses.

Proofs: coq/Props/C14.v about the hand-written model coq/Model/SensorModel.v.

Tie (correspondence): the SAME cases are run through pyins.inertial_sensor (EstimationModel,
Parameters) and through the Coq model (vm_compute inside coqc); the implementation's canonical
answers are written into the case file and compared INSIDE Coq, which prints only the indices
of mismatching cases.  All numbers are small dyadic rationals, so binary64 arithmetic is exact
and agrees with Qc (only np.linalg.solve is compared with a tolerance).  The two random streams
of Parameters.apply are replaced by a RandomState subclass returning recorded arrays.

Besides, the property's own statements (layout, names, H x = error, undo, accumulation,
variances) are tested directly on the implementation with an independent oracle, so that a
concrete violation is reported with a replay.
"""
import os
import re
import random
import traceback
import multiprocessing as mp
from fractions import Fraction

for _v in ('OMP_NUM_THREADS', 'OPENBLAS_NUM_THREADS', 'MKL_NUM_THREADS'):
    os.environ.setdefault(_v, '1')          # many worker processes: no BLAS thread pools

import numpy as np
import pandas as pd

import common
import linecov

RULE = ("an enable mask is 18 bits (bias x3, bias_walk x3, noise x3, scale_misal 3x3 row-major); "
        "enabled entries get random positive dyadic values k/8 (k/16 for scale_misal), disabled ones 0 "
        "or a negative number; quick: the 64 corner masks + 2000 random masks, each with ~9 random "
        "operations (output_matrix / update / get / state / correct / wrong-length update / reset); "
        "thorough: ALL 2^18 masks (structure + 4 operations) + 20000 random masks with full operation "
        "sequences; simulator cases: random transform/bias/noise/walk, both sensor types, 1-6 samples "
        "with irregular steps from {1/16,1/4,1,4} (exact square roots), recorded random streams; 30% of "
        "them (and a fixed corpus, and one of the two runs of every direct statement test) use magnitudes "
        "spanning decades: scale/misalignment errors 2^-18..2^-30 (pure scale factors with zero "
        "misalignment included), biases 2^-40, 2^-3, 2^6, all exactly representable; groups of 2-3 model "
        "objects alive at once are updated interleaved without reset_estimates; 35% of the constructor "
        "cases use whole-number values and every argument is passed in a random container/dtype (int64/int32/"
        "float32/float64 ndarray, list/tuple of ints or floats, bare scalar, None) while updates stay fractional; "
        "walking biases are also simulated with an exactly zero constant part; every valid model is also driven "
        "through a history of 5-9 update calls of which ~45% have a wrong length (9+n filter state, one too many, "
        "truncated slice, empty) whose ValueError is caught; a "
        "case is distinct by (mask, values) resp. by its full input tuple")

XYZ = 'xyz'
DT16 = [1, 4, 16, 64]                    # dt * 16 : 1/16, 1/4, 1, 4  (square roots 1/4, 1/2, 1, 2)
GYRO = ['gyro_x', 'gyro_y', 'gyro_z']
ACCEL = ['accel_x', 'accel_y', 'accel_z']
COQCHK_NOREC = False                     # stdlib-only development: recursive re-check (see report)
TOL_DEN = 2 ** 36                        # tolerance 2^-36 ~ 1.5e-11 for np.linalg.solve results


class RS(np.random.RandomState):
    """RandomState whose randn returns recorded arrays (and records the requested shapes)."""

    def __init__(self, arrays):
        super().__init__(0)
        self.arrays = [np.array(a, dtype=float) for a in arrays]
        self.calls = []

    def randn(self, *shape):
        self.calls.append(tuple(shape))
        a = self.arrays.pop(0)
        if a.shape != tuple(shape):
            raise RuntimeError(f"recorded stream has shape {a.shape}, requested {shape}")
        return a.copy()


# ----------------------------------------------------------------------------------------------
# masks and values

def mask_bits(mask):
    return ([(mask >> k) & 1 for k in range(3)], [(mask >> (3 + k)) & 1 for k in range(3)],
            [(mask >> (6 + k)) & 1 for k in range(3)], [(mask >> (9 + k)) & 1 for k in range(9)])


def corner_masks():
    sm_opts = [0, 0b111111111, 0b100010001, 0b011101110, 0b000001011 << 0, 0b110100000,
               0b000000111, 0b001001001]
    # bits are row-major: bit (3*o+i).  upper strict = xy,xz,yz = bits 1,2,5 ; lower strict = 3,6,7
    sm_opts[4] = (1 << 1) | (1 << 2) | (1 << 5)
    sm_opts[5] = (1 << 3) | (1 << 6) | (1 << 7)
    out = []
    for b in (0, 7):
        for w in (0, 7):
            for n in (0, 7):
                for s in sm_opts:
                    out.append(b | (w << 3) | (n << 6) | (s << 9))
    return out


WHOLE_FORMS = ['i64', 'i32', 'list_int', 'tuple_int', 'f32', 'list_float', 'tuple_float', 'f64']
FRAC_FORMS = ['f64', 'f64', 'f32', 'list_float', 'tuple_float']
DENS = dict(b=8, w=8, n=8, s=16)


def assign_forms(rng, args):
    """How each constructor argument is passed: float64 / float32 / integer ndarray, (nested) list or tuple
    of floats / ints, a bare scalar (all entries equal) or None (all entries zero).  Integer forms are used
    only when every entry is a whole number, so the VALUES (and hence the model) are unchanged."""
    forms = {}
    for k in 'bwns':
        v = args[k]
        whole = all(x % DENS[k] == 0 for x in v)
        opts = list(WHOLE_FORMS if whole else FRAC_FORMS)
        if len(set(v)) == 1:
            opts += ['scalar_int', 'scalar_int'] if whole else ['scalar_float']
            if v[0] == 0:
                opts += ['none']
        forms[k] = rng.choice(opts)
    args['forms'] = forms
    return args


def gen_args(rng, mask, negatives=True, whole=None):
    """ints over fixed denominators: b, w, n over 8; s over 16.  whole: every value is a whole number
    (so that integer-typed arguments are possible)."""
    bb, wb, nb, sb = mask_bits(mask)
    if whole is None:
        whole = rng.random() < 0.35

    def val(bit, hi, den):
        if whole:
            k = den * rng.randint(1, 2)
        else:
            k = rng.randint(1, hi)
        if bit:
            return k
        if negatives and rng.random() < 0.3:
            return -k
        return 0
    args = dict(mask=mask, b=[val(x, 16, 8) for x in bb], w=[val(x, 16, 8) for x in wb],
                n=[val(x, 16, 8) for x in nb], s=[val(x, 16, 16) for x in sb])
    return assign_forms(rng, args)


def arrays_of(args):
    """the VALUES of the four constructor arguments as float64 arrays (for the oracles)"""
    b = np.array(args['b']) / 8.0
    w = np.array(args['w']) / 8.0
    n = np.array(args['n']) / 8.0
    S = np.array(args['s']).reshape(3, 3) / 16.0
    return b, n, w, S


def _nest(a, seq, conv):
    if a.ndim == 1:
        return seq(conv(x) for x in a)
    return seq(_nest(row, seq, conv) for row in a)


def in_form(a, form):
    if form == 'f64':
        return a
    if form == 'f32':
        return a.astype(np.float32)
    if form == 'i64':
        return a.astype(np.int64)
    if form == 'i32':
        return a.astype(np.int32)
    if form == 'list_float':
        return _nest(a, list, float)
    if form == 'tuple_float':
        return _nest(a, tuple, float)
    if form == 'list_int':
        return _nest(a, list, int)
    if form == 'tuple_int':
        return _nest(a, tuple, int)
    if form == 'scalar_int':
        return int(a.flat[0])
    if form == 'scalar_float':
        return float(a.flat[0])
    if form == 'none':
        return None
    raise ValueError(form)


def ctor_kwargs(args):
    """the constructor arguments in the container / dtype the case prescribes"""
    b, n, w, S = arrays_of(args)
    f = args.get('forms') or {}
    return dict(bias_sd=in_form(b, f.get('b', 'f64')), noise=in_form(n, f.get('n', 'f64')),
                bias_walk=in_form(w, f.get('w', 'f64')), scale_misal_sd=in_form(S, f.get('s', 'f64')))


def construct(args):
    from pyins.inertial_sensor import EstimationModel
    try:
        return EstimationModel(**ctor_kwargs(args))
    except ValueError:
        return None


# ----------------------------------------------------------------------------------------------
# Coq literals

def zs(k):
    k = int(k)
    return str(k) if k >= 0 else f"({k})"


def to_int(x, den):
    f = Fraction(float(x)) * den
    if f.denominator != 1:
        raise ValueError(f"{x!r} is not a multiple of 1/{den}")
    return int(f)


def qc(x):
    f = Fraction(float(x))
    return f"(dy {f.denominator} {zs(f.numerator)})"


def c_dy3(den, v):
    return f"(dy3 {den} {zs(v[0])} {zs(v[1])} {zs(v[2])})"


def c_dy33(den, m):
    return "(dy33 %d %s)" % (den, " ".join(zs(x) for x in m))


def c_dyl(den, ks):
    return "(dyl %d [%s]%%Z)" % (den, "; ".join(str(int(k)) for k in ks))


def c_dyll(den, rows):
    return "(dyll %d [%s]%%Z)" % (den, "; ".join("[" + "; ".join(str(int(k)) for k in row) + "]" for row in rows))


def c_v3f(den, v):
    """V3 of floats, over `den` when exact, else as exact binary fractions"""
    try:
        return c_dy3(den, [to_int(x, den) for x in v])
    except ValueError:
        return "(mk3 %s %s %s)" % tuple(qc(x) for x in v)


def c_strs(names):
    return "[%s]%%string" % "; ".join('"%s"' % s for s in names)


def c_pairs(ps):
    return "[%s]" % "; ".join("(%d, %d)" % tuple(p) for p in ps)


def c_triples(ts):
    return "[%s]" % "; ".join("(%d, %d, %d)" % tuple(t) for t in ts)


HEADER = ("From Coq Require Import List String ZArith QArith Qcanon.\n"
          "From PV Require Import Model.SensorModel.\nImport ListNotations.\nOpen Scope nat_scope.\n")


def parse_mismatches(out):
    m = re.search(r"=\s*\[(.*?)\]\s*(?:%nat)?\s*:\s*list nat", out, re.S)
    if not m:
        return None
    body = m.group(1).strip()
    return [int(x) for x in body.replace("\n", " ").split(";")] if body else []


# ----------------------------------------------------------------------------------------------
# constructor + state machine cases

def emodel_literal(em, problems):
    ns, nn, no = em.n_states, em.n_noises, em.n_output_noises

    def unit_entries(M, name, shape):
        M = np.asarray(M)
        if M.shape != shape:
            problems.append(f"{name}.shape = {M.shape}, expected {shape}")
        idx = list(zip(*np.nonzero(M)))
        for ij in idx:
            if M[ij] != 1.0:
                problems.append(f"{name}{ij} = {M[ij]} is not a unit entry")
        return [(int(i), int(j)) for i, j in idx]
    if np.asarray(em.P).shape != (ns, ns) or np.asarray(em.F).shape != (ns, ns):
        problems.append(f"P/F shape {np.asarray(em.P).shape} {np.asarray(em.F).shape} for n_states={ns}")
    if np.any(np.asarray(em.F) != 0):
        problems.append("F is not zero")
    P = np.asarray(em.P)
    if P.ndim == 2 and P.shape[0] == P.shape[1] and np.any(P - np.diag(np.diag(P)) != 0):
        problems.append("P is not diagonal")
    Pd = [to_int(x, 256) for x in (np.diag(P) if P.ndim == 2 and P.size else [])]
    G = unit_entries(em.G, 'G', (ns, nn))
    H = unit_entries(em.H, 'H', (3, ns))
    J = unit_entries(em.J, 'J', (3, no))
    oa, ia, st = em._scale_misal_data
    sm = list(zip(map(int, oa), map(int, ia), map(int, st)))
    if bool(em.scale_misal_modelled) != bool(sm):
        problems.append("scale_misal_modelled inconsistent with _scale_misal_data")
    return ("(mk_emodel %s %d %d %d %s %s %s %s %s %s %s)" % (
        c_strs(em.states), ns, nn, no, c_dyl(256, Pd),
        c_dyl(8, [to_int(x, 8) for x in em.q]), c_dyl(8, [to_int(x, 8) for x in em.v]),
        c_pairs(G), c_pairs(H), c_pairs(J), c_triples(sm)))


LIGHT_OPS = ['out', 'upd', 'get', 'state']


def wrong_length(rng, ns):
    """a length different from n_states: the full filter state (9 + n), one too many, a truncated slice, empty"""
    opts = [9 + ns, ns + 1, ns + rng.randint(2, 4)]
    if ns > 0:
        opts += [0, ns - 1, rng.randrange(ns)]
    return rng.choice(opts)


def gen_ops(rng, em, light, stats):
    ns = em.n_states
    if light:
        seq = list(LIGHT_OPS)
    else:
        seq = ['out', 'upd', 'get', 'state', 'upd', 'cor',
               rng.choice(['bad', 'reset', 'upd', 'out']), 'get', 'cor', rng.choice(['bad', 'state', 'out'])]
    lits, log = [], []
    for kind in seq:
        stats[kind] = stats.get(kind, 0) + 1
        if kind == 'out':
            r8 = [rng.randint(-16, 16) for _ in range(3)]
            M = np.asarray(em.output_matrix(np.array(r8) / 8.0))
            if M.shape != (3, ns):
                raise AssertionError(f"output_matrix shape {M.shape}")
            rows = [[to_int(x, 8) for x in row] for row in M]
            lits.append(f"OOutput {c_dy3(8, r8)} {c_dyll(8, rows)}")
            log.append(['out', r8, rows])
        elif kind == 'upd':
            x = [rng.randint(-6, 6) for _ in range(ns)]
            em.update_estimates(np.array(x) / 16.0)
            lits.append(f"OUpdate {c_dyl(16, x)} false")
            log.append(['upd', x])
        elif kind == 'bad':
            x = [rng.randint(-6, 6) for _ in range(wrong_length(rng, ns))]
            try:
                em.update_estimates(np.array(x) / 16.0)
                raised = False
            except ValueError:
                raised = True
            lits.append(f"OUpdate {c_dyl(16, x)} {'true' if raised else 'false'}")
            log.append(['bad', x, raised])
            # what a rejected call left behind is observed at once
            T = [to_int(x_, 16) for x_ in np.asarray(em.transform).reshape(-1)]
            b = [to_int(x_, 16) for x_ in em.bias]
            lits.append(f"OState {c_dy33(16, T)} {c_dy3(16, b)}")
            log.append(['state', T, b])
        elif kind == 'reset':
            em.reset_estimates()
            lits.append("OReset")
            log.append(['reset'])
        elif kind == 'get':
            g = em.get_estimates()
            if list(g.index) != list(em.states):
                raise AssertionError("get_estimates index differs from states")
            vals = [to_int(x, 16) for x in g.values]
            lits.append(f"OGet {c_dyl(16, vals)}")
            log.append(['get', vals])
        elif kind == 'state':
            T = [to_int(x, 16) for x in np.asarray(em.transform).reshape(-1)]
            b = [to_int(x, 16) for x in em.bias]
            lits.append(f"OState {c_dy33(16, T)} {c_dy3(16, b)}")
            log.append(['state', T, b])
        elif kind == 'cor':
            if abs(np.linalg.det(em.transform)) < 0.125:
                continue
            dt16 = rng.choice([1, 4, 8, 16, 24])
            inc8 = [rng.randint(-32, 32) for _ in range(3)]
            res = em.correct_increments(dt16 / 16.0, pd.Series(np.array(inc8) / 8.0, index=GYRO))
            if list(res.index) != GYRO:
                raise AssertionError("correct_increments changed the index")
            lits.append("OCorrect (dy 16 %d) %s (dy %d 1) (Some (mk3 %s %s %s))" % (
                dt16, c_dy3(8, inc8), TOL_DEN, *(qc(x) for x in res.values)))
            log.append(['cor', dt16, inc8, [float(x) for x in res.values]])
    return "[%s]" % "; ".join(lits), log


def bcase_literal(args, rng, light, stats, problems):
    em = construct(args)
    head = "%s %s %s %s" % (c_dy3(8, args['b']), c_dy3(8, args['n']), c_dy3(8, args['w']), c_dy33(16, args['s']))
    if em is None:
        return f"(mk_bcase {head} None [])", dict(raised=True)
    lit = emodel_literal(em, problems)
    summary = dict(states=list(em.states), n=[em.n_states, em.n_noises, em.n_output_noises])
    ops, log = gen_ops(rng, em, light, stats)
    summary['ops'] = log
    return f"(mk_bcase {head} (Some {lit}) {ops})", summary


# ----------------------------------------------------------------------------------------------
# simulator cases

P30, P40 = 2 ** 30, 2 ** 40


def gen_sim(rng, decades=None):
    """decades=True: ppm-level scale/misalignment errors 2^-18 .. 2^-30 (transform over 2^30), biases
    2^-40 / 2^-3 / 2^6 (over 2^40): exactly representable, far below np.allclose-style tolerances."""
    if decades is None:
        decades = rng.random() < 0.3
    if decades:
        Tden, bden = P30, P40
        pure_scale = rng.random() < 0.6                       # zero misalignment
        T = []
        for k in range(9):
            diag = k in (0, 4, 8)
            e = 0
            if (diag and rng.random() < 0.8) or (not diag and not pure_scale and rng.random() < 0.4):
                e = rng.choice([-1, 1]) * 2 ** (30 - rng.randint(18, 30))
            T.append(e + (P30 if diag else 0))
        b = [rng.choice([0, 1, -1, 2 ** 46, -2 ** 46, 2 ** 37]) for _ in range(3)]
    else:
        Tden, bden = 16, 8
        E = [rng.randint(-4, 4) if rng.random() < 0.5 else 0 for _ in range(9)]
        T = [E[k] + (16 if k in (0, 4, 8) else 0) for k in range(9)]
        b = [rng.randint(-16, 16) if rng.random() < 0.6 else 0 for _ in range(3)]
    n4 = [rng.randint(1, 6) if rng.random() < 0.6 else 0 for _ in range(3)]
    w4 = [rng.randint(1, 6) if rng.random() < 0.5 else 0 for _ in range(3)]
    ty = rng.choice(['rate', 'increment'])
    n = rng.choice([1, 2, 2, 3, 3, 4, 5, 6])
    t = rng.randint(-32, 32)
    ts16 = [t]
    for _ in range(n - 1):
        t += rng.choice(DT16)
        ts16.append(t)
    R = [[rng.randint(-16, 16) for _ in range(3)] for _ in range(n)]
    zw = rng.random() < 0.15
    zn = rng.random() < 0.15
    W = [[0 if zw else rng.randint(-8, 8) for _ in range(3)] for _ in range(n)]
    N = [[0 if zn else rng.randint(-8, 8) for _ in range(3)] for _ in range(n)]
    return dict(T16=T, Tden=Tden, b8=b, bden=bden, n4=n4, w4=w4, ty=ty, ts16=ts16, R8=R, W8=W, N8=N)


def fixed_sim_cases():
    """pure scale-factor errors of a few ppm and below, zero misalignment, tiny and large biases, both types"""
    out = []
    for ty in ('rate', 'increment'):
        for es, b in (([18, 24, 30], [1, 0, 2 ** 46]), ([20, 20, 20], [0, 0, 0]), ([30, 29, 18], [-1, 2 ** 37, -2 ** 46])):
            T = [0] * 9
            for k, e in zip((0, 4, 8), es):
                T[k] = P30 + (2 ** (30 - e) if k != 4 else -2 ** (30 - e))
            for nz in (False, True):
                out.append(dict(T16=T, Tden=P30, b8=b, bden=P40, n4=[2, 0, 3] if nz else [0, 0, 0],
                                w4=[1, 0, 0] if nz else [0, 0, 0], ty=ty, ts16=[-3, 1, 2, 18, 82],
                                R8=[[8, -16, 3], [1, 2, 4], [-7, 16, 0], [16, 16, 16], [5, -9, 13]],
                                W8=[[3, 1, -2]] * 5 if nz else [[0, 0, 0]] * 5,
                                N8=[[-4, 2, 8]] * 5 if nz else [[0, 0, 0]] * 5))
    return out


def run_sim(c):
    """Run Parameters.apply on a simulator case; returns (out, columns, df_values) or None (raised)."""
    from pyins.inertial_sensor import Parameters
    n = len(c['ts16'])
    rs = RS([np.array(c['W8']).reshape(n, 3) / 8.0, np.array(c['N8']).reshape(n, 3) / 8.0])
    p = Parameters(np.array(c['T16']).reshape(3, 3) / float(c.get('Tden', 16)), np.array(c['b8']) / float(c.get('bden', 8)),
                   np.array(c['n4']) / 4.0, np.array(c['w4']) / 4.0, rng=rs)
    ts = np.array(c['ts16']) / 16.0
    df = pd.DataFrame(np.array(c['R8']).reshape(n, 3) / 8.0, index=ts, columns=GYRO)
    try:
        out = p.apply(df, c['ty'])
    except IndexError:
        return None
    if list(out.columns) != GYRO or not np.array_equal(np.asarray(out.index, dtype=float), ts):
        raise AssertionError("apply changed index/columns")
    if rs.calls != [(n, 3), (n, 3)]:
        raise AssertionError(f"unexpected randn calls {rs.calls}")
    if not np.array_equal(np.asarray(p.data_frame.index, dtype=float), ts):
        raise AssertionError("data_frame index differs from readings index")
    return out.values, list(p.data_frame.columns), p.data_frame.values


def scase_literal(c):
    res = run_sim(c)
    n = len(c['ts16'])
    p = "(mk_params %s %s %s %s)" % (c_dy33(c.get('Tden', 16), c['T16']), c_dy3(c.get('bden', 8), c['b8']),
                                     c_dy3(4, c['n4']), c_dy3(4, c['w4']))
    ty = 'Rate' if c['ty'] == 'rate' else 'Increment'
    v3l = lambda den, rows: "[%s]" % "; ".join(c_dy3(den, r) for r in rows)
    head = "%s %s %s %s %s %s" % (p, ty, c_dyl(16, c['ts16']), v3l(8, c['R8']), v3l(8, c['W8']), v3l(8, c['N8']))
    if res is None:
        return f"(mk_scase {head} None [] [])", dict(raised=True, n=n)
    out, cols, dfv = res
    outl = "[%s]" % "; ".join(c_v3f(4096, row) for row in out)
    dfl = "[%s]" % "; ".join("[%s]" % "; ".join(qc(x) for x in row) for row in dfv)
    return (f"(mk_scase {head} (Some {outl}) {c_strs(cols)} {dfl})",
            dict(n=n, cols=cols, out=[[float(x) for x in row] for row in out]))


def gen_f(rng):
    mask = rng.getrandbits(18)
    bb, wb, _, _ = mask_bits(mask)
    mask &= ~(sum((wb[k] and not bb[k]) << (3 + k) for k in range(3)))     # keep the constructor happy
    args = gen_args(rng, mask, negatives=rng.random() < 0.3)
    for k in range(3):
        if args['b'][k] <= 0 and args['w'][k] > 0:
            args['w'][k] = 0
    assign_forms(rng, args)
    zT = [rng.choice([-6, -3, -1, 1, 2, 5, 0]) for _ in range(9)]
    zb = [rng.choice([-6, -3, -1, 1, 2, 5, 0]) for _ in range(3)]
    return dict(args=args, zT4=zT, zb4=zb)


def fcase_literal(c):
    from pyins.inertial_sensor import Parameters
    em = construct(c['args'])
    Z = np.zeros((2, 3))
    rs = RS([np.array(c['zT4']).reshape(3, 3) / 4.0, np.array(c['zb4']) / 4.0, Z, Z])
    p = Parameters.from_EstimationModel(em, rs)
    p.apply(pd.DataFrame(Z, index=[0.0, 0.25], columns=GYRO), 'rate')
    if rs.calls != [(3, 3), (3,), (2, 3), (2, 3)]:
        raise AssertionError(f"unexpected randn calls {rs.calls}")
    a = c['args']
    return "(mk_fcase %s %s %s %s %s %s %s %s %s %s %s)" % (
        c_dy3(8, a['b']), c_dy3(8, a['n']), c_dy3(8, a['w']), c_dy33(16, a['s']),
        c_dy33(4, c['zT4']), c_dy3(4, c['zb4']),
        c_dy33(64, [to_int(x, 64) for x in np.asarray(p.transform).reshape(-1)]),
        c_dy3(32, [to_int(x, 32) for x in p.bias]),
        c_dy3(8, [to_int(x, 8) for x in p.noise]), c_dy3(8, [to_int(x, 8) for x in p.bias_walk]),
        c_strs(list(p.data_frame.columns)))


# ----------------------------------------------------------------------------------------------
# the property's own statements, tested on the implementation with an independent oracle

def oracle_states(b, S):
    return ([f"bias_{XYZ[a]}" for a in range(3) if b[a] > 0] +
            [f"sm_{XYZ[o]}{XYZ[i]}" for o in range(3) for i in range(3) if S[o, i] > 0])


def direct_checks(args, seed, full=True):
    """Returns a list of (clause, message) on which the PROPERTY fails for the real classes."""
    from pyins.inertial_sensor import EstimationModel, Parameters
    rng = random.Random(seed)
    fails = []

    def bad(clause, msg):
        fails.append((clause, msg))
    b, n, w, S = arrays_of(args)
    should_raise = bool(any(w[a] > 0 and b[a] <= 0 for a in range(3)))
    try:
        em = EstimationModel(**ctor_kwargs(args))
        raised = False
    except ValueError:
        raised = True
    if raised != should_raise:
        bad('walk_requires_bias', f"constructor raised={raised}, documented={should_raise}")
    if raised:
        return fails
    # ---- layout consistency
    names = oracle_states(b, S)
    ns = len(names)
    walk_axes = [a for a in range(3) if b[a] > 0 and w[a] > 0]
    noise_axes = [a for a in range(3) if n[a] > 0]
    if list(em.states) != names:
        bad('layout', f"states {list(em.states)} != expected {names}")
    if len(set(em.states)) != len(em.states):
        bad('layout', "duplicate state names")
    dims = dict(n_states=(em.n_states, ns), n_noises=(em.n_noises, len(walk_axes)),
                n_output_noises=(em.n_output_noises, len(noise_axes)),
                P=(np.shape(em.P), (ns, ns)), F=(np.shape(em.F), (ns, ns)),
                G=(np.shape(em.G), (ns, len(walk_axes))), H=(np.shape(em.H), (3, ns)),
                J=(np.shape(em.J), (3, len(noise_axes))), q=(np.shape(em.q), (len(walk_axes),)),
                v=(np.shape(em.v), (len(noise_axes),)))
    for k, (got, want) in dims.items():
        if got != want:
            bad('layout', f"{k}: {got} != {want}")
    if fails:
        return fails
    if np.any(em.F != 0):
        bad('layout', "F != 0")
    sd = {f"bias_{XYZ[a]}": b[a] for a in range(3)}
    sd.update({f"sm_{XYZ[o]}{XYZ[i]}": S[o, i] for o in range(3) for i in range(3)})
    Pw = np.diag([sd[s] ** 2 for s in names]) if ns else np.zeros((0, 0))
    if not np.array_equal(em.P, Pw):
        bad('layout', "P is not diag(sd^2) in state order")
    Hw = np.zeros((3, ns))
    Gw = np.zeros((ns, len(walk_axes)))
    for a in range(3):
        if b[a] > 0:
            Hw[a, names.index(f"bias_{XYZ[a]}")] = 1
    for c, a in enumerate(walk_axes):
        Gw[names.index(f"bias_{XYZ[a]}"), c] = 1
    Jw = np.zeros((3, len(noise_axes)))
    for c, a in enumerate(noise_axes):
        Jw[a, c] = 1
    if not np.array_equal(em.H, Hw):
        bad('layout', "H has not exactly one unit per bias state at (axis, state)")
    if not np.array_equal(em.G, Gw) or not np.array_equal(em.q, [w[a] for a in walk_axes]):
        bad('layout', "G/q: not one unit per walking bias in the bias's row with q = bias_walk")
    if not np.array_equal(em.J, Jw) or not np.array_equal(em.v, [n[a] for a in noise_axes]):
        bad('layout', "J/v do not match the enabled noise axes")
    if fails or not full:
        return fails
    # ---- simulator with exactly the enabled terms; two magnitude flavours:
    #   'decades'  : ppm-level scale/misalignment 2^-18 .. 2^-30, biases 2^-40 / 2^6 (all exactly representable;
    #                a simulator that treats "almost identity" as identity must fail the exact comparisons)
    #   'ordinary' : entries k/16, biases k/8
    ns_ = np.maximum(n, 0)
    ws_ = np.maximum(w, 0)
    for flavour in ('decades', 'ordinary'):
        E = np.zeros((3, 3))
        bv = np.zeros(3)
        for o in range(3):
            for i in range(3):
                if S[o, i] > 0:
                    if flavour == 'decades':
                        E[o, i] = rng.choice([-1.0, 1.0]) * 2.0 ** -rng.randint(18, 30)
                    else:
                        E[o, i] = rng.choice([-4, -3, -2, -1, 1, 2, 3, 4]) / 16.0
        for a in range(3):
            if b[a] > 0:
                if flavour == 'decades':
                    bv[a] = rng.choice([-1.0, 1.0]) * rng.choice([2.0 ** -40, 2.0 ** -40, 2.0 ** 6, 2.0 ** -3])
                else:
                    bv[a] = rng.choice([-9, -5, -2, -1, 1, 3, 4, 11]) / 8.0
        T = np.eye(3) + E
        x = np.array([bv[a] for a in range(3) if b[a] > 0] +
                     [E[o, i] for o in range(3) for i in range(3) if S[o, i] > 0])
        m = 4
        ts = np.cumsum([rng.randint(-16, 16) / 16.0] + [rng.choice(DT16) / 16.0 for _ in range(m - 1)])
        dtu = np.diff(ts)
        dtu = np.hstack([dtu[0], dtu])
        R = np.array([[rng.randint(-16, 16) / 8.0 for _ in range(3)] for _ in range(m)])
        df = pd.DataFrame(R, index=ts, columns=GYRO)
        Z = np.zeros((m, 3))

        def sim(ty, W=Z, N=Z):
            p = Parameters(T, bv, ns_, ws_, rng=RS([W, N]))
            return p.apply(df, ty), p.data_frame
        out_r, tab = sim('rate')
        out_i, tab_i = sim('increment')
        # names
        if list(tab.columns) != list(em.states) or list(tab_i.columns) != list(em.states):
            bad('names', f"[{flavour}] data_frame columns {list(tab.columns)} != states {list(em.states)}")
            return fails
        if ns and not np.array_equal(tab.values[0], x):
            bad('names', f"data_frame row {tab.values[0]} != parameters in state order {x}")
        # H x = error
        err_r = out_r.values - R
        err_i = out_i.values - R
        for k in range(m):
            hr = np.asarray(em.output_matrix(R[k])) @ x
            hi = (np.asarray(em.output_matrix(R[k] / dtu[k])) @ x) * dtu[k]
            if not np.array_equal(hr, err_r[k]):
                bad('output_matrix_is_error', f"[{flavour}] rate row {k}: H x = {hr}, error = {err_r[k]}")
            if not np.array_equal(hi, err_i[k]):
                bad('output_matrix_is_error', f"[{flavour}] increment row {k}: H x dt = {hi}, error = {err_i[k]}")
        if em.scale_misal_modelled:
            Hs = np.asarray(em.output_matrix(R))
            if Hs.shape != (m, 3, ns) or not np.array_equal(np.einsum('kij,j->ki', Hs, x), err_r):
                bad('output_matrix_is_error', "stacked output_matrix(readings) @ x != error")
        # undo
        em.reset_estimates()
        em.update_estimates(x)
        est = em.get_estimates()
        if list(est.index) != list(em.states) or not np.array_equal(est.values, x):
            bad('get_after_update', f"get_estimates {est.values} != {x}")
        if not np.array_equal(em.transform, T) or not np.array_equal(em.bias, bv):
            bad('correct_undoes_apply', "estimates differ from the simulated parameters after one update")
        cor = em.correct_increments(dtu, out_i)
        if np.abs(cor.values - R).max() > 1e-9:
            bad('correct_undoes_apply', f"[{flavour}] max |corrected - true| = {np.abs(cor.values - R).max()}")
        cor1 = em.correct_increments(dtu[1], out_i.iloc[1])
        if np.abs(cor1.values - R[1]).max() > 1e-9:
            bad('correct_undoes_apply', "Series form does not undo the error")
    # ---- a walking bias whose CONSTANT part is exactly zero is still a bias the estimator has a state for:
    #      the table must list it, and the table row of every sample must reproduce the applied error
    if walk_axes:
        bz = bv.copy()
        zero_axes = [a for a in walk_axes if rng.random() < 0.7] or walk_axes[:1]
        for a in zero_axes:
            bz[a] = 0.0
        Wn = np.array([[rng.choice([-8, -3, -1, 1, 2, 5]) / 8.0 for _ in range(3)] for _ in range(m)])
        for ty in ('rate', 'increment'):
            pz = Parameters(T, bz, ns_, ws_, rng=RS([Wn, Z]))
            oz = pz.apply(df, ty)
            tz = pz.data_frame
            if list(tz.columns) != list(em.states):
                bad('names', f"{ty}: constant bias 0 with bias_walk > 0 on axes {zero_axes}: data_frame columns "
                             f"{list(tz.columns)} != states {list(em.states)}")
                continue
            errz = oz.values - R
            for k in range(m):
                xk = tz.values[k]
                if ty == 'rate':
                    hx = np.asarray(em.output_matrix(R[k])) @ xk
                else:
                    hx = (np.asarray(em.output_matrix(R[k] / dtu[k])) @ xk) * dtu[k]
                if not np.array_equal(hx, errz[k]):
                    bad('output_matrix_is_error', f"{ty} row {k}, zero constant bias + walk on {zero_axes}: "
                                                  f"H x(table row) = {hx}, simulated error = {errz[k]}")
                    break
            if not np.any(tz[[f"bias_{XYZ[a]}" for a in zero_axes]].values[1:] != 0):
                bad('variances_agree', f"{ty}: the walking bias of axes {zero_axes} never moves")
    # accumulate
    x1 = np.array([rng.randint(-6, 6) / 16.0 for _ in range(ns)])
    x2 = np.array([rng.randint(-6, 6) / 16.0 for _ in range(ns)])
    em.reset_estimates()
    em.update_estimates(x1)
    em.update_estimates(x2)
    A = (em.transform.copy(), em.bias.copy(), em.get_estimates().values.copy())
    em.reset_estimates()
    em.update_estimates(x1 + x2)
    B = (em.transform.copy(), em.bias.copy(), em.get_estimates().values.copy())
    if not all(np.array_equal(u, v_) for u, v_ in zip(A, B)):
        bad('accumulate', f"update(x1); update(x2) != update(x1+x2) for x1={x1}, x2={x2}")
    if not np.array_equal(B[2], x1 + x2):
        bad('get_after_update', f"get_estimates {B[2]} != sum of updates {x1 + x2}")
    em.reset_estimates()
    if np.any(em.get_estimates().values != 0):
        bad('get_after_update', "estimates not zero after reset")
    try:
        em.update_estimates(np.zeros(ns + 1))
        bad('accumulate', "update_estimates accepted a vector of the wrong length")
    except ValueError:
        pass
    # variances
    JvJ = em.J @ np.diag(em.v ** 2) @ em.J.T
    GqG = em.G @ np.diag(em.q ** 2) @ em.G.T
    a = rng.randrange(3)
    k = rng.randrange(m)
    Ni = Z.copy()
    Ni[k, a] = 1.0
    for ty, base in (('rate', out_r), ('increment', out_i)):
        o2, _ = sim(ty, N=Ni)
        d = o2.values - base.values
        coef = d[k, a]
        d[k, a] = 0
        if np.any(d != 0):
            bad('variances_agree', f"{ty}: noise sample ({k},{a}) leaks into other outputs")
        integ = coef * dtu[k] if ty == 'rate' else coef
        if integ ** 2 != ns_[a] ** 2 * dtu[k] or integ ** 2 != JvJ[a, a] * dtu[k]:
            bad('variances_agree', f"{ty}: white noise over dt={dtu[k]} has variance {integ ** 2}, "
                                   f"simulated noise^2 dt = {ns_[a] ** 2 * dtu[k]}, estimator J v^2 J' dt = {JvJ[a, a] * dtu[k]}")
    j = rng.randrange(1, m)
    Wi = Z.copy()
    Wi[j, a] = 1.0
    col = f"bias_{XYZ[a]}"
    for ty, base, tb in (('rate', out_r, tab), ('increment', out_i, tab_i)):
        o3, t3 = sim(ty, W=Wi)
        if col in t3.columns:
            dbias = t3[col].values - tb[col].values
            step = dbias[j]
            want = np.where(np.arange(m) >= j, step, 0.0)
            if not np.array_equal(dbias, want):
                bad('variances_agree', f"bias walk is not cumulative: {dbias}")
            kk = names.index(col)
            if step ** 2 != ws_[a] ** 2 * (ts[j] - ts[j - 1]) or step ** 2 != GqG[kk, kk] * (ts[j] - ts[j - 1]):
                bad('variances_agree', f"bias increment over dt={ts[j] - ts[j - 1]} has variance {step ** 2}, "
                                       f"walk^2 dt = {ws_[a] ** 2 * (ts[j] - ts[j - 1])}, estimator G q^2 G' dt = "
                                       f"{GqG[kk, kk] * (ts[j] - ts[j - 1])}")
            gain = np.ones(m) if ty == 'rate' else dtu
            dd = o3.values - base.values
            if not np.array_equal(dd[:, a], want * gain):
                bad('variances_agree', f"{ty}: bias walk enters the output as {dd[:, a]}, expected {want * gain}")
        elif ws_[a] != 0:
            bad('names', f"walking bias {col} missing from data_frame")
    # parameters drawn from the model itself are named like its states (sd >= 0)
    if min(b.min(), w.min(), S.min()) >= 0:
        zT = np.array([rng.choice([-5, -2, -1, 1, 3, 4]) / 4.0 for _ in range(9)]).reshape(3, 3)
        zb = np.array([rng.choice([-5, -2, -1, 1, 3, 4]) / 4.0 for _ in range(3)])
        pf = Parameters.from_EstimationModel(em, RS([zT, zb, Z, Z]))
        pf.apply(df, 'rate')
        if list(pf.data_frame.columns) != list(em.states):
            bad('names', f"from_EstimationModel: data_frame columns {list(pf.data_frame.columns)} != states {list(em.states)}")
    return fails


def multi_model_checks(args_list, seed):
    """Several EstimationModel objects alive at once, updated WITHOUT a prior reset_estimates, interleaved;
    a model built after another one was updated.  Every model's estimates must be its OWN updates only."""
    from pyins.inertial_sensor import EstimationModel
    rng = random.Random(seed)
    fails = []

    def build(a):
        return EstimationModel(**ctor_kwargs(a))

    def fresh_ok(em, who):
        if np.any(em.get_estimates().values != 0) or not np.array_equal(em.transform, np.eye(3)) or np.any(em.bias != 0):
            fails.append(('estimates_independent', f"{who}: a newly built model does not start from zero estimates: "
                          f"get_estimates={em.get_estimates().values.tolist()}, bias={np.asarray(em.bias).tolist()}"))
            return False
        return True
    ems, sums = [], []
    # build the first, update it, then build the others (must start fresh), then interleave updates
    for k, a in enumerate(args_list):
        em = build(a)
        if not fresh_ok(em, f"model {k} (built after {k} other model(s) were updated)"):
            return fails
        x = np.array([rng.randint(-6, 6) / 16.0 for _ in range(em.n_states)])
        em.update_estimates(x)
        ems.append(em)
        sums.append(x)
    for rnd in range(2):
        for k in rng.sample(range(len(ems)), len(ems)):
            x = np.array([rng.randint(-6, 6) / 16.0 for _ in range(ems[k].n_states)])
            ems[k].update_estimates(x)
            sums[k] = sums[k] + x
    inc = pd.Series(np.array([rng.randint(-32, 32) / 8.0 for _ in range(3)]), index=GYRO)
    for k, (em, a) in enumerate(zip(ems, args_list)):
        g = em.get_estimates().values
        if not np.array_equal(g, sums[k]):
            fails.append(('estimates_independent', f"model {k}: get_estimates {g.tolist()} != sum of ITS updates "
                          f"{sums[k].tolist()} ({len(ems)} models updated interleaved, no reset_estimates)"))
            continue
        b, _, _, S = arrays_of(a)
        names = oracle_states(b, S)
        T = np.eye(3)
        bv = np.zeros(3)
        for nm, val in zip(names, sums[k]):
            if nm.startswith('bias_'):
                bv[XYZ.index(nm[5])] = val
            else:
                T[XYZ.index(nm[3]), XYZ.index(nm[4])] += val
        if abs(np.linalg.det(T)) >= 0.125:
            want = np.linalg.solve(T, inc.values - bv * 0.25)
            got = em.correct_increments(0.25, inc).values
            if np.abs(got - want).max() > 1e-9:
                fails.append(('estimates_independent', f"model {k}: correct_increments uses estimates that are not its own: "
                              f"{got.tolist()} != {want.tolist()}"))
    late = build(args_list[0])
    fresh_ok(late, "a model built after all others were updated")
    return fails


def gen_history(rng, ns):
    """valid updates interleaved with rejected ones (too long / truncated / empty); entries over 16"""
    h = []
    for _ in range(rng.randint(5, 8)):
        k = ns if rng.random() < 0.55 else wrong_length(rng, ns)
        h.append([rng.randint(-6, 6) for _ in range(k)])
    if not any(len(x) != ns for x in h):
        h.insert(rng.randrange(1, len(h)), [rng.randint(-6, 6) for _ in range(9 + ns)])
    if not any(len(x) == ns for x in h):
        h.insert(0, [rng.randint(-6, 6) for _ in range(ns)])
    return h


def history_checks(args, seed, history=None):
    """A caller feeds a history of vectors to update_estimates, catching the ValueError of the wrong-length
    ones, and keeps using the model.  Clauses: a rejected call raises and changes NOTHING; the estimates are
    the sum of the accepted vectors = one update (of a fresh model) with that sum; correct_increments agrees."""
    rng = random.Random(seed)
    em = construct(args)
    if em is None:
        return [], None
    ns = em.n_states
    h = history if history is not None else gen_history(rng, ns)
    fails = []
    total = np.zeros(ns)

    def snap():
        return np.array(em.transform, dtype=float).copy(), np.array(em.bias, dtype=float).copy(), em.get_estimates().values.copy()
    for step, x in enumerate(h):
        xv = np.array(x, dtype=float) / 16.0
        before = snap()
        try:
            em.update_estimates(xv)
            raised = False
        except ValueError:
            raised = True
        if raised != (len(x) != ns):
            fails.append(('accumulate', f"step {step}: update_estimates with {len(x)} values for {ns} states "
                                        f"raised={raised}"))
            break
        if raised:
            after = snap()
            if not all(np.array_equal(u, v_) for u, v_ in zip(before, after)):
                fails.append(('accumulate', f"step {step}: a REJECTED update ({len(x)} values for {ns} states, ValueError "
                                            f"caught) changed the estimates: {before[2].tolist()} -> {after[2].tolist()}"))
                break
        else:
            total = total + xv
    if not fails:
        got = snap()
        one = construct(args)
        one.update_estimates(total)
        ref = (np.array(one.transform, dtype=float), np.array(one.bias, dtype=float), one.get_estimates().values)
        if not np.array_equal(got[2], total):
            fails.append(('get_after_update', f"after the history get_estimates = {got[2].tolist()} != sum of the accepted "
                                              f"updates {total.tolist()}"))
        elif not all(np.array_equal(u, v_) for u, v_ in zip(got, ref)):
            fails.append(('accumulate', "after the history transform/bias differ from ONE update with the sum"))
        elif abs(np.linalg.det(got[0])) >= 0.125:
            inc = pd.Series(np.array([rng.randint(-32, 32) / 8.0 for _ in range(3)]), index=GYRO)
            if np.abs(em.correct_increments(0.25, inc).values - one.correct_increments(0.25, inc).values).max() > 1e-12:
                fails.append(('correct_undoes_apply', "correct_increments after the history differs from one update with the sum"))
    return fails, h


def imu_check(seed):
    """apply_imu_parameters = the two triads applied independently, identity by default."""
    from pyins.inertial_sensor import Parameters, apply_imu_parameters
    rng = random.Random(seed)
    m = 3
    ts = np.cumsum([0.0] + [rng.choice(DT16) / 16.0 for _ in range(m - 1)])
    imu = pd.DataFrame(np.array([[rng.randint(-16, 16) / 8.0 for _ in range(6)] for _ in range(m)]),
                       index=ts, columns=GYRO + ACCEL)
    fails = []
    for ty in ('rate', 'increment'):
        if not np.array_equal(apply_imu_parameters(imu, ty).values, imu.values):
            fails.append(('apply_imu_parameters', f"default parameters change the {ty} readings"))
        Z = np.zeros((m, 3))
        mk = lambda s: Parameters(np.eye(3) + np.array([[1, 0, 2], [0, -1, 0], [3, 0, 0]]) / 16.0 * s,
                                  np.array([1, -2, 3]) / 8.0 * s, rng=RS([Z, Z]))
        both = apply_imu_parameters(imu, ty, mk(1), mk(-1))
        sep = pd.concat([mk(1).apply(imu[GYRO], ty), mk(-1).apply(imu[ACCEL], ty)], axis='columns')
        if list(both.columns) != GYRO + ACCEL or not np.array_equal(both.values, sep.values):
            fails.append(('apply_imu_parameters', f"{ty}: result differs from the two triads applied separately"))
    return fails


# ----------------------------------------------------------------------------------------------
# line coverage of the anchored code, and the fixed corpus that reaches every branch deterministically

# lines that may stay unreached, each with the reason
ALLOW = {
    'assert False': "EstimationModel.correct_increments: reached only for an `increments` that is neither a "
                    "DataFrame nor a Series (no such input exists in the model or in pyins' own callers)",
}


def fixed_direct_cases():
    """run first, in the main process: integer-typed / float32 / list / tuple / scalar / None constructor
    arguments with whole-number values (the estimates must still be real numbers), and walking biases on
    all axes (zero constant bias + walk in the simulator)."""
    F = lambda b, w, n, s: dict(b=b, w=w, n=n, s=s)
    ones9, diag9 = [16] * 9, [16, 0, 0, 0, 16, 0, 0, 0, 16]
    cases = [
        (dict(mask=-1, b=[8, 16, 8], w=[8, 0, 8], n=[8, 8, 0], s=diag9), F('list_int', 'list_int', 'tuple_int', 'i64')),
        (dict(mask=-1, b=[0, 8, 8], w=[0, 0, 8], n=[8, 0, 8], s=[0, 16, 0, 16, 0, 0, 0, 0, 16]), F('i64', 'i64', 'i32', 'i32')),
        (dict(mask=-1, b=[8, 8, 8], w=[8, 8, 8], n=[8, 8, 8], s=ones9), F('scalar_int', 'scalar_int', 'scalar_int', 'scalar_int')),
        (dict(mask=-1, b=[8, 8, 8], w=[0, 0, 0], n=[0, 0, 0], s=[0] * 9), F('scalar_int', 'none', 'none', 'none')),
        (dict(mask=-1, b=[8, -8, 16], w=[16, 0, 8], n=[0, 0, 0], s=[16, 0, -16, 0, 0, 0, 0, 32, 0]), F('tuple_int', 'i32', 'list_int', 'list_int')),
        (dict(mask=-1, b=[3, 16, 5], w=[1, 2, 7], n=[4, 0, 9], s=[1, 0, 0, 3, 0, 0, 0, 0, 2]), F('f32', 'f32', 'f32', 'f32')),
        (dict(mask=-1, b=[3, 16, 5], w=[1, 2, 7], n=[4, 0, 9], s=[1, 2, 3, 4, 5, 6, 7, 8, 9]), F('list_float', 'tuple_float', 'f64', 'tuple_float')),
        (dict(mask=-1, b=[2, 2, 2], w=[1, 1, 1], n=[0, 0, 0], s=[0] * 9), F('scalar_float', 'scalar_float', 'none', 'none')),
    ]
    out = []
    for a, f in cases:
        a['forms'] = f
        out.append(a)
    return out


def covered_functions():
    from pyins import inertial_sensor as m
    E, P = m.EstimationModel, m.Parameters
    return {
        'EstimationModel.__init__': E.__init__, 'EstimationModel._verify_param': E._verify_param,
        'EstimationModel.output_matrix': E.output_matrix, 'EstimationModel.reset_estimates': E.reset_estimates,
        'EstimationModel.update_estimates': E.update_estimates, 'EstimationModel.get_estimates': E.get_estimates,
        'EstimationModel.correct_increments': E.correct_increments,
        'Parameters.__init__': P.__init__, 'Parameters._verify_parameter': P._verify_parameter,
        'Parameters.from_EstimationModel': P.from_EstimationModel, 'Parameters.apply': P.apply,
        'apply_imu_parameters': m.apply_imu_parameters,
    }


def corpus_checks():
    """Fixed cases that enter every branch of the covered functions, including the argument-validation
    raises and the None / scalar argument forms which the harness otherwise translates itself.
    Returns a list of messages (a failure here breaks the tie, it is not a property violation)."""
    from pyins.inertial_sensor import EstimationModel, Parameters, apply_imu_parameters
    bad = []

    def raises(exc, f, what):
        try:
            f()
        except exc:
            return
        except Exception as e:                                         # noqa
            bad.append(f"{what}: raised {type(e).__name__} instead of {exc.__name__}")
            return
        bad.append(f"{what}: did not raise {exc.__name__}")
    # None arguments = everything disabled
    e0 = EstimationModel()
    if (e0.n_states, e0.n_noises, e0.n_output_noises, e0.states) != (0, 0, 0, []) or \
            np.shape(e0.output_matrix()) != (3, 0) or np.shape(e0.P) != (0, 0):
        bad.append("EstimationModel() is not the empty model")
    # scalar arguments = the same value on every axis / entry
    es = EstimationModel(bias_sd=0.5, noise=0.25, bias_walk=0.125, scale_misal_sd=0.0625)
    ea = EstimationModel(bias_sd=[0.5] * 3, noise=[0.25] * 3, bias_walk=[0.125] * 3,
                         scale_misal_sd=np.full((3, 3), 0.0625))
    for k in ('states', 'n_states', 'n_noises', 'n_output_noises'):
        if getattr(es, k) != getattr(ea, k):
            bad.append(f"scalar arguments: {k} differs from the array form")
    for k in ('P', 'q', 'v', 'G', 'H', 'J', 'F'):
        if not np.array_equal(getattr(es, k), getattr(ea, k)):
            bad.append(f"scalar arguments: {k} differs from the array form")
    if es.states != oracle_states(np.full(3, 0.5), np.full((3, 3), 0.0625)):
        bad.append("scalar arguments: unexpected states")
    raises(ValueError, lambda: EstimationModel(bias_sd=[1.0, 2.0]), "bias_sd of shape (2,)")
    raises(ValueError, lambda: EstimationModel(scale_misal_sd=[1.0, 2.0, 3.0]), "scale_misal_sd of shape (3,)")
    raises(ValueError, lambda: EstimationModel(bias_sd=[0, 1, 1], bias_walk=[1, 0, 0]), "walk without bias")
    # integer-typed arguments (an int enable mask, python ints, int lists): the ESTIMATES are still reals
    for kw in (dict(bias_sd=1), dict(bias_sd=[1, 2, 1], bias_walk=[1, 0, 0]),
               dict(bias_sd=np.array([0, 1, 1]), scale_misal_sd=np.eye(3, dtype=int)),
               dict(bias_sd=(1, 1, 1), noise=np.float32(0.5), scale_misal_sd=np.ones((3, 3), dtype=np.float32))):
        ei = EstimationModel(**kw)
        xi = (np.arange(ei.n_states) + 1) / 16.0
        ei.update_estimates(xi)
        ei.update_estimates(xi / 2)
        if not np.array_equal(ei.get_estimates().values, xi * 1.5):
            bad.append(f"EstimationModel({kw}): estimates {ei.get_estimates().values.tolist()} != fed {list(xi * 1.5)}")
        ei.reset_estimates()
        ei.update_estimates(xi)
        if not np.array_equal(ei.get_estimates().values, xi):
            bad.append(f"EstimationModel({kw}) after reset: estimates {ei.get_estimates().values.tolist()} != fed {list(xi)}")
    # output_matrix: H itself / readings required / 1-d / stacked
    eb = EstimationModel(bias_sd=[1, 0, 2])
    if eb.output_matrix() is not eb.H and not np.array_equal(eb.output_matrix(), eb.H):
        bad.append("output_matrix() without scale/misalignment is not H")
    raises(ValueError, lambda: es.output_matrix(), "output_matrix() without readings")
    r1 = np.array([1.0, 2.0, 4.0])
    H1 = es.output_matrix(r1)
    H2 = es.output_matrix(np.array([r1, 2 * r1]))
    if np.shape(H1) != (3, 12) or np.shape(H2) != (2, 3, 12) or not np.array_equal(H2[0], H1):
        bad.append("output_matrix 1-d / stacked forms disagree")
    # state machine, both container types, length error
    x = np.arange(12) / 16.0
    es.update_estimates(x)
    es.update_estimates(x)
    if not np.array_equal(es.get_estimates().values, 2 * x):
        bad.append("update twice != 2 x")
    raises(ValueError, lambda: es.update_estimates(x[:5]), "update_estimates with a short vector")
    inc = pd.DataFrame(np.array([[1.0, 2.0, 3.0], [0.5, 0.25, -1.0]]), index=[0.0, 0.25], columns=GYRO)
    cd = es.correct_increments(np.array([0.25, 0.25]), inc)
    cs = es.correct_increments(0.25, inc.iloc[1])
    if not isinstance(cd, pd.DataFrame) or not isinstance(cs, pd.Series) or \
            np.abs(cd.values[1] - cs.values).max() > 1e-12:
        bad.append("correct_increments DataFrame / Series forms disagree")
    es.reset_estimates()
    if np.any(es.get_estimates().values != 0) or not np.array_equal(es.transform, np.eye(3)):
        bad.append("reset_estimates does not reset")
    # Parameters: defaults, float intensities, shape errors, sensor types
    p0 = Parameters()
    if not np.array_equal(p0.transform, np.eye(3)) or np.any(p0.bias != 0) or np.any(p0.noise != 0) or \
            np.any(p0.bias_walk != 0) or p0.data_frame is not None:
        bad.append("Parameters() is not the identity")
    pf = Parameters(noise=0.5, bias_walk=0.25, rng=RS([np.zeros((2, 3)), np.zeros((2, 3))]))
    if not np.array_equal(pf.noise, [0.5] * 3) or not np.array_equal(pf.bias_walk, [0.25] * 3):
        bad.append("float noise / bias_walk is not broadcast to the three axes")
    raises(ValueError, lambda: Parameters(bias=[1.0, 2.0]), "bias of shape (2,)")
    raises(ValueError, lambda: Parameters(transform=np.eye(2)), "transform of shape (2, 2)")
    raises(ValueError, lambda: Parameters(bias=0.5), "scalar bias (floats are allowed for intensities only)")
    raises(ValueError, lambda: pf.apply(inc, 'gyro'), "unknown sensor_type")
    for ty in ('rate', 'increment'):
        pz = Parameters(np.eye(3) + np.diag([0.25, 0, 0]), [0.5, 0, 0], rng=RS([np.zeros((2, 3))] * 2))
        out = pz.apply(inc, ty)
        if list(pz.data_frame.columns) != ['bias_x', 'sm_xx'] or np.shape(out.values) != (2, 3):
            bad.append(f"Parameters.apply({ty}) basic case")
    pm = Parameters.from_EstimationModel(eb, RS([np.ones((3, 3)), np.ones(3)]))
    if not np.array_equal(pm.transform, np.eye(3)) or not np.array_equal(pm.bias, [1, 0, 2]):
        bad.append("from_EstimationModel basic case")
    bad += [f"{c}: {m_}" for c, m_ in imu_check(0)]
    return bad


# ----------------------------------------------------------------------------------------------
# jobs (run in worker processes)

def _multi(res, group, mseed):
    try:
        fl = multi_model_checks(group, mseed)
    except Exception:
        fl = [('harness', traceback.format_exc()[-1500:])]
    res['stats']['multi_model'] = res['stats'].get('multi_model', 0) + 1
    for clause, msg in fl[:2]:
        res['violations'].append((f"{clause}: {msg}", dict(kind='multi', args_list=list(group), seed=mseed, clause=clause)))


def _history(res, args, hseed):
    try:
        fl, h = history_checks(args, hseed)
    except Exception:
        fl, h = [('harness', traceback.format_exc()[-1500:])], None
    res['stats']['history'] = res['stats'].get('history', 0) + 1
    for clause, msg in fl[:2]:
        res['violations'].append((f"{clause}: {msg}", dict(kind='history', args=args, seed=hseed, clause=clause,
                                                           history16=h, note="entries of history16 are x*16; a vector "
                                                           "whose length differs from n_states must be rejected")))


def job_b(job):
    rng = random.Random(job['seed'])
    res = dict(kind='b', idx=job['idx'], n=0, broken=[], violations=[], keys=[], samples=[], stats={}, hist={})
    lits, metas = [], []
    problems = []
    group = []
    for mask in job['masks']:
        args = gen_args(rng, mask, negatives=job.get('negatives', True))
        pr = []
        try:
            lit, summary = bcase_literal(args, rng, job['light'], res['stats'], pr)
        except Exception:
            res['broken'].append(('implementation raised / non-dyadic result', dict(args=args, tb=traceback.format_exc()[-1500:])))
            continue
        for p in pr:
            problems.append((args, p))
        for fk, fv in args['forms'].items():
            res['stats'][f"arg:{fv}"] = res['stats'].get(f"arg:{fv}", 0) + 1
        lits.append(lit)
        metas.append((args, summary))
        nsz = -1 if summary.get('raised') else summary['n'][0]
        res['hist'][nsz] = res['hist'].get(nsz, 0) + 1
        dseed = rng.getrandbits(32)
        try:
            fl = direct_checks(args, dseed, full=job['direct_full'])
        except Exception:
            fl = [('harness', traceback.format_exc()[-1500:])]
        for clause, msg in fl[:3]:
            res['violations'].append((f"{clause}: {msg}", dict(kind='direct', args=args, seed=dseed, clause=clause)))
        if not summary.get('raised'):
            _history(res, args, rng.getrandbits(32))
            group.append(args)
            if len(group) == 3 or (job['light'] and len(group) == 2):
                _multi(res, group, rng.getrandbits(32))
                group = []
    for args, p in problems[:5]:
        res['broken'].append((f"unrepresentable: {p}", dict(args=args)))
    res['n'] = len(lits)
    res['keys'] = [(a['mask'], tuple(a['b']), tuple(a['w']), tuple(a['n']), tuple(a['s']),
                    tuple(sorted(a['forms'].items()))) for a, _ in metas]
    res['samples'] = [dict(args=a, result={k: v for k, v in s.items() if k != 'ops'}) for a, s in metas[:2]]
    if lits:
        text = HEADER + "Definition cases : list bcase := [\n" + ";\n".join(lits) + "\n].\n" + \
            "Eval vm_compute in (mismatches run_bcase cases).\n"
        ok, out = common.eval_cases(f"c14_b{job['idx']}", text, timeout=900)
        mm = parse_mismatches(out) if ok else None
        if mm is None:
            res['broken'].append(('coqc failed on the case file', dict(out=out[-1500:])))
        else:
            for i in mm[:5]:
                res['broken'].append(('model and EstimationModel disagree', dict(args=metas[i][0], implementation=metas[i][1])))
            res['n_mismatch'] = len(mm)
    return res


def job_s(job):
    rng = random.Random(job['seed'])
    res = dict(kind='s', idx=job['idx'], n=0, broken=[], violations=[], keys=[], samples=[], stats={}, hist={})
    lits, metas = [], []
    for c in fixed_sim_cases() + [gen_sim(rng) for _ in range(job['count'])]:
        try:
            lit, summary = scase_literal(c)
        except Exception:
            res['broken'].append(('Parameters.apply raised / inexact', dict(case=c, tb=traceback.format_exc()[-1500:])))
            continue
        lits.append(lit)
        metas.append((c, summary))
        key = f"{c['ty']}/n={len(c['ts16'])}/{'decades' if c.get('Tden', 16) != 16 else 'ordinary'}"
        res['hist'][key] = res['hist'].get(key, 0) + 1
        for a, bq in zip(c['ts16'], c['ts16'][1:]):
            res['stats'][f"dt={Fraction(bq - a, 16)}"] = res['stats'].get(f"dt={Fraction(bq - a, 16)}", 0) + 1
    fcs = [gen_f(rng) for _ in range(job['fcount'])]
    flits = []
    for c in fcs:
        try:
            flits.append(fcase_literal(c))
        except Exception:
            res['broken'].append(('from_EstimationModel raised / inexact', dict(case=c, tb=traceback.format_exc()[-1500:])))
    res['n'] = len(lits) + len(flits)
    res['keys'] = [('s', c.get('Tden', 16), tuple(c['T16']), tuple(c['b8']), tuple(c['n4']), tuple(c['w4']), c['ty'], tuple(c['ts16']),
                    tuple(map(tuple, c['R8'])), tuple(map(tuple, c['W8'])), tuple(map(tuple, c['N8']))) for c, _ in metas] + \
                  [('f', c['args']['mask'], tuple(c['zT4']), tuple(c['zb4'])) for c in fcs]
    res['samples'] = [dict(case=c, result=s) for c, s in metas[:1]]
    text = HEADER + "Definition cases : list scase := [\n" + ";\n".join(lits) + "\n].\n" + \
        "Eval vm_compute in (mismatches run_scase cases).\n" + \
        "Definition fcases : list fcase := [\n" + ";\n".join(flits) + "\n].\n" + \
        "Eval vm_compute in (mismatches run_fcase fcases).\n"
    ok, out = common.eval_cases(f"c14_s{job['idx']}", text, timeout=900)
    parts = re.findall(r"=\s*\[(.*?)\]\s*(?:%nat)?\s*:\s*list nat", out, re.S) if ok else []
    if len(parts) != 2:
        res['broken'].append(('coqc failed on the case file', dict(out=out[-1500:])))
    else:
        idx = [[int(x) for x in p.replace("\n", " ").split(";")] if p.strip() else [] for p in parts]
        for i in idx[0][:5]:
            res['broken'].append(('model and Parameters.apply disagree', dict(case=metas[i][0], implementation=metas[i][1])))
        for i in idx[1][:5]:
            res['broken'].append(('model and Parameters.from_EstimationModel disagree', dict(case=fcs[i])))
        res['n_mismatch'] = len(idx[0]) + len(idx[1])
    for clause, msg in imu_check(job['seed']):
        res['violations'].append((f"{clause}: {msg}", dict(kind='imu', seed=job['seed'])))
    return res


def job_d(job):
    """direct statements only (falsifier)"""
    rng = random.Random(job['seed'])
    res = dict(kind='d', idx=job['idx'], n=0, broken=[], violations=[], keys=[], samples=[], stats={}, hist={})
    group = []
    for mask in job['masks']:
        args = gen_args(rng, mask)
        dseed = rng.getrandbits(32)
        try:
            fl = direct_checks(args, dseed, full=True)
        except Exception:
            fl = [('implementation raised', traceback.format_exc()[-800:])]
        res['n'] += 1
        for clause, msg in fl[:2]:
            res['violations'].append((f"{clause}: {msg}", dict(kind='direct', args=args, seed=dseed, clause=clause)))
        if construct(args) is not None:
            _history(res, args, rng.getrandbits(32))
            group.append(args)
            if len(group) == 3:
                _multi(res, group, rng.getrandbits(32))
                group = []
    return res


def run_job(job):
    try:
        with linecov.LineCoverage(covered_functions()) as cov:
            res = dict(b=job_b, s=job_s, d=job_d)[job['kind']](job)
        res['hit'] = {k: sorted(v_) for k, v_ in cov.hit.items()}
        return res
    except Exception:
        return dict(kind=job['kind'], idx=job['idx'], n=0, keys=[], samples=[], stats={}, hist={}, violations=[],
                    broken=[('harness job crashed', dict(tb=traceback.format_exc()[-2000:]))])


def run_jobs(jobs):
    nproc = max(2, min(14, (os.cpu_count() or 4) - 2))
    ctx = mp.get_context('fork')
    with ctx.Pool(nproc) as pool:
        return list(pool.imap_unordered(run_job, jobs, chunksize=1))


def chunks(lst, size):
    return [lst[i:i + size] for i in range(0, len(lst), size)]


# ----------------------------------------------------------------------------------------------

def sanity():
    """the float facts the exactness argument relies on"""
    for d in DT16:
        x = d / 16.0
        s = x ** 0.5
        if s * s != x or (np.array([x]) ** 0.5)[0] != s or (np.array([x]) ** -0.5)[0] != 1 / s:
            return f"dt={x}: power 0.5 is not exact on this platform"
    return None


def check(r):
    r.trusted += [
        "hand-written model coq/Model/SensorModel.v, tied to pyins/inertial_sensor.py by exact comparison of "
        "canonical observables on generated cases (this harness)",
        "harness translation of arguments: arrays passed as given; None/scalar arguments of the constructors "
        "(np.zeros / np.resize in _verify_param) are not part of the model",
        "binary64 arithmetic is exact on the dyadic case data (|values| < 2^10, resolution >= 2^-12); "
        "np.linalg.solve compared with absolute tolerance 2^-36",
        "Var(sum c_j xi_j) = sum c_j^2 for independent unit-variance samples xi_j (numpy randn): the variance "
        "clauses are stated on the squared coefficients of the samples",
    ]
    r.assumptions += [
        "dt ** 0.5 is modelled only on time steps with an exact rational square root (qsqrt); other steps are "
        "outside the exact model (the theorems take any s with s*s = dt)",
        "names_agree for Parameters.from_EstimationModel assumes disabling by 0: with a NEGATIVE sd the estimator "
        "disables the state but from_EstimationModel still draws a non-zero parameter (sd * randn)",
        "rows with dt = 0 (duplicate stamps) are outside the model for rate sensors (numpy gives inf, Qc gives 0)",
    ]
    r.prove('Props/C14.v')
    msg = sanity()
    if msg:
        r.broken('harness', 'float sanity', msg)
        return
    rng = random.Random(r.seed + 14)
    thorough = r.tier == 'thorough'
    with linecov.LineCoverage(covered_functions()) as cov:
        try:
            for msg in corpus_checks():
                r.broken('correspondence', 'fixed corpus (argument forms / validation)', msg)
        except Exception:
            r.broken('correspondence', 'fixed corpus crashed', traceback.format_exc()[-1500:])
        fixed = fixed_direct_cases()
        for k, a in enumerate(fixed):
            try:
                fl = direct_checks(a, 1000 + k, full=True)
            except Exception:
                fl = []
                r.broken('correspondence', 'fixed direct case crashed', dict(args=a, tb=traceback.format_exc()[-1500:]))
            for clause, msg in fl[:2]:
                r.violation(f"{clause}: {msg}", dict(kind='direct', args=a, seed=1000 + k, clause=clause))
            fl, h = history_checks(a, 2000 + k)
            for clause, msg in fl[:2]:
                r.violation(f"{clause}: {msg}", dict(kind='history', args=a, seed=2000 + k, clause=clause, history16=h))
            r.case(('fixed', k))
        valid = [a for a in fixed if construct(a) is not None]
        for clause, msg in multi_model_checks(valid[:3], 77)[:2] + multi_model_checks(valid[3:6], 78)[:2]:
            r.violation(f"{clause}: {msg}", dict(kind='multi', args_list=valid[:6], seed=77, clause=clause))
    r.case(('corpus',))
    jobs = []
    corners = corner_masks()
    if thorough:
        allm = list(range(1 << 18))
        for i, ch in enumerate(chunks(allm, 512)):
            jobs.append(dict(kind='b', idx=len(jobs), seed=rng.getrandbits(48), masks=ch, light=True,
                             direct_full=(i % 8 == 0), negatives=(i % 2 == 0)))
        heavy = corners + [rng.getrandbits(18) for _ in range(20000)]
        nsim, nf = 8000, 4000
    else:
        heavy = corners + [rng.getrandbits(18) for _ in range(2000)]
        nsim, nf = 480, 240
    for ch in chunks(heavy, 344 if not thorough else 500):
        jobs.append(dict(kind='b', idx=len(jobs), seed=rng.getrandbits(48), masks=ch, light=False, direct_full=True))
    nsj = max(2, nsim // 400)
    for _ in range(nsj):
        jobs.append(dict(kind='s', idx=len(jobs), seed=rng.getrandbits(48), count=nsim // nsj, fcount=nf // nsj))
    r.log(f"{len(jobs)} case files ({sum(len(j.get('masks', [])) for j in jobs)} constructor cases, "
          f"{nsim} simulator cases, {nf} from_EstimationModel cases)")
    results = run_jobs(jobs)
    dist = dict(n_states_hist={}, ops={}, sim={}, dts={}, files=len(jobs))
    nb = nv = 0
    for res in sorted(results, key=lambda x: x['idx']):
        cov.merge(res.get('hit', {}))
        for k in res['keys']:
            r.case(k)
        for s in res['samples']:
            if len(r.samples) < 6:
                r.samples.append(s)
        tgt = dist['n_states_hist'] if res['kind'] == 'b' else dist['sim']
        for k, v_ in res['hist'].items():
            tgt[str(k)] = tgt.get(str(k), 0) + v_
        tgt2 = dist['ops'] if res['kind'] == 'b' else dist['dts']
        for k, v_ in res['stats'].items():
            tgt2[k] = tgt2.get(k, 0) + v_
        for name, detail in res['broken']:
            nb += 1
            if nb <= 8:
                r.broken('correspondence' if 'harness' not in name and 'coqc' not in name else 'harness', name, detail)
        for what, rep in res['violations']:
            nv += 1
            if nv <= 5:
                r.violation(what, rep)
    dist['n_states_hist'] = dict(sorted(dist['n_states_hist'].items(), key=lambda kv: int(kv[0])))
    r.coverage['distribution'] = dist
    r.coverage['masks'] = ("all 262144 masks + %d sampled" % len(heavy)) if thorough else ("%d sampled incl. 64 corners" % len(heavy))
    r.log(f"correspondence: {r.evaluations} cases, {nb} break(s); direct statements: {nv} violation(s)")
    summ, missing = cov.report(allow=tuple(ALLOW))
    r.coverage['code_lines'] = dict(functions=summ, allowed_unreached=ALLOW,
                                    measured=("fixed corpus in the main process + every worker job "
                                              "(sys.monitoring LINE events, hits merged)"))
    tot = sum(v_['executable'] for v_ in summ.values())
    got = sum(v_['executed'] for v_ in summ.values())
    r.log(f"code lines: {got}/{tot} executable lines of {len(summ)} functions executed; "
          f"unreached (not allowed): {len(missing)}")
    if missing:
        r.broken('correspondence', 'code line not exercised', missing)
    if thorough:
        r.hygiene('Props/C14.v')
        r.coqchk('Props/C14.v', norec=COQCHK_NOREC)


def falsify(r):
    rng = random.Random(r.seed + 1414)
    masks = corner_masks() + [rng.getrandbits(18) for _ in range(30000 if r.tier == 'thorough' else 6000)]
    jobs = [dict(kind='d', idx=i, seed=rng.getrandbits(48), masks=ch) for i, ch in enumerate(chunks(masks, 400))]
    n = 0
    for res in run_jobs(jobs):
        for what, rep in res['violations']:
            n += 1
            if n <= 5:
                r.violation(what, rep)
    for clause, msg in imu_check(r.seed):
        r.violation(f"{clause}: {msg}", dict(kind='imu', seed=r.seed))
    r.log(f"falsifier: {len(masks)} masks, {n} failing statement(s)")


def model_view(args):
    """what the Coq model builds for these arguments (printed by replay)"""
    text = HEADER + ("Eval vm_compute in (option_map (fun m => (states m, (n_states m, n_noises m, n_output_noises m), "
                     "(G m, H m, J m), scale_misal_data m)) (build %s %s %s %s)).\n" % (
                         c_dy3(8, args['b']), c_dy3(8, args['n']), c_dy3(8, args['w']), c_dy33(16, args['s'])))
    ok, out = common.eval_cases("c14_replay", text, timeout=300)
    return out.strip()


def replay(obj):
    rep = obj.get('replay', obj)
    print("what:", obj.get('what'))
    if rep.get('kind') == 'imu':
        fl = imu_check(rep['seed'])
    elif rep.get('kind') == 'history':
        args = rep['args']
        b, n, w, S = arrays_of(args)
        print("EstimationModel(bias_sd=%s, noise=%s, bias_walk=%s, scale_misal_sd=%s)" % (
            b.tolist(), n.tolist(), w.tolist(), S.tolist()), "forms:", args.get('forms'))
        em = construct(args)
        print("n_states =", em.n_states, " states =", em.states)
        for k, x in enumerate(rep.get('history16') or []):
            print(f"  step {k}: update_estimates({[v_ / 16.0 for v_ in x]})",
                  "(accepted)" if len(x) == em.n_states else "(wrong length: must raise ValueError and change nothing)")
        print("model (Coq, C14_history_accumulates): estimates = sum of the accepted vectors",
              (np.sum([np.array(x) / 16.0 for x in (rep.get('history16') or []) if len(x) == em.n_states], axis=0)
               if em.n_states else np.zeros(0)).tolist())
        fl, _ = history_checks(args, rep['seed'], rep.get('history16'))
    elif rep.get('kind') == 'multi':
        for k, a in enumerate(rep['args_list']):
            b, n, w, S = arrays_of(a)
            print("model %d: EstimationModel(bias_sd=%s, noise=%s, bias_walk=%s, scale_misal_sd=%s)" % (
                k, b.tolist(), n.tolist(), w.tolist(), S.tolist()), "forms:", a.get('forms'))
        print("model (Coq): estimates are a value of type `est` threaded through update/get; two models cannot share it")
        fl = multi_model_checks(rep['args_list'], rep['seed'])
    elif rep.get('kind') == 'direct':
        args = rep['args']
        b, n, w, S = arrays_of(args)
        print("EstimationModel(bias_sd=%s, noise=%s, bias_walk=%s, scale_misal_sd=%s)" % (
            b.tolist(), n.tolist(), w.tolist(), S.tolist()))
        print("  passed as:", {k: (type(v_).__name__, str(getattr(v_, 'dtype', ''))) for k, v_ in ctor_kwargs(args).items()})
        em = construct(args)
        if em is None:
            print("implementation: constructor raised ValueError")
        else:
            print("implementation: states", em.states, "n_states/n_noises/n_output_noises",
                  (em.n_states, em.n_noises, em.n_output_noises))
            print("  G nonzero", list(zip(*map(lambda a: a.tolist(), np.nonzero(em.G)))),
                  "H nonzero", list(zip(*map(lambda a: a.tolist(), np.nonzero(em.H)))),
                  "J nonzero", list(zip(*map(lambda a: a.tolist(), np.nonzero(em.J)))))
        print("expected states (bias x,y,z then sm row-major):", oracle_states(b, S))
        try:
            print("model:", model_view(args))
        except Exception as e:
            print("model: (not evaluated)", e)
        fl = direct_checks(args, rep['seed'], full=True)
    else:
        print("unknown replay kind", rep)
        return 0
    for clause, msg in fl:
        print(f"STILL FAILS {clause}: {msg}")
    if not fl:
        print("all statements hold on this input now")
    return 1 if fl else 0
