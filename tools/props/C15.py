"""C15 — Coning/sculling increments are high-order accurate body-frame integrals.

Tie: translator (strapdown.compute_increments_from_imu traced on a symbolic 3-sample IMU
table, both sensor types) -> Gen/C15Gen.v; theorems in Props/C15.v against the hand-written
Peano-Baker series of Spec/PeanoBaker.v.  The list model of the table assembly
(Spec.PeanoBaker.rows) is tied to the implementation by exact comparison of labels, dt and
provenance (which samples each row depends on) for random n and irregular dyadic stamps.
Every table is also run in other valid forms: permuted column layouts with extra unrelated columns
(complete, partially NaN, object dtype; LAYOUTS / EXTRA_KIND): the channels are read by LABEL, so the results
must be bit-identical to the canonical layout's; readings stored as float32 independently of the float64 time
axis, at time offsets 0, 1e5, 1.2e6, 1.7e9 s: row count, labels and dt are compared EXACTLY with the float64
index / np.diff of it, theta / dv within float32 rounding of the readings; dyadic time axes shifted by the
offset give bit-identical columns.  The accuracy statements are evaluated on tables in those layouts (cycling).  Line coverage of compute_increments_from_imu during
the statement runs is measured (tools/linecov.py) and an unreached line breaks the correspondence.

Numerical support / falsifier on the implementation (independent oracle: the exact attitude
matrix C(T) and u(T) = int C f by composed Taylor-series steps (order 20, <= 20 ms each) of the
ODEs in binary64, self-checked each run by the semigroup property, a higher order and scipy
DOP853): error-vs-interval slopes for closed-form linear and sinusoidal 3-axis signals, rate and
increment types, uniform and irregular stamps.

Orders tested (what the property text states; "documented algorithm order" is read from the
docstring "The algorithm assumes a linear model for the angular velocity and the specific
force": local error O(T^3), i.e. slope 3):
  linear signals    theta: exact through the cubic term      -> slope >= 3.8 (measured 5)
                    dv + (a x (a x d)) T^3/6 (the only cubic discrepancy removed) -> >= 3.8 (4)
                    dv                                        -> >= 2.8 (3)
  sinusoidal        theta, dv                                 -> >= 2.8 (3 rate / 4,3 increment)
Margins: slopes are taken between T = 20 ms and 5 ms (40 and 10 ms when the 5 ms error is below
1e-12 = 1e4 x rounding) on the maximum error over a 0.64 s window; the threshold is the order - 0.2.
"""
import math
import random
import numpy as np

RULE = ("translator: both traced functions validated on 60 random inputs per run; rows: random tables with "
        "n = 0..60 samples, irregular dyadic stamps (steps 1..10 /64 s) starting at 0 / 1e5 / 1.2e6 / 1.7e9 s + 0..100 s, "
        "random data, both sensor types, each in 6 column layouts with extra complete / partially-NaN / object "
        "columns, float64 and float32 readings x 4 time offsets - a case is distinct by (type, stamps); slopes: random linear / sinusoidal 3-axis signals (|w| <= 3 rad/s, "
        "|f| <= 30 m/s^2, 0.2..2 Hz), uniform stamps T = 160..1 ms (long tables over a 0.64 s window) and irregular "
        "stamps (3-sample tables with unequal adjacent intervals q T != c T <= 160 ms at fixed start times, T = 160..5 ms) "
        "- a case is distinct by (signal kind, type, stamps kind, trial)")

F2_KEY = 'increment-unequal-intervals-cubic'
COLS_TH = ['theta_x', 'theta_y', 'theta_z']
COLS_DV = ['dv_x', 'dv_y', 'dv_z']
NTAYLOR = 20
HMAX = 0.02


# ---------------------------------------------------------------------------
# closed-form signals

def _skew(v):
    return np.array([[0, -v[2], v[1]], [v[2], 0, -v[0]], [-v[1], v[0], 0.0]])


class Lin:
    """a + b (t - tc)"""
    kind = 'lin'

    def __init__(self, a, b, tc=0.0):
        self.a, self.b, self.tc = np.array(a, float), np.array(b, float), float(tc)

    def val(self, t):
        return self.a + self.b * (t - self.tc)

    def der(self, t):
        return self.b

    def integ(self, x, y):
        return self.a * (y - x) + self.b * ((y - self.tc) ** 2 - (x - self.tc) ** 2) / 2

    def taylor(self, tau, n):
        c = np.zeros((n, 3))
        c[0] = self.val(tau)
        c[1] = self.b
        return c

    def to_json(self):
        return dict(kind='lin', a=list(self.a), b=list(self.b), tc=self.tc)


class Sin:
    """c + A sin(2 pi nu t + ph), componentwise"""
    kind = 'sin'

    def __init__(self, c, A, nu, ph):
        self.c, self.A = np.array(c, float), np.array(A, float)
        self.nu, self.ph = np.array(nu, float), np.array(ph, float)
        self.w = 2 * np.pi * self.nu

    def val(self, t):
        return self.c + self.A * np.sin(self.w * t + self.ph)

    def der(self, t):
        return self.A * self.w * np.cos(self.w * t + self.ph)

    def integ(self, x, y):
        return self.c * (y - x) - self.A / self.w * (np.cos(self.w * y + self.ph) - np.cos(self.w * x + self.ph))

    def taylor(self, tau, n):
        c = np.zeros((n, 3))
        fact = 1.0
        for k in range(n):
            if k > 0:
                fact *= k
            c[k] = self.A * self.w ** k * np.sin(self.w * tau + self.ph + k * np.pi / 2) / fact
        c[0] += self.c
        return c

    def to_json(self):
        return dict(kind='sin', c=list(self.c), A=list(self.A), nu=list(self.nu), ph=list(self.ph))


def sig_from_json(o):
    if o['kind'] == 'lin':
        return Lin(o['a'], o['b'], o['tc'])
    return Sin(o['c'], o['A'], o['nu'], o['ph'])


def random_signals(rng, kind, tc):
    def rv(m):
        return [rng.uniform(-m, m) for _ in range(3)]
    if kind == 'lin':
        return Lin(rv(2.0), rv(3.0), tc), Lin(rv(20.0), rv(30.0), tc)
    nu = lambda: [rng.uniform(0.2, 2.0) for _ in range(3)]
    return Sin(rv(1.0), rv(2.0), nu(), rv(3.0)), Sin(rv(10.0), rv(20.0), nu(), rv(3.0))


# ---------------------------------------------------------------------------
# oracle: series solution of C' = C [w x], u' = C f about tau (independent of the algorithm)

def exact_step(om, f, tau, T, n):
    W = [_skew(w) for w in om.taylor(tau, n)]
    F = f.taylor(tau, n)
    C = [np.eye(3)]
    U = [np.zeros(3)]
    for k in range(n - 1):
        C.append(sum(C[i] @ W[k - i] for i in range(k + 1)) / (k + 1))
        U.append(sum(C[i] @ F[k - i] for i in range(k + 1)) / (k + 1))
    p = 1.0
    Ct = np.zeros((3, 3))
    ut = np.zeros(3)
    for k in range(n):
        Ct += C[k] * p
        ut += U[k] * p
        p *= T
    return Ct, ut


def exact(om, f, tau, T, n=NTAYLOR, hmax=HMAX):
    """C(tau -> tau + T), u: composition of series steps of length <= hmax (semigroup property), where
    the order-n series has converged to rounding for signals up to 2 Hz (checked each run)."""
    m = max(1, int(math.ceil(T / hmax - 1e-9)))
    h = T / m
    C, u = np.eye(3), np.zeros(3)
    for j in range(m):
        Cj, uj = exact_step(om, f, tau + j * h, h, n)
        u = u + C @ uj
        C = C @ Cj
    return C, u


def exact_ivp(om, f, tau, T):
    from scipy.integrate import solve_ivp

    def rhs(t, y):
        C = y[:9].reshape(3, 3)
        return np.hstack([(C @ _skew(om.val(t))).ravel(), C @ f.val(t)])
    s = solve_ivp(rhs, (tau, tau + T), np.hstack([np.eye(3).ravel(), np.zeros(3)]), method='DOP853',
                  rtol=1e-13, atol=1e-15)
    return s.y[:9, -1].reshape(3, 3), s.y[9:, -1]


def rotvec(C):
    from scipy.spatial.transform import Rotation
    return Rotation.from_matrix(C).as_rotvec()


# ---------------------------------------------------------------------------
# column layouts of a validly labelled Imu table: the function must read the channels BY LABEL, so the
# order of the six labelled columns and any unrelated extra columns (leading / trailing) must not matter

CANON = ['gyro_x', 'gyro_y', 'gyro_z', 'accel_x', 'accel_y', 'accel_z']
LAYOUTS = [
    CANON,
    ['accel_x', 'accel_y', 'accel_z', 'gyro_x', 'gyro_y', 'gyro_z'],                          # accel first
    ['temperature'] + CANON,                                                                   # leading extra
    CANON + ['odometer', 'flag'],                                                              # trailing extras
    ['temperature', 'accel_z', 'gyro_y', 'accel_x', 'gyro_x', 'aux', 'gyro_z', 'accel_y', 'flag'],  # all mixed
    ['gyro_z', 'gyro_y', 'gyro_x', 'accel_z', 'accel_y', 'accel_x'],                          # reversed axes
]


# kinds of the extra (non-inertial) columns: complete float data, a multi-rate channel that is filled on every
# 4th record only (NaN elsewhere), an object-dtype status column
class StatementFailure(Exception):
    """the implementation raised, or the table it returned does not have the structure the property states,
    on a valid input of a statement test: recorded as a concrete failure with that input, never a crash"""


def _describe(imu):
    return (f"{len(imu)} samples, columns {[f'{c}:{t}' for c, t in zip(imu.columns, imu.dtypes)]}, "
            f"index {imu.index.dtype}" + (f" from {float(imu.index[0])!r}" if len(imu) else ""))


def _impl(imu, typ):
    """compute_increments_from_imu on a valid Imu table; a result that is not a 7-column table is a failure"""
    from pyins.strapdown import compute_increments_from_imu
    try:
        out = compute_increments_from_imu(imu, typ)
    except Exception as ex:
        raise StatementFailure(f"compute_increments_from_imu(imu, {typ!r}) raised {type(ex).__name__}: {ex} "
                               f"for a valid Imu table ({_describe(imu)})")
    want = ['dt'] + COLS_TH + COLS_DV
    if not hasattr(out, 'columns') or list(out.columns) != want or out.values.ndim != 2:
        raise StatementFailure(f"compute_increments_from_imu(imu, {typ!r}) returned "
                               f"{type(out).__name__} with columns {list(getattr(out, 'columns', []))}, expected "
                               f"a table with columns {want} ({_describe(imu)})")
    return out


EXTRA_KIND = {'odometer': 'complete', 'temperature': 'partial', 'aux': 'partial', 'flag': 'object'}
# time offsets of the float64 time axis (0, uptime seconds, GPS seconds of week, UNIX seconds)
OFFSETS = [0.0, 1e5, 1.2e6, 1.7e9]
TOL32 = 4e-6        # float32 readings: 64 x float32 epsilon, relative to the largest entry of theta / dv of the row


def apply_layout(df, layout, dtype=None):
    """the same labelled data (and the same float64 index) with the columns in the order `layout`; names that are
    not IMU channels become unrelated columns of the kind EXTRA_KIND (default: complete float data); with
    `dtype` the six inertial channels are stored in that dtype (the time axis stays float64)."""
    if (layout is None or list(layout) == CANON) and dtype is None:
        return df
    import pandas as pd
    layout = CANON if layout is None else list(layout)
    n = len(df)
    cols = {}
    for k, name in enumerate(layout):
        if name in CANON:
            cols[name] = df[name].values if dtype is None else df[name].values.astype(dtype)
            continue
        kind = EXTRA_KIND.get(name, 'complete')
        v = 20.0 + 0.25 * k + 0.125 * np.arange(n)
        if kind == 'partial':
            v = np.where(np.arange(n) % 4 == 0, v, np.nan)
        elif kind == 'object':
            v = np.array([('ok' if i % 3 else None) for i in range(n)], dtype=object)
        cols[name] = v
    return pd.DataFrame(cols, index=df.index, columns=layout)


def _same_table(out, ref):
    return list(out.columns) == list(ref.columns) and out.shape == ref.shape and \
        np.array_equal(np.asarray(out.index, float), np.asarray(ref.index, float)) and \
        np.array_equal(out.values, ref.values)


def _safe(fn):
    """a statement helper that returns a failure string or None: a StatementFailure inside is that string"""
    def g(*a, **k):
        try:
            return fn(*a, **k)
        except StatementFailure as ex:
            return str(ex)
    g.__doc__ = fn.__doc__
    return g


@_safe
def layout_identity(imu, typ):
    """results for every layout of LAYOUTS (column order, extra complete / partially NaN / object columns)
    must be bit-identical to the canonical layout's.  Returns a failure string or None."""
    ref = _impl(imu, typ)
    for li, layout in enumerate(LAYOUTS[1:], 1):
        out = _impl(apply_layout(imu, layout), typ)
        if not _same_table(out, ref):
            dif = float(np.abs(out.values - ref.values).max()) if out.shape == ref.shape and out.size else None
            return (f"result for column layout {layout} (extra columns: {EXTRA_KIND}) differs from the result for "
                    f"the canonical layout: shape {out.shape} vs {ref.shape}, max abs difference {dif}")
    return None


def stamp_clause(out, index, what):
    """one row per sample after the first, labelled with that sample's float64 time, dt = np.diff of the
    float64 index, exactly.  Returns a failure string or None."""
    idx = np.asarray(index, dtype=np.float64)
    n = len(idx)
    if len(out) != max(n - 1, 0):
        return f"{what}: {len(out)} rows for {n} samples"
    if n >= 2:
        if not np.array_equal(np.asarray(out.index, dtype=np.float64), idx[1:]):
            return f"{what}: row labels are not the time stamps of the samples after the first"
        dt = np.asarray(out['dt'].values, dtype=np.float64)
        if not np.array_equal(dt, np.diff(idx)):
            return (f"{what}: 'dt' is not np.diff of the float64 time stamps: max |dt - diff| = "
                    f"{float(np.abs(dt - np.diff(idx)).max()):.3e} s, dt[:4] = {dt[:4].tolist()}")
    return None


@_safe
def dtype_offset_check(imu, typ, k=0):
    """readings stored as float32 independently of the float64 time axis, for every time offset of OFFSETS:
    the stamp clause holds exactly, and theta / dv agree with the result for the same (float32-representable)
    readings stored as float64 within float32 rounding of the arithmetic on the readings (TOL32).  Also float64
    readings at every offset: stamp clause.  `k` selects the column layout of the float32 table.
    Returns a failure string or None."""
    import pandas as pd
    for off in OFFSETS:
        idx = np.asarray(imu.index, dtype=np.float64) + off
        t64 = pd.DataFrame(imu.values.astype(np.float32).astype(np.float64), index=idx, columns=list(imu.columns))
        ref = _impl(t64, typ)
        bad = stamp_clause(ref, idx, f"float64 readings, time offset {off:g} s")
        if bad:
            return bad
        layout = LAYOUTS[k % len(LAYOUTS)]
        out = _impl(apply_layout(t64, layout, dtype=np.float32), typ)
        what = f"float32 readings, float64 time stamps offset by {off:g} s, columns {layout}"
        bad = stamp_clause(out, idx, what)
        if bad:
            return bad
        if list(out.columns) != list(ref.columns):
            return f"{what}: columns {list(out.columns)}"
        for cols in (COLS_TH, COLS_DV):
            o, w = out[cols].values.astype(np.float64), ref[cols].values
            if len(w):
                scale = np.abs(w).max(axis=1, keepdims=True)
                if not (np.abs(o - w) <= TOL32 * scale).all():
                    return (f"{what}: {cols[0][:-2]} differs from the float64 computation on the same readings by "
                            f"{float((np.abs(o - w) / np.maximum(scale, 1e-300)).max()):.3e} (relative; float32 "
                            f"rounding allows {TOL32:g})")
    return None


# ---------------------------------------------------------------------------
# running the implementation

def make_table(om, f, stamps, typ, layout=None):
    import pandas as pd
    from pyins.util import GYRO_COLS, ACCEL_COLS
    st = np.array(stamps, float)
    if typ == 'rate':
        data = [np.hstack([om.val(t), f.val(t)]) for t in st]
    else:
        # the "before" sample: integral over an earlier interval as long as the first one
        x0 = st[0] - (st[1] - st[0])
        ends = np.hstack([[x0], st])
        data = [np.hstack([om.integ(x, y), f.integ(x, y)]) for x, y in zip(ends[:-1], ends[1:])]
    return apply_layout(pd.DataFrame(np.array(data), index=st, columns=GYRO_COLS + ACCEL_COLS), layout)


def row_errors(om, f, stamps, typ, layout=None):
    """per result row: |theta - rotvec(C)|, |dv - u|, |dv - u + a x (a x d) T^3/6|, theta_code - theta_exact"""
    inc = _impl(make_table(om, f, stamps, typ, layout), typ)
    bad = stamp_clause(inc, stamps, f"columns {layout or CANON}")
    if bad:
        raise StatementFailure(bad)
    th = inc[COLS_TH].values
    dv = inc[COLS_DV].values
    out = []
    for i in range(len(inc)):
        tau, T = stamps[i], stamps[i + 1] - stamps[i]
        C, u = exact(om, f, tau, T)
        a, d = om.val(tau), f.val(tau)
        gap = np.cross(a, np.cross(a, d)) * T ** 3 / 6
        dth = th[i] - rotvec(C)
        out.append((np.linalg.norm(dth), np.linalg.norm(dv[i] - u), np.linalg.norm(dv[i] - u + gap), dth))
    return out


def window_max(om, f, stamps, typ, layout=None):
    e = row_errors(om, f, stamps, typ, layout)
    if not e:
        raise StatementFailure(f"no result rows for {len(stamps)} samples (columns {layout or CANON})")
    return np.array([max(x[k] for x in e) for k in range(3)])


SPAN = 0.64
TS = [0.16, 0.08, 0.04, 0.02, 0.01, 0.005]
SLOPE_MIN_ERR = 1e-12   # slopes use the finest pair of scales (T, T/4) whose errors stay above this (1e4 x rounding)


def uniform_stamps(t_start, T, span=SPAN):
    n = int(round(span / T))
    return [t_start + T * k for k in range(n + 1)]


def probe_rows(om, f, typ, probes, t_start, T, layout=None):
    """irregular stamps: each probe (x, c, q) is the 3-sample table with stamps tau - q T, tau, tau + c T,
    tau = t_start + x SPAN (previous interval q T, own interval c T; q != c).  The last row of each table
    is examined.  The same interval START times and shapes are used at every scale T, so that the error
    of each probe is a clean function of T."""
    out = []
    for x, c, q in probes:
        tau = t_start + x * SPAN
        out.append(row_errors(om, f, [tau - q * T, tau, tau + c * T], typ, layout)[-1])
    return out


def slope_case(om, f, typ, pattern, t_start, layout=None):
    """pattern None: uniform stamps T in TS over a fixed window of SPAN seconds (long tables); else a list
    of probes (x, c, q) (see probe_rows) evaluated at the scales T in TS.
    Returns (errors array [len(TS) x 3]: max over rows, slopes (theta, dv, dv_corrected) from 20 to 5 ms,
    or 40 to 10 ms when the 5 ms error is within 1e4 x rounding)."""
    E = []
    for T in TS:
        if pattern is None:
            E.append(window_max(om, f, uniform_stamps(t_start, T), typ, layout))
        else:
            e = probe_rows(om, f, typ, pattern, t_start, T, layout)
            E.append(np.array([max(x[k] for x in e) for k in range(3)]))
    E = np.array(E)
    sl = np.zeros(3)
    for k in range(3):
        j = len(TS) - 1
        while j > 3 and E[j][k] < SLOPE_MIN_ERR:
            j -= 1
        with np.errstate(divide='ignore', invalid='ignore'):
            sl[k] = np.log2(E[j - 2][k] / E[j][k]) / 2
    return E, sl


def thresholds(kind):
    # (theta, dv, dv corrected)
    return (3.8, 2.8, 3.8) if kind == 'lin' else (2.8, 2.8, None)


FLOOR = 1e-13     # errors below this are not used for slopes (>= 100 x rounding of |theta|,|dv| <= 5)


def judge(kind, E, sl, skip_theta=False):
    """list of failure strings for one slope case"""
    bad = []
    names = ('theta', 'dv', 'dv+gap')
    for k, thr in enumerate(thresholds(kind)):
        if thr is None or (k == 0 and skip_theta):
            continue
        if E[-1][k] < FLOOR:
            continue
        if not (sl[k] >= thr):
            bad.append(f"{names[k]} error slope {sl[k]:.2f} < {thr} (errors {E[:, k].tolist()})")
        # errors must fall when the interval shrinks
        for j in range(len(E) - 1):
            if E[j + 1][k] > E[j][k] and E[j][k] > FLOOR:
                bad.append(f"{names[k]} error grows when the interval is halved: {E[:, k].tolist()}")
                break
    return bad


def small_T_case(om, f, typ, t_start, kind, E10, layout=None):
    """1, 2 ms: error bounded by the extrapolation of the 5 ms error (E10) with the documented order"""
    bad = []
    thr = thresholds(kind)
    for T in (0.002, 0.001):
        e = window_max(om, f, uniform_stamps(t_start, T, span=32 * T), typ, layout)
        for k, nm in enumerate(('theta', 'dv')):
            lim = E10[k] * (T / 0.005) ** thr[k] * 4 + FLOOR
            if e[k] > lim:
                bad.append(f"{nm} error {e[k]:.3e} at T={T} above {lim:.3e} (order {thr[k]} from 5 ms)")
    return bad


def irregular_pattern(rng, m=10):
    """probes (x, c, q): interval start at fraction x of the window, own interval c T, previous interval q T
    with dyadic c in [1/2, 1], q in [1/4, 1], q != c (unequal adjacent intervals, all <= 160 ms)."""
    out = []
    for j in range(m):
        c = rng.randint(8, 16) / 16.0
        q = rng.choice([k for k in range(4, 17) if k / 16.0 != c]) / 16.0
        out.append(((j + rng.random()) / m, c, q))
    return out


def f2_measure(om, f, pattern, t_start, T, layout=None):
    """increment type, linear signals, unequal adjacent intervals: measured theta discrepancy vs the
    formula of theorem C15_incr_unequal_discrepancy: (a x b) t2 (t1 - t2)(t1 + 2 t2)/24."""
    e = probe_rows(om, f, 'increment', pattern, t_start, T, layout)
    worst = (0.0, None)
    resid = 0.0
    for (x, c, q), ei in zip(pattern, e):
        tau, t1, t2 = t_start + x * SPAN, q * T, c * T
        pred = np.cross(om.val(tau), om.der(tau)) * t2 * (t1 - t2) * (t1 + 2 * t2) / 24
        resid = max(resid, np.linalg.norm(ei[3] - pred))
        if np.linalg.norm(pred) > worst[0]:
            worst = (float(np.linalg.norm(pred)), dict(t1=t1, t2=t2, tau=tau, measured=list(map(float, ei[3])),
                                                      predicted=list(map(float, pred))))
    return worst, resid


# ---------------------------------------------------------------------------

def numeric_statements(r, trials, seed_shift=0, small_T=True):
    """the property's accuracy statements on the implementation.  Returns (fails, stats)."""
    rng = random.Random(r.seed + 1500 + seed_shift)
    fails = []
    stats = dict(slopes={}, oracle_vs_dop853=0.0, oracle_semigroup=0.0, f2=None)
    # oracle self-checks: against DOP853 (loose: the integrator's own error is ~1e-10), and the semigroup
    # property  C(tau, T) = C(tau, T/2) C(tau + T/2, T/2),  u = u1 + C1 u2  (tight)
    for kind in ('lin', 'sin'):
        om, f = random_signals(rng, kind, 1.0)
        C1, u1 = exact(om, f, 0.9, 0.16)
        C2, u2 = exact_ivp(om, f, 0.9, 0.16)
        stats['oracle_vs_dop853'] = max(stats['oracle_vs_dop853'], float(np.abs(C1 - C2).max()),
                                        float(np.abs(u1 - u2).max() / 30))
        Ca, ua = exact_step(om, f, 0.9, 0.01, 40)       # one sub-step at twice the order
        Cb, ub = exact(om, f, 0.9, 0.01)
        stats['oracle_semigroup'] = max(stats['oracle_semigroup'], float(np.abs(Ca - Cb).max()),
                                        float(np.abs(ua - ub).max() / 30))
        Ca, ua = exact(om, f, 0.9, 0.08)
        Cb, ub = exact(om, f, 0.98, 0.08, hmax=0.01)
        stats['oracle_semigroup'] = max(stats['oracle_semigroup'], float(np.abs(Ca @ Cb - C1).max()),
                                        float(np.abs(ua + Ca @ ub - u1).max() / 30),
                                        float(np.abs(C1.T @ C1 - np.eye(3)).max()))
    f2_worst = (0.0, None)
    f2_resid = 0.0
    lc = 0                      # running case counter: cycles deterministically through LAYOUTS
    stats['layouts'] = dict(corpus=LAYOUTS, slope_cases_per_layout=[0] * len(LAYOUTS), identity_tables=0)
    for kind in ('lin', 'sin'):
        for typ in ('rate', 'increment'):
            for stamps_kind in ('uniform', 'irregular'):
                sls = []
                for trial in range(trials if stamps_kind == 'uniform' else max(1, trials // 2)):
                    t_start = rng.uniform(0.0, 3.0)
                    pattern = None if stamps_kind == 'uniform' else irregular_pattern(rng)
                    # linear signals are centred on the window so that |w| <= 3 rad/s, |f| <= 30 m/s^2 on it
                    om, f = random_signals(rng, kind, t_start + SPAN / 2)
                    r.case(('slope', kind, typ, stamps_kind, trial),
                           sample=dict(kind=kind, typ=typ, stamps=stamps_kind, om=om.to_json(), f=f.to_json()))
                    unequal_incr = (typ == 'increment' and stamps_kind == 'irregular')
                    # the accuracy statements are checked on a validly labelled table in one of the column
                    # layouts (cycling), and every layout must give bit-identical results on one table
                    layout = LAYOUTS[lc % len(LAYOUTS)]
                    stats['layouts']['slope_cases_per_layout'][lc % len(LAYOUTS)] += 1
                    lc += 1
                    try:
                        tbl = make_table(om, f, uniform_stamps(t_start, 0.04), typ)
                        lbad = layout_identity(tbl, typ) or dtype_offset_check(tbl, typ, k=lc)
                        stats['layouts']['identity_tables'] += 1
                        if lbad:
                            fails.append((f"{kind} signals, {typ} type: {lbad}",
                                          dict(kind='layout', sig=kind, typ=typ, om=om.to_json(), f=f.to_json(),
                                               t_start=t_start, k=lc)))
                        try:
                            E, sl = slope_case(om, f, typ, pattern, t_start, layout)
                        except StatementFailure as ex:
                            fails.append((f"{kind} signals, {typ} type, {stamps_kind} stamps: {ex}",
                                          dict(kind='slope', sig=kind, typ=typ, om=om.to_json(), f=f.to_json(),
                                               pattern=pattern, t_start=t_start, layout=layout)))
                            continue
                        # increment type x unequal adjacent intervals: theta carries the cubic term of
                        # theorem C15_incr_unequal_discrepancy (candidate finding F2) - measured below,
                        # not judged against the "exact through the cubic term" threshold here
                        bad = judge(kind, E, sl, skip_theta=unequal_incr and kind == 'lin')
                        if unequal_incr and kind == 'lin':
                            # dv carries the same cubic factor times (a x e + d x b): judge dv at order 3 only
                            bad = [b for b in bad if not b.startswith('dv+gap')]
                            w, _ = f2_measure(om, f, pattern, t_start, 0.16, layout)
                            w4, rs4 = f2_measure(om, f, pattern, t_start, 0.02, layout)
                            f2_resid = max(f2_resid, rs4 / max(w4[0], 1e-300))
                            if w[0] > f2_worst[0]:
                                f2_worst = (w[0], dict(w[1], om=om.to_json(), f=f.to_json(), pattern=pattern,
                                                       t_start=t_start, theta_slope=float(sl[0]), layout=layout))
                        if small_T and stamps_kind == 'uniform' and trial == 0:
                            bad += small_T_case(om, f, typ, t_start, kind, E[-1], layout)
                        sls.append([float(x) for x in sl])
                        for b in bad:
                            fails.append((f"{kind} signals, {typ} type, {stamps_kind} stamps, columns {layout}: {b}",
                                          dict(kind='slope', sig=kind, typ=typ, om=om.to_json(), f=f.to_json(),
                                               pattern=pattern, t_start=t_start, layout=layout)))
                    except Exception as ex:       # implementation crash / ill-shaped result: a concrete failure of this input
                        what = str(ex) if isinstance(ex, StatementFailure) else f"statement test aborted with {type(ex).__name__}: {ex}"
                        fails.append((f"{kind} signals, {typ} type, {stamps_kind} stamps: {what}",
                                      dict(kind='slope', sig=kind, typ=typ, om=om.to_json(), f=f.to_json(),
                                           pattern=pattern, t_start=t_start, layout=layout, k=lc)))
                stats['slopes'][f"{kind}/{typ}/{stamps_kind}"] = dict(
                    min=[min(s[k] for s in sls) if sls else None for k in range(3)], cases=len(sls),
                    columns=['theta', 'dv', 'dv+gap'])
    stats['f2'] = dict(worst_predicted_discrepancy=f2_worst[0], witness=f2_worst[1],
                       max_relative_residual_vs_theorem=f2_resid)
    return fails, stats


# ---------------------------------------------------------------------------
# rows and stamps

def random_table(rng, n):
    # first stamp: one of the time offsets plus up to 100 s, in units of 1/64 s (exact in binary64 up to 1.7e9 s)
    k = int(rng.choice(OFFSETS)) * 64 + rng.randint(0, 6400)
    stamps64 = []
    for _ in range(n):
        stamps64.append(k)
        k += rng.randint(1, 10)
    data = [[round(rng.uniform(-3, 3), 6) for _ in range(3)] + [round(rng.uniform(-30, 30), 6) for _ in range(3)]
            for _ in range(n)]
    return stamps64, data


def build(stamps64, data):
    import pandas as pd
    from pyins.util import GYRO_COLS, ACCEL_COLS
    return pd.DataFrame(np.array(data, float).reshape(len(data), 6), index=np.array(stamps64, float) / 64.0,
                        columns=GYRO_COLS + ACCEL_COLS)


def rows_check(stamps64, data, typ, provenance=True):
    """never raises: an exception of the implementation / an ill-shaped result is a failure of this input"""
    try:
        return _rows_check(stamps64, data, typ, provenance)
    except StatementFailure as ex:
        return str(ex), None
    except Exception as ex:
        import traceback
        return f"statement test aborted with {type(ex).__name__}: {ex} ({traceback.format_exc().splitlines()[-3].strip()})", None


def _rows_check(stamps64, data, typ, provenance=True):
    """the row/stamp statements on the implementation.  Returns (failure or None, canonical rows)."""
    n = len(stamps64)
    imu = build(stamps64, data)
    out = _impl(imu, typ)
    want_cols = ['dt'] + COLS_TH + COLS_DV
    if list(out.columns) != want_cols:
        return f"columns {list(out.columns)}", None
    if len(out) != max(n - 1, 0):
        return f"{len(out)} rows for {n} samples", None
    st = np.array(stamps64, float) / 64.0
    if n >= 2:
        if not np.array_equal(np.asarray(out.index, float), st[1:]):
            return f"row labels {list(out.index)} are not the stamps of the samples after the first", None
        if not np.array_equal(out['dt'].values, st[1:] - st[:-1]):
            return f"dt column {out['dt'].values.tolist()} is not the successive stamp differences", None
    vals = out.values
    lbad = stamp_clause(out, imu.index, "float64 readings") or layout_identity(imu, typ) or \
        dtype_offset_check(build([k - stamps64[0] for k in stamps64], data), typ, k=(n + len(typ)))
    if lbad:
        return lbad, None
    if n >= 2 and stamps64[0] >= 64 * 1000:
        # translation of the (dyadic) time axis: same dt bits, hence bit-identical columns, shifted labels
        base = (stamps64[0] // 64) * 64
        o0 = _impl(build([k - base for k in stamps64], data), typ)
        if not np.array_equal(o0.values, vals) or \
                not np.array_equal(np.asarray(o0.index, float) + base / 64.0, np.asarray(out.index, float)):
            return (f"results for the time axis shifted by {base // 64} s differ from those for the unshifted axis "
                    f"(max abs difference {float(np.abs(o0.values - vals).max()):.3e})"), None
    canon = []
    for i in range(n - 1):
        one = _impl(imu.iloc[i:i + 2], typ)
        if not np.array_equal(one.values[0], vals[i]) or one.index[0] != out.index[i]:
            return f"row {i} differs from the result on the two-sample table [{i}, {i + 1}]", None
        canon.append((stamps64[i + 1], stamps64[i + 1] - stamps64[i], i, i + 1))
    if provenance and n >= 2:
        for j in range(n):
            d2 = [list(x) for x in data]
            d2[j] = [x + 0.125 for x in d2[j]]
            o2 = _impl(build(stamps64, d2), typ).values
            changed = sorted(i for i in range(n - 1) if not np.array_equal(o2[i], vals[i]))
            want = sorted(i for i in (j - 1, j) if 0 <= i < n - 1)
            if changed != want:
                return f"changing sample {j} changes rows {changed}, expected {want}", None
    return None, canon


def rows_statements(r, ncases, seed_shift=0):
    import common
    rng = random.Random(r.seed + 1515 + seed_shift)
    fails = []
    cases = []
    sizes = {}
    for c in range(ncases):
        n = rng.choice([0, 1, 2, 2, 3, 3, 4, 5, 6, 7, 8, 9, 10, 12, rng.randint(13, 60)])
        stamps64, data = random_table(rng, n)
        sizes[n] = sizes.get(n, 0) + 1
        canon = None
        for typ in ('rate', 'increment'):
            r.case(('rows', typ, tuple(stamps64)), sample=dict(typ=typ, stamps64=stamps64) if n in (3, 4) else None,
                   nontrivial=n >= 2)
            bad, canon_t = rows_check(stamps64, data, typ, provenance=(n <= 10))
            if bad:
                fails.append((f"rows/stamps, {typ} type, n={n}: {bad}",
                              dict(kind='rows', typ=typ, stamps64=stamps64, data=data)))
            else:
                if canon is not None and canon_t != canon:
                    fails.append((f"rows/stamps differ between the sensor types, n={n}",
                                  dict(kind='rows', typ=typ, stamps64=stamps64, data=data)))
                canon = canon_t
        if canon is not None:
            cases.append((stamps64, canon))
    # the same cases through the Coq list model (vm_compute over Q)
    def q(k):
        return f"({k} # 64)%Q"
    items = []
    for stamps64, canon in cases:
        a = "[" + "; ".join(q(k) for k in stamps64) + "]"
        b = "[" + "; ".join(f"({q(s)}, {q(d)}, ({i}, {j})%nat)" for s, d, i, j in canon) + "]"
        items.append(f"({a}, {b})")
    ok_all = True
    for sh in range(0, len(items), 400):
        text = """From Coq Require Import QArith List Bool Arith.
From PV Require Import Spec.PeanoBaker.
Import ListNotations.
Definition run (st : list Q) : list (Q * Q * (nat * nat)) :=
  rows Qminus (fun p c (_ : Q) => (p, c)) (combine st (seq 0 (length st))).
Definition row_eqb (x y : Q * Q * (nat * nat)) : bool :=
  Qeq_bool (fst (fst x)) (fst (fst y)) && Qeq_bool (snd (fst x)) (snd (fst y)) &&
  Nat.eqb (fst (snd x)) (fst (snd y)) && Nat.eqb (snd (snd x)) (snd (snd y)).
Fixpoint list_eqb (a b : list (Q * Q * (nat * nat))) : bool :=
  match a, b with
  | [], [] => true
  | x :: a', y :: b' => row_eqb x y && list_eqb a' b'
  | _, _ => false
  end.
Definition cases : list (list Q * list (Q * Q * (nat * nat))) := [
""" + ";\n".join(items[sh:sh + 400]) + """
].
Fixpoint first_bad (k : nat) (l : list (list Q * list (Q * Q * (nat * nat)))) : option nat :=
  match l with
  | [] => None
  | c :: l' => if list_eqb (run (fst c)) (snd c) then first_bad (S k) l' else Some k
  end.
Eval vm_compute in (first_bad 0 cases).
"""
        ok, out = common.eval_cases('c15rows', text)
        if not ok:
            r.broken('correspondence', 'rows model case file does not compile', out[-1500:])
            ok_all = False
        elif '= None' not in out:
            r.broken('correspondence', 'rows list model and compute_increments_from_imu disagree', out[-600:])
            ok_all = False
    return fails, dict(tables=ncases, sizes={str(k): v for k, v in sorted(sizes.items())}, model_agrees=ok_all)


# ---------------------------------------------------------------------------

def _known_f2():
    import common
    return any(k['property'] == 'C15' and k['key'] == F2_KEY for k in common.load_known_findings())


def check(r):
    r.trusted += [
        "translator tools/sym.py + tools/ir2coq.py (symbolic tracing of strapdown.compute_increments_from_imu on a "
        "3-sample pandas DataFrame with symbolic data and index; nothing in pyins/pandas stubbed)",
        "pandas/numpy object-dtype code paths behave as the float paths (validated: traced IR vs real function on "
        "60 random float inputs per sensor type per run, exact equality)",
        "binary64 rounding not modelled: theorems are over the reals; 0.5 and 1/12 read as exact rationals",
        "numerical oracle: composed binary64 Taylor-series steps (order 20, <= 20 ms) of the attitude / velocity ODEs, "
        "self-checked (semigroup property, higher order, scipy DOP853) each run",
    ]
    r.assumptions += [
        "C15_partial: the order statement for general smooth (sinusoidal) signals is NOT proved (needs Taylor's theorem "
        "with remainder for the matrix ODE); it is measured numerically on the implementation (slopes) only",
        "theorems 1-4 are for signals linear in time: exact polynomial identities of the generated formulas and "
        "coefficientwise equality with the Peano-Baker series mod t^4",
        "rows_and_stamps for arbitrary n is proved for the list model Spec.PeanoBaker.rows; the model is tied to the "
        "code at n = 3 by theorem C15_rows_match_traced and for random n by exact comparison in the harness",
        "documented algorithm order is read as local O(T^3) (linear signal model); the clause 'exact through the cubic "
        "term' holds for rate type (any stamps) and increment type with EQUAL adjacent intervals only: "
        "C15_incr_unequal_discrepancy gives the exact cubic discrepancy for unequal intervals (candidate finding F2)",
    ]
    r.generate(['C15Gen'])
    r.prove('Props/C15.v')
    quick = r.tier == 'quick'
    import linecov
    from pyins import strapdown
    with linecov.LineCoverage({'compute_increments_from_imu': strapdown.compute_increments_from_imu}) as cov:
        fails, stats = rows_statements(r, 150 if quick else 3000)
        fails2, nstats = numeric_statements(r, 4 if quick else 40)
    r.coverage['rows'] = stats
    # lines that may stay unreached, each with its reason:
    #   'raise ValueError' - argument validation for a sensor_type other than 'rate' / 'increment': outside the
    #                        property's quantifier (both sensor types)
    #   'assert False'     - the `else` after the two sensor types, unreachable after that validation
    summ, missing = cov.report(allow=('raise ValueError', 'assert False'))
    r.coverage['code_lines'] = summ
    r.log(f"line coverage: {summ}")
    if missing:
        r.broken('correspondence', 'code line not exercised', missing)
    r.coverage['numeric_support'] = nstats
    r.coverage['distribution'] = dict(rows=stats['sizes'], slope_cases={k: v['cases'] for k, v in nstats['slopes'].items()})
    if nstats['oracle_vs_dop853'] > 1e-8 or nstats['oracle_semigroup'] > 1e-13:
        r.broken('oracle', 'Taylor-series oracle fails its self-checks (DOP853 / semigroup property)',
                 (nstats['oracle_vs_dop853'], nstats['oracle_semigroup']))
    for what, rep in (fails + fails2)[:5]:
        r.violation(what, rep)
    f2 = nstats['f2']
    if f2['witness'] is not None:
        if f2['max_relative_residual_vs_theorem'] > 0.05:
            r.broken('correspondence', 'unequal-interval discrepancy of the implementation differs from theorem '
                     'C15_incr_unequal_discrepancy', f2)
        note = ("F2 (increment type, unequal adjacent intervals, linear signals): theta is NOT exact through the cubic "
                f"term; measured discrepancy {f2['worst_predicted_discrepancy']:.3e} rad at t1={f2['witness']['t1']}, "
                f"t2={f2['witness']['t2']} = (a x b) t2 (t1-t2)(t1+2 t2)/24 (theorem), error order 3 "
                f"(measured slope {f2['witness']['theta_slope']:.2f})")
        if _known_f2():
            r.violation(note, dict(kind='f2', key=F2_KEY, **f2['witness']))
        else:
            r.notes.append(note)
    if not quick:
        r.hygiene('Props/C15.v')
        r.coqchk('Props/C15.v')


def falsify(r):
    found = 0
    for shift in (1, 2, 3):
        fails, _ = rows_statements(r, 300, seed_shift=shift)
        fails2, _ = numeric_statements(r, 8, seed_shift=shift, small_T=True)
        for what, rep in (fails + fails2)[:3]:
            r.violation(what, rep)
            found += 1
        if found:
            return


def replay(obj):
    try:
        return _replay(obj)
    except StatementFailure as ex:
        print("FAILS:", ex)
        return 1


def _replay(obj):
    rep = obj.get('replay', obj)
    print("replay:", {k: v for k, v in rep.items() if k != 'data'})
    if rep.get('kind') == 'rows':
        bad, canon = rows_check(rep['stamps64'], rep['data'], rep['typ'])
        print("implementation:", "FAILS: " + bad if bad else f"ok, rows (stamp64, dt64, prev, cur) = {canon}")
        return 1 if bad else 0
    if rep.get('kind') == 'slope':
        om, f = sig_from_json(rep['om']), sig_from_json(rep['f'])
        layout = rep.get('layout')
        try:
            E, sl = slope_case(om, f, rep['typ'], rep['pattern'], rep['t_start'], layout)
        except StatementFailure as ex:
            print("FAILS:", ex)
            return 1
        print("max errors per interval scale (theta, dv, dv+gap):")
        print(E)
        print("slopes (theta, dv, dv+gap):", sl, "thresholds:", thresholds(rep['sig']))
        unequal = rep['typ'] == 'increment' and rep['pattern'] is not None and rep['sig'] == 'lin'
        bad = judge(rep['sig'], E, sl, skip_theta=unequal)
        if unequal:
            bad = [b for b in bad if not b.startswith('dv+gap')]
        if rep['pattern'] is None:
            bad += small_T_case(om, f, rep['typ'], rep['t_start'], rep['sig'], E[-1], layout)
        for b in bad:
            print("FAILS:", b)
        return 1 if bad else 0
    if rep.get('kind') == 'layout':
        om, f = sig_from_json(rep['om']), sig_from_json(rep['f'])
        tbl = make_table(om, f, uniform_stamps(rep['t_start'], 0.04), rep['typ'])
        bad = layout_identity(tbl, rep['typ']) or dtype_offset_check(tbl, rep['typ'], k=rep.get('k', 0))
        print("implementation:", "FAILS: " + bad if bad else
              "ok, all column layouts / extra columns give bit-identical results; float32 readings and time offsets ok")
        return 1 if bad else 0
    if rep.get('kind') == 'f2':
        om, f = sig_from_json(rep['om']), sig_from_json(rep['f'])
        w, rs = f2_measure(om, f, rep['pattern'], rep['t_start'], 0.16, rep.get('layout'))
        print("worst theta discrepancy (rad):", w[0], w[1], "residual vs theorem:", rs)
        return 1 if w[0] > 1e-9 else 0
    print("unknown replay kind")
    return 0
