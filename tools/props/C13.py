"""C13 — No-altitude mode keeps altitude frozen and vertical velocity zero.

  translator   Gen/NumbaIntegrate.v (kernel step, with_altitude = False branch), Gen/C13Gen.v
               (tools/reg/c13.py: kernel step into garbage-filled buffers, _transform_3d_2d,
               transform_to_output, correct_pva, position / NED-velocity error Jacobians, all in 2D)
  proofs       Props/C13.v: one step (all inputs); every call history of the Integrator model with the
               generated step (whole trajectory, rows since the last supply, produced rows);
               correct_pva keeps alt and VD; feedback-style histories keep the INITIAL altitude;
               sd of down/VD is 0 for every covariance; 2D measurement Jacobians have two rows
  numeric      on the implementation (this file): the property's own statement, bit-exact:
               Integrator(with_altitude=False) under random histories (model <-> code tie is C02's
               correspondence run), kernel steps, run_feedback_filter / run_feedforward_filter on a
               small simulated data set, Position / NedVelocity.compute_matrices in 2D.
"""
import os
import sys
import json
import random
import traceback
import collections

import numpy as np
import pandas as pd

HERE = os.path.dirname(os.path.abspath(__file__))
if os.path.dirname(HERE) not in sys.path:
    sys.path.insert(0, os.path.dirname(HERE))
import common
from props import C02 as H

RULE = ("2D integrator: call histories from the C02 grammar (chunks 0..n, predicts, set_pva with VD != 0 and a new "
        "altitude, capacities {1,2,3,5,8,10000}), vertical specific force up to 500 m/s^2, rows about to be written "
        "pre-filled with NaN; distinct by (capacity, op sequence).  Kernel: random rows incl. VD != 0, dt from 1e-300 "
        "to 1e3.  Filters: simulated sine-velocity motion with vertical motion in the truth and in the measurements, "
        "measurement epochs between IMU samples; distinct by seed.  Measurement models: random pva, with / without "
        "lever arm")

ALT, VD = 2, 5
same = lambda a, b: np.asarray(a, dtype=float).tobytes() == np.asarray(b, dtype=float).tobytes()


# ---------------------------------------------------------------------------
# (1) Integrator(with_altitude=False) under call histories

def history_failures(h):
    """every row produced in 2D mode: VD == 0 exactly, altitude bit-equal to the one most recently supplied.
    Returns None if the implementation raised (that is C02's business: nothing was produced)."""
    h = H.normalise(dict(h, alt=False))
    d = H.make_data(h)
    real = H.run_real(h, d, deep=False)
    if not real['ok']:
        return None
    fails = []
    alts = [d['pvas'][0][ALT]]            # specification: Props/C13.v k_alt_run
    a = alts[0]
    supplied = {float(a)}

    def rows_ok(vals, want, what):
        vals = np.atleast_2d(vals)
        if not np.all(vals[:, VD] == 0.0):
            fails.append(f"{what}: vertical velocity {vals[:, VD].tolist()} is not exactly zero")
        elif len(vals) == len(want):
            if not same(vals[:, ALT], want):
                fails.append(f"{what}: altitude {vals[:, ALT].tolist()} != most recently supplied {list(want)}")
        elif not all(float(x) in supplied for x in vals[:, ALT]):
            # row count is C02's business; without alignment only membership can be checked
            fails.append(f"{what}: altitude {vals[:, ALT].tolist()} is not one of the supplied altitudes {sorted(supplied)}")

    for j, (o, ob) in enumerate(zip(h['ops'], real['obs'])):
        if o[0] == 'I':
            alts += [a] * o[1]
            m = len(ob[2])
            rows_ok(ob[2], alts[-m:] if 0 < m <= len(alts) else [], f"op {j} integrate({o[1]}) returned rows")
        elif o[0] == 'P':
            rows_ok(ob[2], [a], f"op {j} predict")
        elif o[0] == 'G':
            rows_ok(ob[2], [alts[-1]], f"op {j} get_pva")
        elif o[0] == 'S':
            a = d['pvas'][o[1]][ALT]
            supplied.add(float(a))
            alts[-1] = a
        if len(fails) >= 3:
            break
    rows_ok(real['values'], alts, "final trajectory")
    return fails


def check_histories(r, rng, n, exhaustive=False):
    dist = collections.Counter()
    nviol = 0
    hists = H.corpus(modes=(False,)) + [H.gen_history(rng, dict(alt=False, cap=c)) for c in H.CAPS]
    while len(hists) < n:
        hists.append(H.gen_history(rng, dict(alt=False)))
    if exhaustive:
        for cap in (2, 3):
            hists += list(H.exhaustive_histories(cap, False, 4))
    for h in hists:
        f = history_failures(h)
        if f is None:
            dist['implementation raised (see C02)'] += 1
            f = []
        nsup = sum(1 for o in h['ops'] if o[0] == 'S')
        nint = sum(o[1] for o in h['ops'] if o[0] == 'I')
        dist[f"set_pva={min(nsup, 3)}"] += 1
        dist[f"cap={h['cap']}"] += 1
        r.case(('hist',) + H.hist_key(h), sample=dict(kind='history', history=h), nontrivial=nint > 0)
        if f and nviol < 3:
            nviol += 1
            small = H.shrink(h, lambda x: bool(history_failures(x)))
            ff = history_failures(small) or f
            r.violation("2D integrator: " + ff[0], dict(key='c13-history', kind='history', history=small,
                                                         failures=ff, original=h))
    if dist['implementation raised (see C02)']:
        r.log(f"2D histories: {dist['implementation raised (see C02)']} of {len(hists)} raised on the implementation "
              f"(nothing produced, not a C13 matter; C02 reports legal histories that raise)")
    return dict(histories=len(hists), **dict(sorted(dist.items())))


# ---------------------------------------------------------------------------
# (2) one kernel step

def kernel_failures(seed, n):
    from pyins import _numba_integrate as ni
    rs = np.random.RandomState(seed % (2 ** 31))
    fails = []
    for k in range(n):
        lla = np.full((2, 3), np.nan)
        vel = np.full((2, 3), np.nan)
        mat = np.full((2, 3, 3), np.nan)
        alt = float(rs.choice([0.0, 1e-300, 123.456, -431.0, 8848.86, 1e5 * rs.uniform(-1, 1)]))
        vd = 0.0 if k % 2 == 0 else float(rs.uniform(-50, 50))
        lat = rs.uniform(-85, 85) if k % 5 else rs.choice([-1, 1]) * rs.uniform(89.0, 89.99)
        lla[0] = [lat, rs.uniform(-180, 180), alt]
        vel[0] = [rs.uniform(-300, 300), rs.uniform(-300, 300), vd]
        q = rs.normal(size=4)
        q /= np.linalg.norm(q)
        w, x, y, z = q
        mat[0] = [[1 - 2 * (y * y + z * z), 2 * (x * y - z * w), 2 * (x * z + y * w)],
                  [2 * (x * y + z * w), 1 - 2 * (x * x + z * z), 2 * (y * z - x * w)],
                  [2 * (x * z - y * w), 2 * (y * z + x * w), 1 - 2 * (x * x + y * y)]]
        dt = float(rs.choice([1e-300, 1e-9, 0.005, 0.01, 0.1, 1.0, 1e3]))
        theta = rs.normal(size=(1, 3)) * rs.choice([1e-4, 1e-2])
        dv = rs.normal(size=(1, 3)) * rs.choice([0.1, 50.0])
        ni.integrate(np.array([dt]), lla, vel, mat, theta, dv, 0, False)
        rec = dict(kind='kernel', seed=seed, index=k, alt=alt, VD=vd, dt=dt)
        if not (vel[1, 2] == 0.0):
            fails.append((f"kernel step (with_altitude=False) wrote vertical velocity {vel[1, 2]!r}", rec))
        if vd == 0.0 and not same(lla[1, 2], alt):
            fails.append((f"kernel step (with_altitude=False, VD=0) changed altitude {alt!r} -> {lla[1, 2]!r}", rec))
    return fails


# ---------------------------------------------------------------------------
# (3) error model / measurement models in 2D

def _rand_pva(rs, vd=None, rates=False, polar=False):
    from pyins.util import TRAJECTORY_COLS
    lat = rs.choice([-1, 1]) * rs.uniform(89.0, 89.99) if polar else rs.uniform(-80, 80)
    vals = [lat, rs.uniform(-180, 180), rs.uniform(-100, 5000), rs.uniform(-50, 50),
            rs.uniform(-50, 50), rs.uniform(-5, 5) if vd is None else vd,
            rs.uniform(-180, 180), rs.uniform(-80, 80), rs.uniform(-180, 180)]
    idx = list(TRAJECTORY_COLS)
    if rates:
        vals += list(rs.uniform(-0.5, 0.5, 3))
        idx += ['rate_x', 'rate_y', 'rate_z']
    return pd.Series(vals, index=idx, name=float(rs.randint(0, 100)))


def model_failures(seed, n):
    from pyins import error_model, measurements
    from pyins.util import LLA_COLS, VEL_COLS
    rs = np.random.RandomState(seed % (2 ** 31))
    em = error_model.InsErrorModel(with_altitude=False)
    em3 = error_model.InsErrorModel(with_altitude=True)
    fails = []
    for k in range(n):
        rec = dict(kind='model', seed=seed, index=k)
        pva = _rand_pva(rs, rates=(k % 2 == 1), polar=(k % 4 >= 2))     # half of the states within 1 deg of a pole
        rec['state'] = dict(lat=float(pva['lat']), lon=float(pva['lon']), alt=float(pva['alt']), VD=float(pva['VD']))
        T = em.transform_to_output(pva[pva.index[:9]])
        if T.shape != (9, 7) or np.any(T[2] != 0.0) or np.any(T[5] != 0.0):
            fails.append((f"transform_to_output (2D): rows down / VD are not zero: {T[2].tolist()} {T[5].tolist()}", rec))
        x = rs.normal(size=7) * np.array([5, 5, 2, 2, 1e-2, 1e-2, 3e-2]) * rs.choice([1.0, 30.0])
        c = em.correct_pva(pva[pva.index[:9]], x)
        if not same(c['alt'], pva['alt']) or not same(c['VD'], pva['VD']):
            fails.append((f"correct_pva (2D) at lat {pva['lat']!r} with x = {x.tolist()} changed alt "
                          f"{pva['alt']!r}->{c['alt']!r} or VD {pva['VD']!r}->{c['VD']!r}",
                          dict(rec, correction=x.tolist())))
        lever = None if k % 3 == 0 else rs.uniform(-2, 2, 3)
        t = 5.0
        pos = pd.DataFrame([[pva.lat + 1e-5, pva.lon - 1e-5, pva.alt + 25.0]], index=[t], columns=LLA_COLS)
        velm = pd.DataFrame([[pva.VN + 0.3, pva.VE - 0.2, 4.0]], index=[t], columns=VEL_COLS)
        body = pd.DataFrame([[pva.VN - 0.1, 0.2, -0.3]], index=[t], columns=['VX', 'VY', 'VZ'])

        def stored(df, j):
            """the same labelled data stored in another column order (odd j: plus an unrelated column)"""
            if j == 0:
                return df
            cols = list(df.columns)
            cols = cols[j % 3:] + cols[:j % 3] if j % 3 else cols[::-1]
            out = df.copy()
            if j % 2:
                out['quality'] = 7.0
                cols.insert(j % 4, 'quality')
            return out[cols]

        def other_vertical(df, col):
            out = df.copy()
            out[col] = out[col] + 123.0
            return out

        makers = (('Position', lambda df: measurements.Position(df, 2.0, lever), pos, 'alt'),
                  ('NedVelocity', lambda df: measurements.NedVelocity(df, 0.5, lever), velm, 'VD'))
        for name, mk, df, vcol in makers:
            z, Hm, R = mk(df).compute_matrices(t, pva, em)
            z3, H3, R3 = mk(df).compute_matrices(t, pva, em3)
            z, z3 = np.asarray(z, dtype=float), np.asarray(z3, dtype=float)
            if z.shape != (2,) or np.shape(Hm) != (2, 7) or np.shape(R) != (2, 2):
                fails.append((f"{name}.compute_matrices (2D) shapes z{z.shape} H{np.shape(Hm)} R{np.shape(R)}; "
                              f"the vertical row must be dropped", rec))
                continue
            if not same(z, z3[:2]) or not same(np.asarray(R), np.asarray(R3)[:2, :2]):
                fails.append((f"{name}.compute_matrices (2D): z / R are not the horizontal part of the 3D ones", rec))
            # the 2 rows are the north / east differences: independent of the measured vertical component and
            # of the order in which the labelled columns of the measurement table are stored
            for j in range(1, 5):
                variants = [(f"columns stored as {list(stored(df, j).columns)}", stored(df, j))]
                if name == 'NedVelocity':      # (for Position the measured altitude legitimately enters the
                    #                             metres-per-degree scale of the horizontal differences)
                    variants.append((f"measured {vcol} changed, columns {list(stored(df, j - 1).columns)}",
                                     stored(other_vertical(df, vcol), j - 1)))
                for what, dfv in variants:
                    try:
                        zz, HH, RR = mk(dfv).compute_matrices(t, pva, em)
                        zz = np.asarray(zz, dtype=float)
                    except Exception as e:
                        fails.append((f"{name}.compute_matrices (2D) with {what} raised {type(e).__name__}: {e}",
                                      dict(rec, variant=j)))
                        break
                    if zz.shape != (2,) or not same(zz, z) or not same(np.asarray(HH), np.asarray(Hm)) or \
                            not same(np.asarray(RR), np.asarray(R)):
                        fails.append((f"{name}.compute_matrices (2D) with {what}: z = {zz.tolist()} instead of the "
                                      f"north / east differences {z.tolist()} (vertical row not dropped)",
                                      dict(rec, variant=j)))
                        break
            if mk(df).compute_matrices(t + 1, pva, em) is not None:
                fails.append((f"{name}.compute_matrices returned data at a time without measurement", rec))
        zb, Hb, Rb = measurements.BodyVelocity(body, 0.2).compute_matrices(t, pva, em)
        for j in range(1, 4):
            try:
                z2, H2, R2 = measurements.BodyVelocity(stored(body, j), 0.2).compute_matrices(t, pva, em)
            except Exception as e:
                fails.append((f"BodyVelocity.compute_matrices (2D) with columns {list(stored(body, j).columns)} raised "
                              f"{type(e).__name__}: {e}", dict(rec, variant=j)))
                break
            if not same(np.asarray(z2, dtype=float), np.asarray(zb, dtype=float)) or np.shape(H2) != (3, 7):
                fails.append((f"BodyVelocity.compute_matrices (2D) depends on the storage order of the labelled "
                              f"columns {list(stored(body, j).columns)}", dict(rec, variant=j)))
                break
    return fails


# ---------------------------------------------------------------------------
# (4) the filters on a small simulated data set

def _flag2d(seed):
    """with_altitude = False spelled as bool / numpy.bool_ / int"""
    return [False, np.False_, 0][seed % 3]


def filter_failures(seed, n_samples=300, compare=False, polar=False):
    from pyins import filters, sim, strapdown, measurements, inertial_sensor, transform
    fails = []
    rec = dict(kind='filter', seed=seed, n_samples=n_samples, polar=polar)
    rng = np.random.RandomState(seed % (2 ** 31))
    dt = 0.05
    total = n_samples * dt
    vmean = [rng.uniform(-3, 3), rng.uniform(-3, 3), 0.3]
    lat0 = rng.uniform(-60, 60)
    if polar:                                          # within 1 deg of a pole, both hemispheres
        lat0 = (1 if seed % 2 else -1) * rng.uniform(89.2, 89.9)
    rec['initial_lat'] = float(lat0)
    traj_true, imu_true = sim.generate_sine_velocity_motion(
        0.5 * dt, total, [lat0, rng.uniform(-170, 170), rng.uniform(0, 2000)], vmean,
        [3, 3, 1.5], velocity_change_period=10, sensor_type='rate')
    pos_df = sim.generate_position_measurements(traj_true.iloc[1::40], 1.0, rng)
    vel_df = sim.generate_ned_velocity_measurements(traj_true.iloc[11::40], 0.3, rng)
    lever = None if seed % 2 else [0.5, -0.3, 0.2]
    pos_c, vel_c = measurements.Position(pos_df, 1.0, lever), measurements.NedVelocity(vel_df, 0.3)
    permuted = (seed // 3) % 2 == 1                    # measurement tables stored in another column order
    if permuted:
        pos = measurements.Position(pos_df[['alt', 'lon', 'lat']], 1.0, lever)
        vel = measurements.NedVelocity(vel_df[['VE', 'VN', 'VD']], 0.3)
    else:
        pos, vel = pos_c, vel_c
    flag = _flag2d(seed)
    rec = dict(rec, with_altitude=repr(flag), permuted_measurement_columns=permuted)
    gyro_model = inertial_sensor.EstimationModel(bias_sd=100 * transform.DH_TO_RS, noise=1 * transform.DRH_TO_RRS)
    accel_model = inertial_sensor.EstimationModel(bias_sd=0.1, noise=1.0 / 60)
    imu = imu_true.iloc[::2]
    increments = strapdown.compute_increments_from_imu(imu, 'rate')
    pva_error = sim.generate_pva_error(10, 2, 1.0, 5.0, rng=rng)
    initial = sim.perturb_pva(traj_true.iloc[0], pva_error)
    initial['VD'] = 1.25                               # supplied vertical velocity is ignored in 2D
    res = filters.run_feedback_filter(initial, 10, 2, 1.0, 5.0, increments, gyro_model, accel_model,
                                      measurements=[pos, vel], time_step=0.5, with_altitude=flag)
    tr = res.trajectory
    if not np.all(tr['VD'].values == 0.0):
        bad = np.flatnonzero(tr['VD'].values != 0.0)
        fails.append((f"feedback filter (2D): vertical velocity not exactly zero at rows {bad[:5].tolist()}: "
                      f"{tr['VD'].values[bad[:5]].tolist()}", rec))
    if not same(tr['alt'].values, np.full(len(tr), initial['alt'])):
        bad = np.flatnonzero(tr['alt'].values != initial['alt'])
        fails.append((f"feedback filter (2D): altitude differs from the initial {initial['alt']!r} at rows "
                      f"{bad[:5].tolist()}: {tr['alt'].values[bad[:5]].tolist()}", rec))
    for col in ('down', 'VD'):
        v = res.trajectory_sd[col].values
        if not np.all(v == 0.0):
            fails.append((f"feedback filter (2D): trajectory_sd['{col}'] not exactly zero: max {np.nanmax(np.abs(v))!r}", rec))
    ninnov = {k: v.shape for k, v in res.innovations.items()}
    if any(s[1] != 2 for s in ninnov.values() if s[0] > 0):
        fails.append((f"feedback filter (2D): innovations are not 2-dimensional {ninnov}", rec))
    # feedforward: sd only (the property does not speak about its trajectory)
    if compare and (permuted or flag is not False):
        ref = filters.run_feedback_filter(initial, 10, 2, 1.0, 5.0, increments, gyro_model, accel_model,
                                          measurements=[pos_c, vel_c], time_step=0.5, with_altitude=False)
        if not same(ref.trajectory.values, tr.values):
            fails.append(("feedback filter (2D): the trajectory depends on the storage order of the measurement "
                          "columns / on how with_altitude=False is spelled", rec))
    it = strapdown.Integrator(initial, with_altitude=flag)
    it.integrate(increments)
    ff = filters.run_feedforward_filter(it.trajectory, it.trajectory, 10, 2, 1.0, 5.0, gyro_model, accel_model,
                                        measurements=[pos, vel], time_step=0.5, with_altitude=flag)
    for col in ('down', 'VD'):
        v = ff.trajectory_sd[col].values
        if not np.all(v == 0.0):
            fails.append((f"feedforward filter (2D): trajectory_sd['{col}'] not exactly zero: max {np.nanmax(np.abs(v))!r}", rec))
    info = dict(rows=len(tr), epochs=sum(s[0] for s in ninnov.values()), sd_rows=len(res.trajectory_sd),
                ff_rows=len(ff.trajectory_sd), with_altitude=repr(flag), permuted_measurement_columns=permuted)
    return fails, info


# ---------------------------------------------------------------------------

def generated_shapes(r):
    """the traced 2D functions have the documented shapes: the vertical rows are absent"""
    try:
        import gen
        want = dict(poserr2d={f"h{i}{j}" for i in range(2) for j in range(7)},
                    velerr2d={f"h{i}{j}" for i in range(2) for j in range(7)},
                    out2d={f"o{i}{j}" for i in range(9) for j in range(7)},
                    t3d2d={f"t{i}{j}" for i in range(9) for j in range(7)},
                    correct2d={'lat', 'lon', 'alt', 'VN', 'VE', 'VD', 'roll', 'pitch', 'heading'},
                    kstep2d_fresh={'alt', 'VD'}, kstep3d_fresh={'alt', 'VD'})
        for name, outs in want.items():
            e = gen.TRACES.get(('C13Gen', 'c13_' + name))
            if e is None:
                r.broken('translator', f"C13Gen.{name}", "not traced")
                continue
            got = set(e[2][0][1])
            if got != outs:
                r.broken('translator', f"C13Gen.{name}",
                         f"outputs {sorted(got)} differ from the expected shape {sorted(outs)}")
    except Exception:
        r.broken('translator', 'C13Gen shapes', traceback.format_exc())


def numeric(r, rng, quick):
    found = []
    cov = {}
    cov['integrator2d'] = check_histories(r, rng, 250 if quick else 6000, exhaustive=not quick)
    kf = kernel_failures(rng.randrange(2 ** 30), 400 if quick else 20000)
    mf = model_failures(rng.randrange(2 ** 30), 40 if quick else 600)
    found += kf[:2] + mf[:3]
    r.evaluations += (400 if quick else 20000) + (40 if quick else 600)
    cov['kernel_steps'] = 400 if quick else 20000
    cov['model_points'] = 40 if quick else 600
    infos = []
    for k in range(2 if quick else 8):
        # seed % 3 selects the spelling of with_altitude=False, (seed // 3) % 2 the permuted measurement tables
        seed = 6 * rng.randrange(2 ** 26) + (4 if k == 0 else 5 if k == 1 else rng.randrange(6))
        try:
            ff, info = filter_failures(seed, 300 if (quick or k % 2) else 800, compare=(k == 0 or not quick),
                                       polar=(k % 2 == 1))
        except Exception as e:
            ff, info = [(f"filters raised {type(e).__name__}: {e}",
                         dict(kind='filter', seed=seed, n_samples=300, polar=(k % 2 == 1)))], {}
        infos.append(info)
        r.case(('filter', seed), sample=dict(kind='filter', seed=seed, **info))
        found += ff[:3]
    cov['filters'] = infos
    r.coverage['distribution'] = cov
    for what, rec in found[:6]:
        r.violation(what, dict(key='c13-' + rec['kind'], **rec))


# source lines of the covered functions that may stay unexecuted, each with its reason
COV_ALLOW = (
    'assert False',     # Integrator._integrate: `mode` is only ever 'integrate' or 'predict'
)


COV_MISSING = []


def cov_functions():
    """the Integrator class (as in C02) and the anchored 2D functions of error_model / measurements that exist
    today, plus, transitively, the private helpers of those modules / classes they call"""
    from pyins import error_model, measurements
    E = error_model.InsErrorModel
    named, missing = H.named_functions([
        (E, 'correct_pva'), (E, '_transform_3d_2d'), (E, 'transform_to_output'),
        (E, 'position_error_jacobian'), (E, 'ned_velocity_error_jacobian'),
        (measurements.Position, 'compute_matrices'), (measurements.NedVelocity, 'compute_matrices')])
    COV_MISSING[:] = missing
    named = H.with_private_callees(named, [error_model, E, measurements, measurements.Measurement,
                                           measurements.Position, measurements.NedVelocity])
    f = H.cov_functions()
    f.update(named)
    return f


def coverage_3d_calls(seed):
    """the same functions once with_altitude=True, ONLY so that lines reachable in 3D mode alone (early
    returns after a restructuring) count as exercised; nothing is checked here (3D behaviour is not C13's)"""
    from pyins import error_model
    rs = np.random.RandomState(seed % (2 ** 31))
    em3 = error_model.InsErrorModel(with_altitude=True)
    for k in range(3):
        pva = _rand_pva(rs)
        em3.transform_to_output(pva)
        em3.transform_to_output(pd.DataFrame([pva, pva]))
        em3.correct_pva(pva, rs.normal(size=9) * 1e-2)
    for h in H.corpus(modes=(True,)):
        H.run_real(h, H.make_data(h), deep=False)


def check(r):
    r.trusted += [
        "translator tools/sym.py + tools/ir2coq.py + tools/reg/c13.py (symbolic tracing of the 2D branch of "
        "_numba_integrate.integrate and of error_model.InsErrorModel(False)); scipy Rotation stubs of tools/gen.py",
        "Model/Integrator.v is tied to pyins.strapdown.Integrator by the correspondence run of C02 (same model, "
        "both modes); C13 re-checks the 2D statement itself on the implementation",
        "binary64: alt - (0.5*(0+0))*dt == alt and the exact zeros of T P T^T are IEEE facts checked on the "
        "implementation (tobytes / == 0.0), not proved",
    ]
    r.assumptions += [
        "feedback filter: that every set_pva argument is correct_pva(get_pva(), x) is read off filters.py "
        "(lines `integrator.set_pva(error_model.correct_pva(integrator.get_pva(), x[ins_block]))`) and C09's trace; "
        "theorem C13_feedback2d_invariant is about all such histories; the real filter is checked numerically",
        "trajectory_sd is sqrt(diag(T P T^T)) with T = transform_to_output (read off filters._compute_sd / "
        "_compute_feedforward_result); Props/C13.v proves the zero rows of T and the zero quadratic form",
    ]
    if r.generate(['NumbaIntegrate', 'C13Gen']):
        generated_shapes(r)
    r.prove('Props/C13.v')
    cv = H.Coverage(cov_functions(), COV_ALLOW)
    with cv:                                # all numeric runs are with_altitude=False, in this process
        numeric(r, random.Random(r.seed + 13), r.tier == 'quick')
        try:
            coverage_3d_calls(r.seed)
        except Exception:
            r.log("3D calls for line coverage raised (ignored here):\n" + traceback.format_exc()[-600:])
    cv.finish(r)
    if COV_MISSING:
        r.coverage['code_lines']['anchors_not_found'] = list(COV_MISSING)
        r.log(f"line coverage: anchored functions no longer present under their names: {COV_MISSING}")
    if r.tier == 'thorough':
        r.hygiene('Props/C13.v')
        r.coqchk('Props/C13.v')


def falsify(r):
    rng = random.Random(r.seed + 1313)
    found = []
    for k in range(3000):
        h = H.gen_history(rng, dict(alt=False))
        f = history_failures(h)
        if f:
            small = H.shrink(h, lambda x: bool(history_failures(x)))
            ff = history_failures(small) or f
            r.violation("2D integrator: " + ff[0], dict(key='c13-history', kind='history', history=small,
                                                         failures=ff, original=h))
            break
    found += kernel_failures(rng.randrange(2 ** 30), 5000)[:1]
    found += model_failures(rng.randrange(2 ** 30), 300)[:2]
    for k in range(3):
        seed = rng.randrange(2 ** 30)
        try:
            found += filter_failures(seed, 300, compare=True, polar=(k % 2 == 1))[0][:2]
        except Exception as e:
            found.append((f"filters raised {type(e).__name__}: {e}", dict(kind='filter', seed=seed, n_samples=300)))
    for what, rec in found[:5]:
        r.violation(what, dict(key='c13-' + rec['kind'], **rec))


def replay(obj):
    rep = obj.get('replay', obj)
    kind = rep.get('kind', 'history' if 'history' in rep else None)
    if kind == 'history':
        h = H.normalise(dict(rep['history'], alt=False))
        d = H.make_data(h)
        print("history:", json.dumps(h))
        print("supplied pvas (alt, VD):", [(float(p[ALT]), float(p[VD])) for p in d['pvas']])
        real = H.run_real(h, d, deep=False)
        if real['ok']:
            print(pd.DataFrame(real['values'], index=real['index'], columns=d['cols'])[['alt', 'VD']].to_string())
        else:
            print("implementation raised:", real['error'])
        f = history_failures(h)
        print("property statement on the implementation:", f or "holds")
        return 1 if f else 0
    if kind == 'kernel':
        f = kernel_failures(rep['seed'], rep['index'] + 1)
        print([w for w, _ in f] or "holds")
        return 1 if f else 0
    if kind == 'model':
        f = model_failures(rep['seed'], rep['index'] + 1)
        print([w for w, _ in f] or "holds")
        return 1 if f else 0
    if kind == 'filter':
        f, info = filter_failures(rep['seed'], rep.get('n_samples', 300), compare=True, polar=rep.get('polar', False))
        print(info)
        print([w for w, _ in f] or "holds")
        return 1 if f else 0
    print("unknown replay", rep)
    return 0
