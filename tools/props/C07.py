"""C07 -- Kalman correction is the exact Bayesian posterior with whitened innovation.

Tie: tools/gen_mx.py traces the LIVE `pyins.kalman.correct` at matrix granularity on every
run (symbolic matrices with dummy prime dimensions), validates the traced IR against the
real function (60 random inputs, several dimensions, C and Fortran order, inputs bit-identical
afterwards) and regenerates coq/Gen/Kalman.v; the theorems of Props/C07.v are about those
generated definitions.

Numerical support / falsifier (on the implementation, independent oracles):
  * conditional-Gaussian mean and covariance in EXACT rational arithmetic (fractions.Fraction)
    from the same binary64 inputs (small dimensions), numpy reference otherwise;
  * symmetry, PSD, posterior <= prior, information form;
  * entry by entry against the exact rational posterior, in units of the componentwise rounding bound of the
    Joseph form U P U^T + K R K^T (not eps |P|), and PSD relative to the exact posterior variances: cases with a
    huge prior variance on a state measured by a very accurate sensor (P_kk / R up to 1e17, cond P <= 1e10), where
    the exact posterior variance (~R) lies far below eps |P|;
  * integer-typed inputs (int64 arrays) give the float result;
  * residual z - H x EXACTLY zero (x = 0 and z = 0; H rows of unit vectors with z copied from x; integer data), in the
    first block or in all blocks: posterior covariance against the exact rational one, sequential vs joint;
  * calls in a row on the same buffers updated in place in between: the result depends only on the current values;
  * whitening: innovation == solve(L, e) for the lower Cholesky factor L (numpy) of S, and
    innovation^T innovation == e^T S^-1 e (exact rational for small dimensions);
  * independent blocks processed in every order == joint processing;
  * inputs unmodified (byte snapshots, C and Fortran memory order).
Tolerances are 200x a first-order rounding bound that scales with cond(S) and the sizes of the
terms of the Joseph form; the worst observed ratio error/tolerance is reported in the evidence.
"""
import math
import random
import itertools
from fractions import Fraction

import os
os.environ.setdefault('OPENBLAS_NUM_THREADS', '1')   # tiny matrices: BLAS threads only add latency
os.environ.setdefault('OMP_NUM_THREADS', '1')
import numpy as np

RULE = ("translator: matrix-granularity trace of kalman.correct validated on 60 random inputs per run; "
        "numeric support: random (n in 1..20, m in 1..6) cases with P well-conditioned / cond up to 1e10 / "
        "rank-deficient / zero with overall scale 1e-8..1e8, H full / rank-deficient / zero rows, R = s*SPD with s in "
        "1e-8..1e8 relative to the scale of P (all tolerances homogeneous in the scales), "
        "block partitions of the observations in every order, C and Fortran memory order; a case is "
        "distinct by (n, m, kinds, block sizes, order, seed index)")

EPS = 2.0 ** -52
MARGIN = 200.0


# ---------------------------------------------------------------------------
# case generation

def _randn(rng, *shape):
    return np.array([rng.gauss(0.0, 1.0) for _ in range(int(np.prod(shape)))]).reshape(shape)


def _orth(rng, k):
    q, r = np.linalg.qr(_randn(rng, k, k))
    return q * np.sign(np.diag(r) + (np.diag(r) == 0))


def _sym_from_eigs(rng, eigs):
    q = _orth(rng, len(eigs))
    a = (q * np.array(eigs)) @ q.T
    return (a + a.T) / 2


def make_dynrange(rng, idx):
    """huge prior variance on a state that a very accurate sensor measures directly: P_kk / R up to 1e16..1e17
    with cond(P) <= 1e10; the exact posterior variance of that state (~R) is far below eps |P|."""
    n = rng.randint(1, 4)
    m = rng.randint(1, min(2, n))
    meas = rng.sample(range(n), m)
    for _ in range(50):
        c = _sym_from_eigs(rng, [10 ** rng.uniform(-0.7, 0.7) for _ in range(n)])
        dg = np.sqrt(np.diag(c))
        c = c / np.outer(dg, dg)
        d2 = np.array([10 ** rng.uniform(-1, 4) for _ in range(n)])
        for k in meas:
            d2[k] = rng.uniform(1, 9) * 10 ** rng.choice([rng.uniform(2, 8), 8.0])
        d = np.sqrt(d2)
        P = c * np.outer(d, d)
        P = (P + P.T) / 2
        if np.linalg.cond(P) <= 1e10:
            break
    else:
        P = np.diag(d2)
    H = np.zeros((m, n))
    for i, k in enumerate(meas):
        H[i, k] = rng.choice([1.0, 1.0, -1.0, 2.0])
    sizes = [m] if (m == 1 or rng.random() < 0.5) else [1, 1]
    R = np.diag([rng.uniform(1, 9) * 10 ** rng.choice([-8.0, rng.uniform(-8, -2)]) for _ in range(m)])
    x = _randn(rng, n) * 10 ** rng.uniform(-1, 3)
    z = _randn(rng, m) * 10 ** rng.uniform(-1, 3)
    pscale = float(np.diag(P).max())
    return dict(idx=idx, n=n, m=m, pkind='dynrange', hkind='select', sizes=sizes, order=rng.choice(['C', 'F']),
                pscale=pscale, rscale_rel=float(np.diag(R).min()) / pscale, x=x, P=P, z=z, H=H, R=R)


def make_intcase(rng, idx):
    """integer-valued inputs, passed to the implementation as int64 arrays"""
    n, m = rng.randint(1, 4), rng.randint(1, 3)
    ri = lambda *s: np.array([rng.randint(-3, 3) for _ in range(int(np.prod(s)))], dtype=float).reshape(s)
    a, b = ri(n, n), ri(m, m)
    P = a @ a.T + rng.choice([0, 1, 5]) * np.eye(n)
    R = b @ b.T + rng.randint(1, 4) * np.eye(m)
    return dict(idx=idx, n=n, m=m, pkind='integer', hkind='full', sizes=[m], order=rng.choice(['C', 'F']),
                pscale=1.0, rscale_rel=1.0, ints=True, x=ri(n), P=P, z=ri(m), H=ri(m, n), R=R)


def make_zerores(rng, idx):
    """residual z - H x EXACTLY zero (bit for bit) in the first block or in all blocks: x = 0 and z = 0, H rows of
    (signed) unit vectors with z copied from the selected prior states, or integer-valued H, x with z = H x."""
    n, m = rng.randint(1, 4), rng.randint(1, 3)
    style = rng.choice(['zero', 'select', 'integer'])
    P = _sym_from_eigs(rng, [10 ** rng.uniform(-1, 1) for _ in range(n)]) * 10 ** rng.uniform(-3, 3)
    sizes = []
    left = m
    while left:
        k = rng.randint(1, left)
        sizes.append(k)
        left -= k
    R = np.zeros((m, m))
    o = 0
    for k in sizes:
        R[o:o + k, o:o + k] = _sym_from_eigs(rng, [10 ** rng.uniform(-1, 1) for _ in range(k)]) * 10 ** rng.uniform(-3, 3)
        o += k
    if style == 'zero':
        x, H = np.zeros(n), _randn(rng, m, n)
    elif style == 'select':
        x = _randn(rng, n) * 10 ** rng.uniform(-2, 2)
        H = np.zeros((m, n))
        for i in range(m):
            H[i, rng.randrange(n)] = rng.choice([1.0, 1.0, -1.0])
    else:
        x = np.array([float(rng.randint(-5, 5)) for _ in range(n)])
        H = np.array([[float(rng.randint(-3, 3)) for _ in range(n)] for _ in range(m)])
    z = H.dot(x)
    if np.any(z - H.dot(x)):                       # must be exact
        x, z = np.zeros(n), np.zeros(m)
    if len(sizes) > 1 and rng.random() < 0.6:      # only the first block has a zero residual
        z[sizes[0]:] += _randn(rng, m - sizes[0]) * 10 ** rng.uniform(-1, 1)
    return dict(idx=idx, n=n, m=m, pkind='zero-residual', hkind=style, sizes=sizes, order=rng.choice(['C', 'F']),
                pscale=1.0, rscale_rel=1.0, x=x, P=P, z=z, H=H, R=R)


SEQ_OPS = ['scalePR', 'newz', 'x0', 'negH', 'scaleR', 'same']


def make_case(rng, small=False, idx=0):
    c = _make_case(rng, small, idx)
    if c['n'] <= 6 and rng.random() < 0.25:         # calls in a row on the same buffers, mutated in place
        c['seq'] = [rng.choice(SEQ_OPS) for _ in range(rng.randint(1, 3))]
    return c


def _make_case(rng, small=False, idx=0):
    u = rng.random()
    if u < 0.15:
        return make_dynrange(rng, idx)
    if u < 0.22:
        return make_intcase(rng, idx)
    if u < 0.32:
        return make_zerores(rng, idx)
    n = rng.randint(1, 4) if small else rng.choice([1, 2, 3, 4, 5, 6, 8, 10, 12, 15, 17, 20])
    m = rng.randint(1, 3) if small else rng.randint(1, 6)
    pk = rng.choice(['well', 'well', 'ill', 'rankdef', 'zero', 'diag'])
    # overall scale of P log-uniform over 16 decades; R is drawn 1e-8 .. 1e8 RELATIVE to it (below)
    pscale = 10 ** rng.uniform(-8, 8)
    if pk == 'well':
        P = _sym_from_eigs(rng, [10 ** rng.uniform(-1, 1) for _ in range(n)])
    elif pk == 'ill':
        P = _sym_from_eigs(rng, [10 ** rng.uniform(-10, 0) for _ in range(n)])
    elif pk == 'rankdef':
        rk = rng.randint(0, max(0, n - 1))
        b = _randn(rng, n, rk) if rk else np.zeros((n, 1))
        P = b @ b.T
    elif pk == 'zero':
        P = np.zeros((n, n))
    else:
        P = np.diag([10 ** rng.uniform(-3, 3) for _ in range(n)])
    P = P * pscale
    hk = rng.choice(['full', 'full', 'rankdef', 'zerorow', 'select'])
    H = _randn(rng, m, n)
    if hk == 'rankdef' and m > 1:
        H[-1] = H[0] * rng.choice([1.0, -2.0, 0.5])
    elif hk == 'zerorow':
        H[rng.randrange(m)] = 0.0
    elif hk == 'select':
        H = np.zeros((m, n))
        for i in range(m):
            H[i, rng.randrange(n)] = 1.0
    # block partition of the observations; R is block diagonal with SPD blocks
    sizes = []
    left = m
    while left:
        s = rng.randint(1, left)
        sizes.append(s)
        left -= s
    if len(sizes) > 3:
        sizes = sizes[:2] + [sum(sizes[2:])]
    rel = 10 ** rng.uniform(-8, 8)
    scale = pscale * rel
    R = np.zeros((m, m))
    o = 0
    for s in sizes:
        R[o:o + s, o:o + s] = scale * _sym_from_eigs(rng, [10 ** rng.uniform(-1, 1) for _ in range(s)])
        o += s
    sd = math.sqrt(pscale)
    x = _randn(rng, n) * sd * 10 ** rng.uniform(-2, 2)
    z = _randn(rng, m) * sd * 10 ** rng.uniform(-2, 2)
    return dict(idx=idx, n=n, m=m, pkind=pk, hkind=hk, sizes=sizes, order=rng.choice(['C', 'F']),
                pscale=pscale, rscale_rel=rel,
                x=x, P=P, z=z, H=H, R=R)


# ---------------------------------------------------------------------------
# exact rational oracle (independent: Gauss-Jordan on Fractions)

def _fm(a):
    a = np.asarray(a, dtype=float)
    if a.ndim == 1:
        return [[Fraction(float(v))] for v in a]
    return [[Fraction(float(v)) for v in row] for row in a]


def _mm(a, b):
    return [[sum((a[i][k] * b[k][j] for k in range(len(b))), Fraction(0)) for j in range(len(b[0]))]
            for i in range(len(a))]


def _tr(a):
    return [list(r) for r in zip(*a)]


def _add(a, b, s=1):
    return [[x + s * y for x, y in zip(r, q)] for r, q in zip(a, b)]


def _solve(a, b):
    """a^-1 b by Gauss-Jordan elimination, exact; None if singular."""
    n = len(a)
    M = [list(a[i]) + list(b[i]) for i in range(n)]
    for c in range(n):
        p = next((r for r in range(c, n) if M[r][c] != 0), None)
        if p is None:
            return None
        M[c], M[p] = M[p], M[c]
        piv = M[c][c]
        M[c] = [v / piv for v in M[c]]
        for r in range(n):
            if r != c and M[r][c] != 0:
                f = M[r][c]
                M[r] = [v - f * w for v, w in zip(M[r], M[c])]
    return [row[n:] for row in M]


def exact_posterior(x, P, z, H, R):
    """(mean, cov, e^T S^-1 e) of the conditional Gaussian, in Fractions."""
    x, P, z, H, R = _fm(x), _fm(P), _fm(z), _fm(H), _fm(R)
    HP = _mm(H, P)
    S = _add(_mm(HP, _tr(H)), R)
    e = _add(z, _mm(H, x), -1)
    SiHP = _solve(S, HP)             # S^-1 H P
    Sie = _solve(S, e)
    if SiHP is None or Sie is None:
        return None
    K = _tr(SiHP)                    # P H^T S^-1   (P, S symmetric)
    mean = _add(x, _mm(_tr(HP), Sie))
    cov = _add(P, _mm(K, HP), -1)
    n = len(P)
    KH = _mm(K, H)
    U = [[(1 if i == j else 0) - KH[i][j] for j in range(n)] for i in range(n)]
    return mean, cov, _mm(_tr(e), Sie)[0][0], K, U


def _fl(a):
    return np.array([[float(v) for v in r] for r in a])


# ---------------------------------------------------------------------------
# the property's statements on the implementation

def _norm(a):
    a = np.asarray(a, dtype=float)
    return float(np.linalg.norm(a, 2)) if a.ndim == 2 else float(np.linalg.norm(a))


def _scales(x, P, z, H, R):
    """first-order rounding bounds for one call of correct (absolute)."""
    n, m = len(x), len(z)
    S = H @ P @ H.T + R
    S = (S + S.T) / 2
    cS = float(np.linalg.cond(S))
    K = np.linalg.solve(S, H @ P).T
    nP, nH, nR, nK = _norm(P), _norm(H), _norm(R), _norm(K)
    e = z - H @ x
    ne = _norm(e)
    dim = n + m
    smin_S = max(float(np.linalg.eigvalsh(S)[0]), 1e-300)
    # error of K = (S^-1 H P)^T: rounding of H P and of S (absolute), and of the Cholesky solve (relative cond S)
    dK = EPS * dim * ((nH * nP + (nH * nH * nP + nR) * nK) / smin_S + cS * nK)
    joseph = (1 + nK * nH) ** 2 * nP + nK ** 2 * nR
    b_cov = EPS * dim * joseph + 2 * dK * (nH * nP * (1 + nK * nH) + nR * nK) + dK * dK * (nH * nH * nP + nR)
    b_mean = dK * ne + EPS * dim * (_norm(x) + nK * (ne + nH * _norm(x) + _norm(z)))
    L = np.linalg.cholesky(S)
    nu = np.linalg.solve(L, e)
    smin = max(float(np.linalg.svd(L, compute_uv=False)[-1]), 1e-300)
    d_e = EPS * dim * (nH * _norm(x) + _norm(z))                    # rounding of e = z - H x
    rho = EPS * dim * (nH * nH * nP + nR) / max(_norm(S), 1e-300)    # relative rounding of S
    b_nu = d_e / smin + (cS * rho + EPS * dim * math.sqrt(cS)) * _norm(nu)
    return dict(S=S, condS=cS, K=K, e=e, L=L, nu=nu, b_cov=b_cov + 1e-300, b_mean=b_mean + 1e-300,
                b_nu=b_nu + 1e-300, amp=(1 + nK * nH))


def _joseph_bound(P, H, R, S, K, U):
    """componentwise first-order rounding bound of U P U^T + K R K^T as the code evaluates it (K, U exact)."""
    n, m = P.shape[0], R.shape[0]
    dim = n + m
    aP, aH, aR, aK, aU = np.abs(P), np.abs(H), np.abs(R), np.abs(K), np.abs(U)
    Sinv = np.abs(np.linalg.inv(S))
    dHP = EPS * dim * (aH @ aP)
    dS = EPS * dim * (aH @ aP @ aH.T + aR)
    dKt = Sinv @ (dHP + 3.0 * dS @ aK.T) + EPS * dim * aK.T
    dK = dKt.T
    dU = dK @ aH + EPS * dim * (aK @ aH + np.eye(n))
    Ua, Ka = aU + dU, aK + dK
    B = dU @ aP @ Ua.T + Ua @ aP @ dU.T + dK @ aR @ Ka.T + Ka @ aR @ dK.T \
        + 2.0 * EPS * dim * (Ua @ aP @ Ua.T + Ka @ aR @ Ka.T)
    return B + 1e-300


def _arr(c, k):
    return np.array(c[k], dtype=float, order=c.get('order', 'C'))


def check_case(c, exact=None, verbose=False, stats=None):
    """returns (fails, worst) : list of (what, detail dict) and the worst error/tolerance ratio."""
    from pyins import kalman
    fails = []
    worst = [0.0]

    def cmp(what, err, bound, **kw):
        tol = MARGIN * bound
        ratio = err / tol if tol > 0 else (0.0 if err == 0 else math.inf)
        worst[0] = max(worst[0], ratio)
        if stats is not None:
            k = what.split(' (')[0] + (': ' + what.split('): ')[-1] if what.startswith('call sequence') else '')
            stats[k] = max(stats.get(k, 0.0), ratio if math.isfinite(ratio) else 1e300)
        if verbose:
            print(f"  {what}: error {err:.3e}  tolerance {tol:.3e}")
        if not err <= tol:
            fails.append((what, dict(error=err, tolerance=tol, **kw)))

    args = [_arr(c, k) for k in 'xPzHR']
    x, P, z, H, R = args
    n, m = len(x), len(z)
    if c.get('ints'):                # same values, integer dtype (the reference uses the float copies)
        args = [np.array(a, dtype=np.int64, order=c.get('order', 'C')) for a in args]
    snap = [a.tobytes() for a in args]
    try:
        xp, Pp, nu = kalman.correct(*args)
    except Exception as ex:          # the property promises a result for every valid input
        return [("correct raised " + type(ex).__name__ + ": " + str(ex)[:200], {})], math.inf
    for name, a, s in zip('xPzHR', args, snap):
        if a.tobytes() != s:
            fails.append((f"input {name} was modified by correct", dict(order=c.get('order', 'C'))))
    xp, Pp, nu = np.asarray(xp, float), np.asarray(Pp, float), np.asarray(nu, float)
    if xp.shape != (n,) or Pp.shape != (n, n) or nu.shape != (m,):
        return fails + [("output shapes", dict(shapes=[xp.shape, Pp.shape, nu.shape]))], math.inf
    if not (np.isfinite(xp).all() and np.isfinite(Pp).all() and np.isfinite(nu).all()):
        return fails + [("non-finite output", {})], math.inf
    sc = _scales(x, P, z, H, R)
    # (1) conditional mean / covariance
    use_exact = (n <= c.get('exact_nmax', 4) and m <= 4) if exact is None else exact
    ref = exact_posterior(x, P, z, H, R) if use_exact else None
    if ref is not None:
        mean_ref, cov_ref, q_ref = _fl(ref[0])[:, 0], _fl(ref[1]), float(ref[2])
        oracle = 'exact rational'
    else:
        mean_ref = x + sc['K'] @ sc['e']
        cov_ref = P - sc['K'] @ H @ P
        cov_ref = (cov_ref + cov_ref.T) / 2
        q_ref = float(sc['e'] @ np.linalg.solve(sc['S'], sc['e']))
        oracle = 'numpy'
    slack = 1.0 if ref is not None else 2.0      # the float reference has its own rounding
    cmp(f"posterior mean != conditional mean ({oracle})", float(np.abs(xp - mean_ref).max()),
        slack * sc['b_mean'])
    cmp(f"posterior covariance != conditional covariance ({oracle})", float(np.abs(Pp - cov_ref).max()),
        slack * sc['b_cov'])
    if ref is not None:
        # entry by entry, against the rounding of the Joseph form itself (NOT against eps |P|): an entry of the
        # exact posterior that is far below eps |P| (accurate sensor on a state with a huge prior variance) must
        # still be returned to its own relative accuracy
        B = _joseph_bound(P, H, R, sc['S'], _fl(ref[3]), _fl(ref[4]))
        cmp("posterior covariance != conditional covariance entry by entry (exact rational), in units of the "
            "componentwise rounding bound of the Joseph form", float((np.abs(Pp - cov_ref) / B).max()), 1.0)
        dd = np.sqrt(np.clip(np.diag(cov_ref), 0.0, None))
        idx = [i for i in range(n) if dd[i] > 0]
        if idx:
            sub = np.ix_(idx, idx)
            sc_ = np.outer(dd[idx], dd[idx])
            Ms = ((Pp + Pp.T) / 2)[sub] / sc_
            cmp("posterior covariance not positive semidefinite relative to the exact posterior variances",
                max(0.0, -float(np.linalg.eigvalsh(Ms)[0])), len(idx) * float((B[sub] / sc_).max()))
    # (2) symmetric, PSD, <= prior
    cmp("posterior covariance not symmetric", float(np.abs(Pp - Pp.T).max()), sc['b_cov'])
    Ps = (Pp + Pp.T) / 2
    cmp("posterior covariance not positive semidefinite", max(0.0, -float(np.linalg.eigvalsh(Ps)[0])),
        sc['b_cov'])
    Pd = (P + P.T) / 2 - Ps
    cmp("posterior covariance larger than the prior", max(0.0, -float(np.linalg.eigvalsh(Pd)[0])),
        sc['b_cov'])
    # (3) information form (only where P and R are safely invertible)
    cP = float(np.linalg.cond(P)) if n and np.linalg.matrix_rank(P) == n else math.inf
    cR = float(np.linalg.cond(R))
    if cP < 1e4 and cR < 1e4:
        info = np.linalg.inv(P) + H.T @ np.linalg.solve(R, H)
        resid = Pp @ info - np.eye(n)
        cmp("posterior covariance != (P^-1 + H^T R^-1 H)^-1", float(np.abs(resid).max()),
            (sc['b_cov'] + EPS * (n + m) * _norm(Pp)) * _norm(info) * cP * cR)
    # (4) whitening
    cmp("innovation != solve(L, z - H x) with L the lower Cholesky factor of S",
        float(np.abs(nu - sc['nu']).max()), sc['b_nu'])
    cmp("innovation^T innovation != e^T S^-1 e (" + oracle + ")", abs(float(nu @ nu) - q_ref),
        2 * sc['b_nu'] * (_norm(nu) + _norm(sc['nu'])) + EPS * m * abs(q_ref))
    # (5) independent blocks in every order == joint
    sizes = c.get('sizes') or [m]
    if len(sizes) > 1:
        offs = np.cumsum([0] + list(sizes))
        blocks = [(int(offs[i]), int(offs[i + 1])) for i in range(len(sizes))]
        offdiag = R.copy()
        for a, b in blocks:
            offdiag[a:b, a:b] = 0
        if not offdiag.any():
            for perm in itertools.permutations(range(len(blocks))):
                xs, Ps_ = x.copy(), P.copy()
                bound_c, bound_m, ok = 0.0, 0.0, True
                for bi in perm:
                    a, b = blocks[bi]
                    zi, Hi, Ri = z[a:b].copy(), np.array(H[a:b], order=c.get('order', 'C')), \
                        np.array(R[a:b, a:b], order=c.get('order', 'C'))
                    try:
                        s_i = _scales(xs, (Ps_ + Ps_.T) / 2, zi, Hi, Ri)
                    except np.linalg.LinAlgError:
                        fails.append((f"block order {perm}: the covariance returned for the previous block makes "
                                      "H P H^T + R indefinite (it is not positive semidefinite)", {}))
                        ok = False
                        break
                    try:
                        xs, Ps_, _ = kalman.correct(xs, Ps_, zi, Hi, Ri)
                    except Exception as ex:
                        fails.append((f"correct raised {type(ex).__name__} on block order {perm}", {}))
                        ok = False
                        break
                    # errors made so far are propagated by (1 + |K||H|)^2 at most
                    bound_c = bound_c * s_i['amp'] ** 2 + s_i['b_cov']
                    bound_m = bound_m * s_i['amp'] + s_i['b_mean'] + bound_c * _norm(Hi) * \
                        _norm(zi - Hi @ xs) / max(float(np.linalg.eigvalsh(s_i['S'])[0]), 1e-300)
                if ok:
                    cmp(f"sequential covariance (block order {perm}) != joint",
                        float(np.abs(Ps_ - cov_ref).max()), bound_c + sc['b_cov'], order=list(perm))
                    cmp(f"sequential mean (block order {perm}) != joint",
                        float(np.abs(xs - mean_ref).max()), bound_m + sc['b_mean'], order=list(perm))
    # (6) calls in a row on the SAME buffers, mutated in place in between: the result depends only on the
    #     current argument values
    if c.get('seq'):
        bufs = [np.array(a, dtype=float, order=c.get('order', 'C')) for a in (x, P, z, H, R)]
        try:
            kalman.correct(*bufs)
            for k, op in enumerate(c['seq']):
                xb, Pb, zb, Hb, Rb = bufs
                if op == 'scalePR':
                    Pb *= 4.0
                    Rb *= 4.0
                elif op == 'newz':
                    zb += (1.0 + np.arange(len(zb))) * (1.0 + float(np.abs(zb).max()))
                elif op == 'x0':
                    xb[:] = 0.0
                elif op == 'negH':
                    Hb *= -1.0
                elif op == 'scaleR':
                    Rb *= 0.25
                o2 = kalman.correct(*bufs)
                s2 = _scales(*bufs)
                mref = xb + s2['K'] @ s2['e']
                cref = Pb - s2['K'] @ Hb @ Pb
                lab = f"call sequence (buffers updated in place: {'+'.join(c['seq'][:k + 1])}): "
                cmp(lab + "posterior mean != conditional mean of the current arguments",
                    float(np.abs(np.asarray(o2[0], float) - mref).max()), 2 * s2['b_mean'])
                cmp(lab + "posterior covariance != conditional covariance of the current arguments",
                    float(np.abs(np.asarray(o2[1], float) - (cref + cref.T) / 2).max()), 2 * s2['b_cov'])
                cmp(lab + "innovation != whitened residual of the current arguments",
                    float(np.abs(np.asarray(o2[2], float) - s2['nu']).max()), s2['b_nu'])
        except Exception as ex:
            fails.append((f"call sequence {c['seq']}: correct raised {type(ex).__name__}: {str(ex)[:160]}", {}))
    return fails, worst[0]


# ---------------------------------------------------------------------------

def _hexcase(c):
    out = {k: c[k] for k in ('idx', 'n', 'm', 'pkind', 'hkind', 'sizes', 'order', 'pscale', 'rscale_rel', 'exact_nmax', 'ints', 'seq') if k in c}
    for k in 'xPzHR':
        a = np.asarray(c[k], dtype=float)
        out[k] = [float(v).hex() for v in a.ravel()]
        out[k + '_shape'] = list(a.shape)
    return out


def _unhex(o):
    c = dict(o)
    for k in 'xPzHR':
        c[k] = np.array([float.fromhex(v) for v in o[k]]).reshape(o[k + '_shape'])
    return c


def numeric_statements(r, count, seed_off, small_frac=0.45, exact_nmax=4):
    rng = random.Random(r.seed * 1000003 + seed_off)
    fails, worst = [], 0.0
    dist, stats = {}, {}
    for i in range(count):
        c = make_case(rng, small=(rng.random() < small_frac), idx=i)
        c['exact_nmax'] = exact_nmax
        f, w = check_case(c, stats=stats)
        worst = max(worst, w) if math.isfinite(w) else worst
        key = (c['n'], c['m'], c['pkind'], c['hkind'], tuple(c['sizes']), c['order'], i)
        r.case(key, sample=dict(n=c['n'], m=c['m'], P=c['pkind'], H=c['hkind'], blocks=c['sizes'],
                                order=c['order']))
        for k in (f"n={c['n']}", f"m={c['m']}", 'P:' + c['pkind'], 'H:' + c['hkind'],
                  f"Pscale=1e{int(math.floor(math.log10(c['pscale']) / 4) * 4)}..",
                  f"R/P=1e{int(math.floor(math.log10(c['rscale_rel']) / 4) * 4)}..",
                  f"blocks={len(c['sizes'])}", 'order:' + c['order']):
            dist[k] = dist.get(k, 0) + 1
        for what, det in f:
            fails.append((what, dict(key='C07-numeric', case=_hexcase(c), detail=det)))
    dist['_worst_ratio_by_statement'] = {k: float(f'{v:.3g}') for k, v in sorted(stats.items())}
    return fails, worst, dist


def check(r):
    import gen_mx
    r.trusted += [
        "translator tools/gen_mx.py (matrix-granularity symbolic tracing of kalman.correct; validated every run "
        "by an independent numpy interpreter of the IR against the real function, 60 inputs, 1e-9)",
        "written specifications of scipy.linalg.cho_solve / solve_triangular (Spec/LibSpecsMx.v) and the hypothesis "
        "cholesky_factor on scipy.linalg.cholesky(lower=True) (visible in every theorem)",
        "binary64 rounding not modelled: theorems are over an arbitrary real field",
    ]
    r.assumptions += [
        "inputs-unmodified is enforced by the translator (overwrite_* on an argument buffer / in-place operations "
        "are rejected) and checked by byte snapshots on the implementation, not stated in Coq",
        "sequential == joint is proved for two blocks in both orders (arbitrary block sizes, singular P allowed); "
        "more blocks follow by iterating the theorem (numerically checked for up to 3 blocks, all orders)",
    ]
    ok = gen_mx.run_generate(r, ['Kalman'])
    gen_mx.prove_or_undischarged(r, ok, 'Props/C07.v')     # never proves against a stale Gen file
    n = 600 if r.tier == "quick" else 30000
    fails, worst, dist = numeric_statements(r, n, 7, exact_nmax=4 if r.tier == "quick" else 8)
    r.coverage['distribution'] = dist
    r.coverage['numeric_support'] = dict(cases=n, failures=len(fails), margin=MARGIN,
                                         worst_error_over_tolerance=worst)
    r.log(f"numeric support: {n} cases, {len(fails)} failures, worst error/tolerance {worst:.2e}")
    for what, rep in fails[:5]:
        r.violation(what, rep)
    if r.tier == 'thorough' and ok:
        r.coqchk('Props/C07.v')
        r.hygiene('Props/C07.v')


def falsify(r):
    fails, worst, _ = numeric_statements(r, 1500, 77, small_frac=0.6)
    r.log(f"falsifier: {len(fails)} failing checks, worst error/tolerance {worst:.2e}")
    seen = set()
    for what, rep in fails:
        k = what.split('(')[0]
        if k in seen:
            continue
        seen.add(k)
        r.violation(what, rep)
        if len(seen) >= 5:
            break


def replay(obj):
    rep = obj.get('replay', obj)
    c = _unhex(rep['case'])
    print(f"C07 replay: n={c['n']} m={c['m']} P:{c.get('pkind')} H:{c.get('hkind')} blocks={c.get('sizes')} "
          f"order={c.get('order')}")
    from pyins import kalman
    args = [_arr(c, k) for k in 'xPzHR']
    try:
        out = kalman.correct(*args)
        print("implementation: x+ =", np.asarray(out[0]), "\nP+ =\n", np.asarray(out[1]),
              "\ninnovation =", np.asarray(out[2]))
    except Exception as ex:
        print("implementation raised", type(ex).__name__, ex)
    ref = exact_posterior(*[c[k] for k in 'xPzHR']) if c['n'] <= 6 and c['m'] <= 4 else None
    if ref is not None:
        print("exact conditional mean =", _fl(ref[0])[:, 0], "\nexact conditional covariance =\n", _fl(ref[1]))
    fails, worst = check_case(c, verbose=True)
    for what, det in fails:
        print("FAILS:", what, det)
    print("still failing" if fails else "passes now")
    return 1 if fails else 0
