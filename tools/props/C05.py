"""C05 — error-state coordinates, correction and output transforms agree.

Tie: translator (error_model.transform_to_output / _transform_3d_2d / TRANSFORM_2D_3D / transform_to_internal
with np.linalg.inv as a primitive / correct_pva, sim.perturb_pva, transform.compute_state_difference on
Series) -> Gen/ErrState.v; theorems in Props/C05.v (Proofs/ErrStateProofs.v).

Numerical statement checks on the implementation run as support and as the falsifier:
  left-inverse     |transform_to_internal(pva) @ transform_to_output(pva) - I| (both modes)
  rows-2d          rows `down`, `VD` of the 2D output transform are exactly 0
  keep-alt-vd      correct_pva in 2D returns alt and VD bit-exact
  order            || state_diff(pva, correct_pva(pva, s x)) - T s x ||  falls >= 1.8 orders per decade of s
  restore          state_diff(correct_pva(perturb_pva(pva, s e), T_int s e), pva) falls >= 1.8 orders per decade
Margins are >= 100x above rounding (floors below which a block is not judged).
"""
import math
import random
import numpy as np
import pandas as pd

RULE = ("translator: every traced function validated on 60 random inputs per run (irrun vs the real function); "
        "numeric support: random pva with |lat| <= 85, |pitch| <= 85, any roll/heading in (-180,180), "
        "|V| <= 300 m/s, both altitude modes, random error directions; a case is distinct by its rounded pva + mode")

COLS = ['lat', 'lon', 'alt', 'VN', 'VE', 'VD', 'roll', 'pitch', 'heading']
ERR = ['north', 'east', 'down', 'VN', 'VE', 'VD', 'roll', 'pitch', 'heading']
# rounding floors per block (position m, velocity m/s, attitude deg): residuals below 100x these are not judged
FLOOR = np.array([1e-8] * 3 + [1e-11] * 3 + [1e-11] * 3)
SCALES = [1.0, 1e-1, 1e-2, 1e-3]
MIN_SLOPE = 1.8


def rand_pva(rng):
    special = rng.random() < 0.25
    lat = rng.choice([-85.0, 85.0, 0.0]) if special else rng.uniform(-85, 85)
    pitch = rng.choice([-85.0, 85.0, 0.0]) if special else rng.uniform(-85, 85)
    return [lat, rng.uniform(-180, 180), rng.uniform(-500, 20000),
            rng.uniform(-300, 300), rng.uniform(-300, 300), rng.uniform(-30, 30),
            rng.uniform(-179.9, 179.9), pitch, rng.uniform(-179.9, 179.9)]


def rand_x(rng, n):
    u = [rng.uniform(-1, 1) for _ in range(n)]
    npos = 3 if n == 9 else 2
    s = [1000.0] * npos + [10.0] * npos + [0.002] * 3   # m, m/s, rad at scale 1
    return [a * b for a, b in zip(u, s)]


def rand_e(rng, with_altitude):
    e = [rng.uniform(-1000, 1000) for _ in range(3)] + [rng.uniform(-10, 10) for _ in range(3)] + \
        [rng.uniform(-0.1, 0.1) for _ in range(3)]
    if not with_altitude:
        e[2] = 0.0
        e[5] = 0.0
    return e


def _slopes(res):
    """res: list over SCALES of 9-vectors of |residual|.  Returns list of (block, i, slope) that fail."""
    bad = []
    res = np.array(res)
    for b, sl in enumerate((slice(0, 3), slice(3, 6), slice(6, 9))):
        for i in range(len(SCALES) - 1):
            hi = res[i, sl].max()
            lo = res[i + 1, sl].max()
            fl = 100 * FLOOR[sl].max()
            if hi < fl or lo < fl:
                continue
            slope = math.log10(hi / lo) / math.log10(SCALES[i] / SCALES[i + 1])
            if slope < MIN_SLOPE:
                bad.append((b, i, slope))
    return bad


def eval_case(kind, p):
    """Evaluate one statement on the implementation.  Returns (ok, detail dict)."""
    from pyins import transform, sim
    from pyins.error_model import InsErrorModel
    pva = pd.Series(p['pva'], index=COLS, dtype=float)
    em = InsErrorModel(p['with_altitude'])
    n = em.n_states
    if kind == 'left-inverse':
        m = em.transform_to_internal(pva) @ em.transform_to_output(pva)
        err = float(np.abs(m - np.eye(n)).max())
        return err <= 1e-8 and m.shape == (n, n), dict(max_dev=err, shape=list(m.shape))
    if kind == 'rows-2d':
        T = em.transform_to_output(pva)
        rows = T[[2, 5], :]
        return bool(np.all(rows == 0.0)) and T.shape == (9, n), dict(rows=rows.tolist())
    if kind == 'keep-alt-vd':
        c = em.correct_pva(pva, np.array(p['x']))
        ok = (c.alt == pva.alt) and (c.VD == pva.VD)
        return bool(ok), dict(alt=[float(pva.alt), float(c.alt)], VD=[float(pva.VD), float(c.VD)])
    if kind == 'order':
        T = em.transform_to_output(pva)
        x0 = np.array(p['x'])
        res = []
        for s in SCALES:
            c = em.correct_pva(pva, s * x0)
            d = transform.compute_state_difference(pva, c)
            if list(d.index) != ERR:
                return False, dict(index=list(d.index))
            res.append(np.abs(d.values.astype(float) - T @ (s * x0)))
        bad = _slopes(res)
        return not bad, dict(slopes_failed=bad, residuals=[list(map(float, r)) for r in res])
    if kind == 'restore':
        e0 = np.array(p['e'])
        res = []
        for s in SCALES:
            e = pd.Series(s * e0, index=ERR)
            pp = sim.perturb_pva(pva, e)
            x = em.transform_to_internal(pp) @ e.values
            c = em.correct_pva(pp, x)
            d = transform.compute_state_difference(c, pva)
            res.append(np.abs(d.values.astype(float)))
        bad = _slopes(res)
        return (not bad), dict(slopes_failed=bad, residuals=[list(map(float, r)) for r in res])
    raise ValueError(kind)


def numeric_statements(r, n, seed_shift=5):
    rng = random.Random(r.seed + seed_shift)
    fails = []
    dist = dict(cases=0, with_altitude=0, no_altitude=0, special_lat_pitch=0)
    for i in range(n):
        pva = rand_pva(rng)
        wa = (i % 2 == 0)
        nst = 9 if wa else 7
        p = dict(pva=pva, with_altitude=wa, x=rand_x(rng, nst), e=rand_e(rng, wa))
        dist['cases'] += 1
        dist['with_altitude' if wa else 'no_altitude'] += 1
        if abs(pva[0]) == 85.0 or abs(pva[7]) == 85.0:
            dist['special_lat_pitch'] += 1
        r.case(("pva", wa) + tuple(round(v, 6) for v in pva), sample=dict(p))
        kinds = ['left-inverse', 'order', 'restore'] + ([] if wa else ['rows-2d', 'keep-alt-vd'])
        for kind in kinds:
            try:
                ok, det = eval_case(kind, p)
            except Exception as ex:          # the implementation crashed on a domain input
                ok, det = False, dict(exception=repr(ex))
            if not ok:
                fails.append((f"C05 {kind} fails on the implementation", dict(kind=kind, params=p, detail=det)))
    r.coverage.setdefault('distribution', {}).update(dist)
    return fails


def check(r):
    r.trusted += [
        "translator tools/sym.py + tools/ir2coq.py + tools/reg/errstate.py (symbolic tracing of error_model.py, "
        "sim.perturb_pva, transform.compute_state_difference on Series)",
        "scipy Rotation.from_rotvec read as the Rodrigues formula rotvec_mij, Rotation.as_euler('xyz') as euler_* "
        "(atan2 form), Rotation.from_euler('xyz') as Rz Ry Rx (Spec/LibSpecs.v; validated numerically each run)",
        "np.linalg.inv enters as a primitive: any matrix inv with inv * T_out3d = I (hypothesis of the theorems); "
        "the translator checks that its argument is T_out3d and that its result is used as traced",
        "pandas masked assignment in util.to_180_range on a Series traced on a one-element Series (wrap180)",
        "binary64 rounding not modelled: theorems over the reals, pi/180 read as PI/180",
    ]
    r.assumptions += [
        "C05(b) is proved as differentiability at 0 with derivative T_out x (first-order agreement, o(|x|) "
        "remainder); the second-order size of the remainder is supported numerically (slope >= 1.8 per decade)",
        "attitude statements assume roll, heading in the open interval (-180, 180) and |pitch| < 90 "
        "(heading = +-180 exactly is on the branch cut of as_euler and is excluded)",
        "position rows assume alt >= -1000 km (denominators Rn + alt > 0) and |lat| < 90",
        "C05(c) perturb-then-correct is stated for e = T_out y (equivalently y = T_inv e) with T evaluated at the "
        "unperturbed state; the implementation check uses transform_to_internal at the perturbed state",
    ]
    r.generate(['Util', 'Transform', 'ErrState'])
    r.prove('Props/C05.v')
    n = 120 if r.tier == 'quick' else 4000
    fails = numeric_statements(r, n)
    r.coverage['numeric_support'] = dict(pva=n, failures=len(fails))
    for what, rep in fails[:5]:
        r.violation(what, rep)
    if r.tier == 'thorough':
        r.hygiene()


def falsify(r):
    fails = numeric_statements(r, 1500, seed_shift=505)
    for what, rep in fails[:5]:
        r.violation(what, rep)


def replay(obj):
    rep = obj.get('replay', obj)
    if 'kind' not in rep:
        print("no concrete input recorded:", obj.get('broken', obj))
        return 0
    ok, det = eval_case(rep['kind'], rep['params'])
    print("statement:", rep['kind'])
    print("input    :", rep['params'])
    print("recorded :", rep.get('detail'))
    print("now      :", det)
    print("HOLDS" if ok else "STILL FAILS")
    return 0 if ok else 1
