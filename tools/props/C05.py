"""C05 — error-state coordinates, correction and output transforms agree.

Tie: translator (error_model.transform_to_output / _transform_3d_2d / TRANSFORM_2D_3D / transform_to_internal
with np.linalg.inv as a primitive / correct_pva, sim.perturb_pva, transform.compute_state_difference on
Series) -> Gen/ErrState.v; theorems in Props/C05.v (Proofs/ErrStateProofs.v).

Numerical statement checks on the implementation run as support and as the falsifier:
  left-inverse     |transform_to_internal(pva) @ transform_to_output(pva) - I| (both modes)
  rows-2d          rows `down`, `VD` of the 2D output transform are exactly 0
  keep-alt-vd      correct_pva in 2D returns alt and VD bit-exact
  order            || state_diff(pva, correct_pva(pva, s x)) - T s x ||  falls >= 1.8 orders per decade of s
  restore          state_diff(correct_pva(perturb_pva(pva, s e), T_int s e), pva) falls >= 1.8 orders per decade
  frames           the same first-order statement on time-indexed DataFrames in both operand orders (dense - sparse
                   and sparse - dense): +-T x for all nine columns
  flags            with_altitude passed as bool, numpy.bool_ and 0/1 (same mode, same number of states)
  both also on states whose roll / heading lies within a few error magnitudes of +-180 deg, with errors that carry
  the angle across the cut in either direction, on positions at the +-180 deg meridian, and with a first-order bound
  evaluated over 8 decades of magnitude, down to phi ~ 2e-10 rad / 1e-4 m / 1e-6 m/s (residual <= 1/4 of the applied
  error, per block and scale) so that a missing wrap (+-360 deg) at a single scale cannot hide
Margins are >= 100x above rounding (floors below which a block is not judged).
"""
import math
import random
import numpy as np
import pandas as pd

RULE = ("translator: every traced function validated on 60 random inputs per run (irrun vs the real function); "
        "numeric support: random pva with |lat| <= 85, |pitch| <= 85, any roll/heading in (-180,180), "
        "|V| <= 300 m/s, both altitude modes, random error directions; plus n/2 states with roll or heading within "
        "{0, 0.005, 0.05, 0.5, 2} error magnitudes of +180 / -180 deg and errors that cross / do not cross the cut; "
        "n/4 positions with longitude within the same fractions of an east error of the +-180 deg meridian "
        "(latitudes -85..85, crossing in both directions); a case is distinct by its rounded pva + mode")

COLS = ['lat', 'lon', 'alt', 'VN', 'VE', 'VD', 'roll', 'pitch', 'heading']
ERR = ['north', 'east', 'down', 'VN', 'VE', 'VD', 'roll', 'pitch', 'heading']
# rounding floors per block (position m, velocity m/s, attitude deg): residuals below 100x these are not judged
FLOOR = np.array([1e-8] * 3 + [1e-11] * 3 + [1e-11] * 3)
SCALES = [1.0, 1e-1, 1e-2, 1e-3]
MIN_SLOPE = 1.8


def rand_pva(rng):
    special = rng.random() < 0.25
    lat = rng.choice([-85.0, 85.0, 0.0]) if special else rng.uniform(-85, 85)
    pitch = rng.choice([-85.0, 85.0, 0.0]) if special else rng.uniform(-85, 85)
    return [lat, rng.uniform(-180, 180), rng.uniform(-500, 20000),
            rng.uniform(-300, 300), rng.uniform(-300, 300), rng.uniform(-30, 30),
            rng.uniform(-179.9, 179.9), pitch, rng.uniform(-179.9, 179.9)]


def rand_x(rng, n):
    u = [rng.uniform(-1, 1) for _ in range(n)]
    npos = 3 if n == 9 else 2
    s = [1000.0] * npos + [10.0] * npos + [0.002] * 3   # m, m/s, rad at scale 1
    if rng.random() < 0.2:                                # a pure attitude error: the V x phi term stands alone
        s = [0.0] * (2 * npos) + [0.002] * 3
    return [a * b for a, b in zip(u, s)]


def rand_e(rng, with_altitude):
    e = [rng.uniform(-1000, 1000) for _ in range(3)] + [rng.uniform(-10, 10) for _ in range(3)] + \
        [rng.uniform(-0.1, 0.1) for _ in range(3)]
    if rng.random() < 0.2:                                # a pure attitude error
        e = [0.0] * 6 + e[6:]
    if not with_altitude:
        e[2] = 0.0
        e[5] = 0.0
    return e


def _slopes(res):
    """res: list over SCALES of 9-vectors of |residual|.  Returns list of (block, i, slope) that fail."""
    bad = []
    res = np.array(res)
    for b, sl in enumerate((slice(0, 3), slice(3, 6), slice(6, 9))):
        for i in range(len(SCALES) - 1):
            hi = res[i, sl].max()
            lo = res[i + 1, sl].max()
            fl = 100 * FLOOR[sl].max()
            if hi < fl or lo < fl:
                continue
            slope = math.log10(hi / lo) / math.log10(SCALES[i] / SCALES[i + 1])
            if slope < MIN_SLOPE:
                bad.append((b, i, slope))
    return bad


# first-order (relative) test: also at very small magnitudes, down to |x| ~ 1e-10 (phi 2e-10 rad, 1e-4 m, 1e-6 m/s)
FINE_SCALES = [1e-4, 1e-5, 1e-6, 1e-7]
# rounding floors of the state difference itself, calibrated on the unchanged tree (900 states incl. the +-180 deg
# cases, worst observed: position 1.6e-9 m, velocity 8e-14 m/s at |v| <= 520, angles 3.4e-13 deg): >= 30x above it
FLOOR1 = np.array([1e-7] * 3 + [5e-12] * 3 + [2e-11] * 3)


def _first_order(res, bound, scales):
    """res[i], bound[i]: 9-vectors per scale.  The residual of every block must stay below a quarter of the
    (cancellation-free) first-order magnitude of that block, plus the rounding floor: a wrong wrap (+-360 deg),
    sign or row, or a first-order term that is dropped below some magnitude, shows here even when it occurs at a
    single scale only."""
    bad = []
    for i in range(len(scales)):
        for b, sl in enumerate((slice(0, 3), slice(3, 6), slice(6, 9))):
            lim = 0.25 * float(np.max(bound[i][sl])) + FLOOR1[sl].max()
            if float(np.max(res[i][sl])) > lim:
                bad.append((b, scales[i], float(np.max(res[i][sl])), lim))
    return bad


FLAG_FORMS = ('bool', 'numpy', 'int')


def flag(p):
    """with_altitude as a caller may pass it: Python bool, numpy.bool_ or 0/1 -- all mean the same mode."""
    wa = bool(p['with_altitude'])
    return {'bool': wa, 'numpy': np.bool_(wa), 'int': int(wa)}[p.get('flag_form', 'bool')]


def eval_case(kind, p):
    """Evaluate one statement on the implementation.  Returns (ok, detail dict)."""
    from pyins import transform, sim
    from pyins.error_model import InsErrorModel
    pva = pd.Series(p['pva'], index=COLS, dtype=float)
    em = InsErrorModel(flag(p))
    n = em.n_states
    if n != (9 if p['with_altitude'] else 7):
        return False, dict(n_states=n)
    if kind == 'left-inverse':
        m = em.transform_to_internal(pva) @ em.transform_to_output(pva)
        err = float(np.abs(m - np.eye(n)).max())
        return err <= 1e-8 and m.shape == (n, n), dict(max_dev=err, shape=list(m.shape))
    if kind == 'rows-2d':
        T = em.transform_to_output(pva)
        rows = T[[2, 5], :]
        return bool(np.all(rows == 0.0)) and T.shape == (9, n), dict(rows=rows.tolist())
    if kind == 'keep-alt-vd':
        c = em.correct_pva(pva, np.array(p['x']))
        ok = (c.alt == pva.alt) and (c.VD == pva.VD)
        return bool(ok), dict(alt=[float(pva.alt), float(c.alt)], VD=[float(pva.VD), float(c.VD)])
    if kind == 'order':
        T = em.transform_to_output(pva)
        x0 = np.array(p['x'])
        res, bound = [], []
        for s in SCALES + FINE_SCALES:
            c = em.correct_pva(pva, s * x0)
            d = transform.compute_state_difference(pva, c)
            if list(d.index) != ERR:
                return False, dict(index=list(d.index))
            res.append(np.abs(d.values.astype(float) - T @ (s * x0)))
            bound.append(np.abs(T) @ np.abs(s * x0))
        bad = _slopes(res[:len(SCALES)])
        bad1 = _first_order(res, bound, SCALES + FINE_SCALES)
        return not bad and not bad1, dict(slopes_failed=bad, first_order_failed=bad1,
                                          residuals=[list(map(float, r)) for r in res])
    if kind == 'restore':
        e0 = np.array(p['e'])
        res, bound = [], []
        T = np.abs(InsErrorModel(True).transform_to_output(pva))
        Ti = np.abs(np.linalg.inv(InsErrorModel(True).transform_to_output(pva)))
        for s in SCALES + FINE_SCALES:
            e = pd.Series(s * e0, index=ERR)
            pp = sim.perturb_pva(pva, e)
            x = em.transform_to_internal(pp) @ e.values
            c = em.correct_pva(pp, x)
            d = transform.compute_state_difference(c, pva)
            res.append(np.abs(d.values.astype(float)))
            bound.append(T @ (Ti @ np.abs(e.values)))       # cancellation-free size of the applied error
        bad = _slopes(res[:len(SCALES)])
        bad1 = _first_order(res, bound, SCALES + FINE_SCALES)
        return not bad and not bad1, dict(slopes_failed=bad, first_order_failed=bad1,
                                          residuals=[list(map(float, r)) for r in res])
    if kind == 'frames':
        # the same first-order statement on time-indexed frames, in both operand orders: a trajectory (sparse)
        # against the corrected trajectory given at a finer time step (dense); compute_state_difference
        # resamples the dense one and must return first - second whatever the order
        rows = [pd.Series(q, index=COLS, dtype=float) for q in p['rows']]
        xs = [np.array(v) * p['scale'] for v in p['xs']]
        times = [10.0 + k for k in range(len(rows))]
        sparse = pd.DataFrame([r_.values for r_ in rows], index=times, columns=COLS)
        corr = [em.correct_pva(r_, x_) for r_, x_ in zip(rows, xs)]
        dt, dr = [], []
        for k, c in enumerate(corr):
            dt.append(times[k]); dr.append(c.values)
            if k + 1 < len(corr):
                dt.append(times[k] + 0.5); dr.append(c.values)      # any in-between rows
        dense = pd.DataFrame(dr, index=dt, columns=COLS)
        Tx = np.array([em.transform_to_output(r_) @ x_ for r_, x_ in zip(rows, xs)])
        bound = np.array([np.abs(em.transform_to_output(r_)) @ np.abs(x_) for r_, x_ in zip(rows, xs)])
        out = {}
        for name, d, sign in (('sparse-dense', transform.compute_state_difference(sparse, dense), 1.0),
                              ('dense-sparse', transform.compute_state_difference(dense, sparse), -1.0)):
            if list(d.columns) != ERR or list(d.index) != times:
                return False, dict(order=name, columns=list(d.columns), index=list(d.index))
            res = np.abs(d.values.astype(float) - sign * Tx)
            bad = [(name, k, b, float(res[k][sl].max())) for k in range(len(rows))
                   for b, sl in enumerate((slice(0, 3), slice(3, 6), slice(6, 9)))
                   if float(res[k][sl].max()) > 0.25 * float(bound[k][sl].max()) + FLOOR1[sl].max()]
            if bad:
                return False, dict(failed=bad[:4], difference=d.values.tolist(), expected=(sign * Tx).tolist())
            out[name] = float(res.max())
        return True, out
    raise ValueError(kind)


def near_cut_case(rng, wa, k):
    """A state whose roll (k even) or heading (k odd) lies within a few error magnitudes of +-180 deg, with an
    error vector whose correction / perturbation carries that angle ACROSS the cut (both sides, both
    directions) at some of the scales, or stays just short of it."""
    from pyins.error_model import InsErrorModel
    nst = 9 if wa else 7
    pva = rand_pva(rng)
    x = rand_x(rng, nst)
    e = rand_e(rng, wa)
    idx = 6 if k % 2 == 0 else 8                 # roll / heading
    side = 1.0 if (k // 2) % 2 == 0 else -1.0    # near +180 / near -180
    cross = (k // 4) % 4 != 3                    # 3 of 4: cross the cut; 1 of 4: stay on the same side
    frac = [2.0, 0.5, 0.05, 0.005, 0.0][(k // 16) % 5]   # distance to the cut in units of the angle error at scale 1
    pva[idx] = side * 179.0
    T = InsErrorModel(wa).transform_to_output(pd.Series(pva, index=COLS, dtype=float))
    d = float((T @ np.array(x))[idx])            # the angle moves by -s*d under correct_pva(pva, s x)
    if d == 0.0:
        d = 1e-3
    # correct_pva moves the angle by -s*d: crossing at +180 needs d < 0, at -180 needs d > 0
    want_neg = (side > 0) == cross
    if (d < 0) != want_neg:
        x = [-v for v in x]
        d = -d
    # perturb_pva moves the angle by +s*e: crossing at +180 needs e > 0
    want_pos = (side > 0) == cross
    if (e[idx] > 0) != want_pos:
        e[idx] = -e[idx]
    delta = frac * max(abs(d), abs(e[idx]), 1e-6)
    pva[idx] = side * (180.0 - delta)
    return dict(pva=pva, with_altitude=wa, x=x, e=e), ('roll' if idx == 6 else 'heading', side, cross, frac)


def near_meridian_case(rng, wa, k):
    """A position whose longitude lies within a few error magnitudes of the +-180 deg meridian, with an east
    error whose correction / perturbation carries the point ACROSS the meridian (both sides, both directions)
    or stays just short of it.  Longitude is not an angle the library wraps: perturb_lla may return a longitude
    beyond +-180 and compute_state_difference differences longitudes as they are, consistently."""
    from pyins import earth
    nst = 9 if wa else 7
    pva = rand_pva(rng)
    if k % 5 == 0:
        pva[0] = [-85.0, -60.0, 0.0, 45.0, 85.0][(k // 5) % 5]
    x = rand_x(rng, nst)
    e = rand_e(rng, wa)
    side = 1.0 if k % 2 == 0 else -1.0
    cross = (k // 2) % 4 != 3
    frac = [2.0, 0.5, 0.05, 0.005, 0.0][(k // 8) % 5]
    _, _, rp = earth.principal_radii(pva[0], pva[2])
    # correct_pva moves the longitude by -s*x[1]/rp: crossing at +180 needs x[1] < 0
    if (x[1] < 0) != ((side > 0) == cross):
        x[1] = -x[1]
    # perturb_pva moves it by +s*e[1]/rp: crossing at +180 needs e[1] > 0
    if (e[1] > 0) != ((side > 0) == cross):
        e[1] = -e[1]
    delta = frac * math.degrees(max(abs(x[1]), abs(e[1]), 1e-3) / float(rp))
    pva[1] = side * (180.0 - delta)
    return dict(pva=pva, with_altitude=wa, x=x, e=e), ('longitude', side, cross, frac)


def numeric_statements(r, n, seed_shift=5, n_cut=None):
    rng = random.Random(r.seed + seed_shift)
    fails = []
    dist = dict(cases=0, with_altitude=0, no_altitude=0, special_lat_pitch=0, near_cut=0)
    n_cut = n // 2 if n_cut is None else n_cut
    # attitudes at the +-180 deg cut of roll / heading (order and restore statements only)
    for k in range(n_cut + n_cut // 2):
        wa = (rng.random() < 0.5)
        try:
            if k < n_cut:
                p, tag = near_cut_case(rng, wa, k)
                p['flag_form'] = FLAG_FORMS[k % 3]
            else:                                  # positions at the +-180 deg meridian
                p, tag = near_meridian_case(rng, wa, k - n_cut)
                dist['near_meridian'] = dist.get('near_meridian', 0) + 1
        except Exception as ex:
            fails.append(("C05: transform_to_output crashed on a domain input", dict(kind='crash', detail=repr(ex))))
            continue
        dist['near_cut'] += (1 if k < n_cut else 0)
        r.case(("cut", wa, k % 80) + tuple(round(v, 6) for v in p['pva']), sample=dict(p, near_cut=list(map(str, tag))))
        for kind in ('order', 'restore'):
            try:
                ok, det = eval_case(kind, p)
            except Exception as ex:
                ok, det = False, dict(exception=repr(ex))
            if not ok:
                fails.append((f"C05 {kind} fails on the implementation ({tag[0]} at +-180 deg)",
                              dict(kind=kind, params=p, detail=det, near_cut=list(map(str, tag)))))
    for i in range(n):
        pva = rand_pva(rng)
        wa = (i % 2 == 0)
        nst = 9 if wa else 7
        p = dict(pva=pva, with_altitude=wa, x=rand_x(rng, nst), e=rand_e(rng, wa), flag_form=FLAG_FORMS[(i // 2) % 3])
        dist['cases'] += 1
        dist['with_altitude' if wa else 'no_altitude'] += 1
        if abs(pva[0]) == 85.0 or abs(pva[7]) == 85.0:
            dist['special_lat_pitch'] += 1
        r.case(("pva", wa) + tuple(round(v, 6) for v in pva), sample=dict(p))
        if i % 6 == 0:
            # the frame form of the statement, both operand orders (dense - sparse and sparse - dense)
            q = dict(with_altitude=wa, flag_form=p['flag_form'], pva=pva, scale=[1.0, 1e-3, 1e-6][(i // 6) % 3],
                     rows=[pva] + [rand_pva(rng) for _ in range(3)], xs=[rand_x(rng, nst) for _ in range(4)])
            try:
                ok, det = eval_case('frames', q)
            except Exception as ex:
                ok, det = False, dict(exception=repr(ex))
            if not ok:
                fails.append(("C05 frames: state difference of trajectory frames is not +-T x on the implementation",
                              dict(kind='frames', params=q, detail=det)))
        kinds = ['left-inverse', 'order', 'restore'] + ([] if wa else ['rows-2d', 'keep-alt-vd'])
        for kind in kinds:
            try:
                ok, det = eval_case(kind, p)
            except Exception as ex:          # the implementation crashed on a domain input
                ok, det = False, dict(exception=repr(ex))
            if not ok:
                fails.append((f"C05 {kind} fails on the implementation", dict(kind=kind, params=p, detail=det)))
    r.coverage.setdefault('distribution', {}).update(dist)
    return fails


def check(r):
    r.trusted += [
        "translator tools/sym.py + tools/ir2coq.py + tools/reg/errstate.py (symbolic tracing of error_model.py, "
        "sim.perturb_pva, transform.compute_state_difference on Series)",
        "scipy Rotation.from_rotvec read as the Rodrigues formula rotvec_mij, Rotation.as_euler('xyz') as euler_* "
        "(atan2 form), Rotation.from_euler('xyz') as Rz Ry Rx (Spec/LibSpecs.v; validated numerically each run)",
        "np.linalg.inv enters as a primitive: any matrix inv with inv * T_out3d = I (hypothesis of the theorems); "
        "the translator checks that its argument is T_out3d and that its result is used as traced",
        "pandas masked assignment in util.to_180_range on a Series traced on a one-element Series (wrap180)",
        "binary64 rounding not modelled: theorems over the reals, pi/180 read as PI/180",
    ]
    r.assumptions += [
        "C05(b) is proved as differentiability at 0 with derivative T_out x (first-order agreement, o(|x|) "
        "remainder); the second-order size of the remainder is supported numerically (slope >= 1.8 per decade)",
        "attitude statements assume roll, heading in the open interval (-180, 180) and |pitch| < 90 "
        "(heading = +-180 exactly is on the branch cut of as_euler and is excluded)",
        "position rows assume alt >= -1000 km (denominators Rn + alt > 0) and |lat| < 90",
        "C05_state_diff_recovers_perturbation (the C18 clause) is proved for every E and every attitude: "
        "d/de|0 compute_state_difference(perturb_pva(pva, e E), pva) = E (|lat| < 90, alt >= -1000 km)",
        "C05(c) perturb-then-correct is stated for e = T_out y (equivalently y = T_inv e) with T evaluated at the "
        "unperturbed state; the implementation check uses transform_to_internal at the perturbed state",
    ]
    # the numerical statements do not depend on Gen/ErrState.v: they run whatever happens to the translator / proofs
    try:
        if r.generate(['Util', 'Transform', 'ErrState']):
            r.prove('Props/C05.v')
            if r.tier == 'thorough':
                r.hygiene('Props/C05.v')
                r.coqchk('Props/C05.v')
    except Exception as ex:
        r.broken('harness', 'translator/proof stage', repr(ex))
    n = 120 if r.tier == 'quick' else 4000
    fails = numeric_statements(r, n)
    r.coverage['numeric_support'] = dict(pva=n, near_cut=n // 2, near_meridian=n // 4, failures=len(fails))
    for what, rep in fails[:5]:
        r.violation(what, rep)


def falsify(r):
    """Independent of the translator and of Coq: a seeded search on the implementation only."""
    fails = numeric_statements(r, 1500, seed_shift=505, n_cut=1600)
    for what, rep in fails[:5]:
        r.violation(what, rep)


def replay(obj):
    rep = obj.get('replay', obj)
    if 'kind' not in rep:
        print("no concrete input recorded:", obj.get('broken', obj))
        return 0
    ok, det = eval_case(rep['kind'], rep['params'])
    print("statement:", rep['kind'])
    print("input    :", rep['params'])
    print("recorded :", rep.get('detail'))
    print("now      :", det)
    print("HOLDS" if ok else "STILL FAILS")
    return 0 if ok else 1
