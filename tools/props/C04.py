"""C04 — INS error model is the linearisation of strapdown error growth.

Tie: translator (InsErrorModel.system_matrices in both altitude modes, one step of propagate_errors' recursion,
_transform_3d_2d / TRANSFORM_2D_3D) -> Gen/C04Gen.v; theorems in Props/C04.v against the hub specification
Spec/NavODE.v (C01 ties the hub to the integrator kernel).

Numerical support / falsifier ON THE IMPLEMENTATION (independent of the proofs):
  (A) generator test: central finite differences of the real strapdown.Integrator over ONE kernel step, in the
      library's own error coordinates (the exact inverse of InsErrorModel.correct_pva), Richardson-extrapolated in the
      step size (dt, dt/2) -> measured generator G;  |G - F| <= documented neglected terms |N| (+ floor) block by
      block, and the same for constant gyro / accelerometer errors against B_gyro / B_accel;
  (B) filter-step test: the same finite differences over a filter step T in [0.1, 2] s (many IMU steps) against the
      transition produced by error_model.propagate_errors on the true trajectory, entrywise within a majorant of
      the second-order and neglected terms.
Tolerances scale with the neglected-terms matrix N of the theorem (closed form, transcribed below) and with
rounding floors >= 100x above what the unchanged tree produces.
"""
import math
import random
import numpy as np
import pandas as pd

RULE = ("translator: sysmat3d/sysmat2d/prop3d/prop2d/tr23/tr32 validated on random inputs per run; numeric support: "
        "random states |lat|<=80 deg (both hemispheres), speed <=300 m/s in any direction, alt 0..20 km, "
        "|pitch|<=80 deg, any roll/heading, random body rates <=0.5 rad/s and accelerations <=10 m/s^2, both altitude "
        "modes; all 9 (7) error directions and 6 sensor-error directions per state; filter steps 0.1..2 s; a case is "
        "distinct by (mode, rounded state)")

COLS = ['lat', 'lon', 'alt', 'VN', 'VE', 'VD', 'roll', 'pitch', 'heading']


# ---------------------------------------------------------------------------------------------
# the library's error coordinates: exact inverse of InsErrorModel(True).correct_pva

def _rot(phi):
    from scipy.spatial.transform import Rotation
    return Rotation.from_rotvec(phi).as_matrix()


def measure_error(pva_ins, pva_true):
    """x (9, internal 3D coordinates) such that InsErrorModel(True).correct_pva(pva_ins, x) == pva_true."""
    from pyins import earth, transform
    from scipy.spatial.transform import Rotation
    rn, _, rp = earth.principal_radii(pva_ins.lat, pva_ins.alt)
    dr = np.array([np.deg2rad(pva_ins.lat - pva_true.lat) * rn,
                   np.deg2rad(pva_ins.lon - pva_true.lon) * rp,
                   pva_true.alt - pva_ins.alt])
    C_ins = transform.mat_from_rph(pva_ins[['roll', 'pitch', 'heading']].values)
    C_true = transform.mat_from_rph(pva_true[['roll', 'pitch', 'heading']].values)
    phi = Rotation.from_matrix(C_true @ C_ins.T).as_rotvec()
    v_ins = pva_ins[['VN', 'VE', 'VD']].values.astype(float)
    v_true = pva_true[['VN', 'VE', 'VD']].values.astype(float)
    dv = v_ins - _rot(phi).T @ v_true
    return np.hstack([dr, dv, phi])


def make_ins(pva_true, x):
    """pva_ins with measure_error(pva_ins, pva_true) == x (position by a short fixed-point iteration)."""
    from pyins import transform
    x = np.asarray(x, dtype=float)
    R = _rot(x[6:9])
    C_true = transform.mat_from_rph(pva_true[['roll', 'pitch', 'heading']].values)
    rph = transform.mat_to_rph(R.T @ C_true)
    v = R.T @ pva_true[['VN', 'VE', 'VD']].values.astype(float) + x[3:6]
    lla_true = pva_true[['lat', 'lon', 'alt']].values.astype(float)
    lla = lla_true.copy()
    for _ in range(6):
        lla = lla + (lla_true - transform.perturb_lla(lla, -x[0:3]))
    return pd.Series(np.hstack([lla, v, rph]), index=COLS)


# ---------------------------------------------------------------------------------------------
# closed form of the neglected-terms matrix N of Proofs/C04Proofs.v (N00 ... N82)

def neglected_matrix(pva):
    from pyins import earth
    lat, alt, VN, VE, VD = float(pva.lat), float(pva.alt), float(pva.VN), float(pva.VE), float(pva.VD)
    a, e2, Om = earth.A, earth.E2, earth.RATE
    ph = math.radians(lat)
    s, c, t = math.sin(ph), math.cos(ph), math.tan(ph)
    W2 = 1 - e2 * s * s
    W = math.sqrt(W2)
    Re0 = a / W
    Rn0 = a * (1 - e2) / (W2 * W)
    dRe = a * e2 * s * c / (W2 * W)
    dRn = 3 * a * (1 - e2) * e2 * s * c / (W2 * W2 * W)
    rn, re = Rn0 + alt, Re0 + alt
    GE, FG = earth.GE, earth.F
    dg0 = GE * (2 * FG * s * c) / W + GE * (1 + FG * s * s) * (e2 * s * c) / (W2 * W)
    N = np.zeros((9, 9))
    N[0, 0] = -VD / rn
    N[0, 2] = VN / rn
    N[1, 0] = VE * (t * re - dRe) / (re * rn)
    N[1, 1] = (-VD * rn - VN * t * re + VN * dRe) / (re * rn)
    N[1, 2] = VE / re
    N[3, 0] = -Om * VE * c / rn
    N[3, 6] = -Om * VD * s
    N[3, 7] = -Om * VE * c
    N[3, 8] = -Om * VD * c
    N[4, 0] = Om * (VN * c - VD * s) / rn
    N[4, 7] = Om * (VN * c - VD * s)
    N[5, 0] = (Om * VE * s + dg0 * (1 - 2 * alt / a)) / rn
    N[5, 6] = Om * VN * s
    N[5, 7] = Om * VE * s
    N[5, 8] = Om * VN * c
    N[6, 0] = -VE * dRe / (re * re * rn)
    N[6, 2] = VE / (re * re)
    N[7, 0] = VN * dRn / (rn ** 3)
    N[7, 2] = -VN / (rn * rn)
    N[8, 0] = -VE * (1 + t * t) / (re * rn) + VE * t * dRe / (re * re * rn)
    N[8, 2] = -VE * t / (re * re)
    return N


NAMES9 = ['DR1', 'DR2', 'DR3', 'DV1', 'DV2', 'DV3', 'PHI1', 'PHI2', 'PHI3']


def _t23():
    """selection of the 7 states by their NAMES (InsErrorModel(False).states), not by the library's matrix"""
    from pyins.error_model import InsErrorModel
    names = InsErrorModel(False).states
    m = np.zeros((len(names), 9))
    for i, nm in enumerate(names):
        m[i, NAMES9.index(nm)] = 1.0
    return m


def _t32(pva):
    """lift of a 7-state error onto the documented constraint surface dr3 = 0, dv3 = VE phi1 - VN phi2
    (so that the perturbed INS state keeps zero vertical velocity to first order)"""
    m = _t23().T.copy()
    m[5, 4] = float(pva.VE)
    m[5, 5] = -float(pva.VN)
    return m


# ---------------------------------------------------------------------------------------------
# the implementation under test

def sample_state(rng, with_altitude):
    lat = rng.choice([rng.uniform(-80, 80), rng.uniform(-80, -60), rng.uniform(60, 80), rng.uniform(-1, 1)])
    lon = rng.uniform(-180, 180)
    alt = rng.choice([0.0, rng.uniform(0, 20000), 20000.0])
    speed = rng.choice([300.0, rng.uniform(0, 300), rng.uniform(0, 30)])
    d = np.array([rng.gauss(0, 1), rng.gauss(0, 1), rng.gauss(0, 0.4)])
    if not with_altitude:
        d[2] = 0.0
    d = d / max(np.linalg.norm(d), 1e-9)
    v = speed * d
    roll = rng.uniform(-180, 180)
    pitch = rng.choice([rng.uniform(-80, 80), 80.0, -80.0, rng.uniform(-5, 5)])
    heading = rng.uniform(-180, 180)
    pva = pd.Series([lat, lon, alt, v[0], v[1], v[2], roll, pitch, heading], index=COLS, dtype=float)
    w = np.array([rng.uniform(-0.5, 0.5) for _ in range(3)])
    acc = np.array([rng.uniform(-10, 10) for _ in range(3)])
    return pva, w, acc


def body_signals(pva, w_rel, acc_n, with_altitude=True):
    """constant gyro / accelerometer readings: body rate (rad/s) and specific force (m/s^2).
    In the no-altitude mode the true motion is horizontal (VD = 0 stays 0), so the vertical specific force is the one
    that keeps it so: f_D = -g + ((2 Omega + rho) x v)_D  (the mode's own assumption; with any other vertical
    specific force the trajectory is not one the 2D integrator can produce)."""
    from pyins import earth, transform, util
    C = transform.mat_from_rph(pva[['roll', 'pitch', 'heading']].values)
    g = np.array([0, 0, float(earth.gravity(pva.lat, pva.alt))])
    acc_n = np.array(acc_n, dtype=float)
    w_b = np.asarray(w_rel, dtype=float)
    if not with_altitude:
        v = pva[['VN', 'VE', 'VD']].values.astype(float)
        v[2] = 0.0
        rho = earth.curvature_matrix(pva.lat, pva.alt) @ v
        Om = earth.rate_n(pva.lat)
        acc_n[2] = np.cross(2 * Om + rho, v)[2]
        # the body only yaws relative to the local-level frame, so that the vertical specific force stays the one
        # of horizontal motion over the whole interval (constant body-frame readings otherwise tilt it)
        w_b = C.T @ (Om + rho + np.array([0.0, 0.0, w_b[2]]))
    f_b = C.T @ (acc_n - g)
    return w_b, f_b


def increments(w, f, dt, n):
    from pyins import strapdown
    t = np.arange(n + 1) * dt
    imu = pd.DataFrame(np.tile(np.hstack([w, f]), (n + 1, 1)), index=t,
                       columns=['gyro_x', 'gyro_y', 'gyro_z', 'accel_x', 'accel_y', 'accel_z'])
    return strapdown.compute_increments_from_imu(imu, 'rate')


def run(pva, incs, with_altitude):
    from pyins import strapdown
    integ = strapdown.Integrator(pva, with_altitude)
    return integ.integrate(incs)


# B follows the body: its second time derivative mixes the three gyro (accelerometer) columns
MIX = np.kron(np.eye(2), np.ones((3, 3)))
DVG = np.zeros((9, 6))
DVG[3:6, 0:3] = 1.0          # B_gyro[DV] = V_skew C: the only block that follows the velocity
H_STATE = np.array([100.0, 100.0, 100.0, 1.0, 1.0, 1.0, 1e-4, 1e-4, 1e-4])
H_SENS = np.array([1e-4, 1e-4, 1e-4, 1e-2, 1e-2, 1e-2])
# rounding floors of one error measurement: metres (lat/lon in degrees at 1e-14 relative), m/s, rad
EPS_ROW = np.array([3e-9, 3e-9, 3e-9, 3e-13, 3e-13, 3e-13, 1e-15, 1e-15, 1e-15])


def transition(pva, w, f, dt, n, with_altitude):
    """central-difference transition of the real Integrator over n steps of dt in the library's coordinates:
    Phi (n_states x n_states) and the response to constant sensor errors S (n_states x 6); plus the true trajectory."""
    incs = increments(w, f, dt, n)
    true = run(pva, incs, with_altitude)
    p_end = true.iloc[-1]
    ns = 9 if with_altitude else 7
    lift = np.eye(9) if with_altitude else _t32(pva)
    drop = np.eye(9) if with_altitude else _t23()
    Phi = np.zeros((ns, ns))
    raw9 = np.zeros((9, ns))
    for k in range(ns):
        h = (H_STATE if with_altitude else _t23() @ H_STATE)[k]
        xs = []
        for sg in (+1, -1):
            x9 = lift @ (sg * h * np.eye(ns)[k])
            ins = run(make_ins(pva, x9), incs, with_altitude).iloc[-1]
            xs.append(measure_error(ins, p_end))
        d9 = (xs[0] - xs[1]) / (2 * h)
        raw9[:, k] = d9
        Phi[:, k] = drop @ d9
    S = np.zeros((ns, 6))
    for j in range(6):
        h = H_SENS[j]
        xs = []
        for sg in (+1, -1):
            e = np.zeros(6)
            e[j] = sg * h
            incs_e = increments(w + e[:3], f + e[3:], dt, n)
            ins = run(pva, incs_e, with_altitude).iloc[-1]
            xs.append(measure_error(ins, p_end))
        S[:, j] = drop @ ((xs[0] - xs[1]) / (2 * h))
    return Phi, S, true, raw9


def model_matrices(pva, with_altitude):
    from pyins.error_model import InsErrorModel
    return InsErrorModel(with_altitude).system_matrices(pva)


def check_generator(pva, w_rel, acc_n, with_altitude, dt=0.02, signals=None, mask=None, out=None):
    """(A): returns list of (what, detail) failures and the worst ratios.
    signals = (w_b, f_b): explicit body-frame readings instead of the level ones of body_signals (corpus witness);
    mask: boolean matrix of F entries excluded from the comparison; out: dict receiving G, F, N, tol."""
    if not with_altitude:
        pva = pva.copy()
        pva.VD = 0.0
    if signals is None:
        w, f = body_signals(pva, w_rel, acc_n, with_altitude)
    else:
        w, f = np.asarray(signals[0], dtype=float), np.asarray(signals[1], dtype=float)
    ns = 9 if with_altitude else 7
    P1, S1, _, _ = transition(pva, w, f, dt, 1, with_altitude)
    P2, S2, _, _ = transition(pva, w, f, dt / 2, 1, with_altitude)
    I = np.eye(ns)
    G = 2 * (P2 - I) / (dt / 2) - (P1 - I) / dt
    GB = 2 * S2 / (dt / 2) - S1 / dt
    F, Bg, Ba = model_matrices(pva, with_altitude)
    N9 = neglected_matrix(pva)
    if with_altitude:
        N = N9
        hs = H_STATE
        eps = EPS_ROW
    else:
        N = _t23() @ N9 @ _t32(pva)
        hs = _t23() @ H_STATE
        eps = _t23() @ EPS_ROW
        # the constraint column of T32 mixes the DV3 row into PHI columns: its floor follows
    B = np.hstack([Bg, Ba])
    scaleF = np.abs(F) + np.abs(N)
    # floor: rounding of one measurement / (h * dt/2), Richardson combination (factor 6), x100 safety; plus a
    # relative 1e-5 of the entry and of the product of the largest couplings (O(dt^2 F^3) remainder)
    base = 100 * 6 * eps[:, None] / (hs[None, :] * (dt / 2))
    rel = 1e-5 * scaleF + 1e-6 * (np.abs(F) @ np.abs(F)) * dt + 1e-7
    floor = base + rel * 0 + 1e-5 * scaleF + (np.abs(F) @ np.abs(F) @ np.abs(F)) * dt * dt
    fails = []
    dF = np.abs(G - F)
    tol1 = 1.5 * np.abs(N) + floor
    dFN = np.abs(G - (F + N))
    tol2 = 0.02 * np.abs(N) + floor
    if out is not None:
        out.update(G=G, F=F, N=N, tol=tol1)
    if mask is not None:
        dF = np.where(mask, 0.0, dF)
        dFN = np.where(mask, 0.0, dFN)
    rat1 = float((dF / tol1).max())
    rat2 = float((dFN / tol2).max())
    if rat1 > 1:
        i, k = np.unravel_index(np.argmax(dF / tol1), dF.shape)
        fails.append(("block of F disagrees with the integrator's measured sensitivity beyond the neglected terms",
                      dict(row=int(i), col=int(k), measured=float(G[i, k]), model=float(F[i, k]),
                           neglected=float(N[i, k]), tol=float(tol1[i, k]))))
    baseB = 100 * 6 * eps[:, None] / (H_SENS[None, :] * (dt / 2))
    wn = float(np.linalg.norm(w)) + 1e-3
    an = float(np.linalg.norm(acc_n)) + 1.0      # d/dt of V_skew in B_gyro[DV] = V_skew C
    # Richardson remainder: the body turns by |w| dt during the step (B follows C(t)), second order in it
    tolB = baseB + 1e-5 * np.abs(B) + (np.abs(F) @ np.abs(F) @ np.abs(B)) * dt * dt + \
        2 * dt * dt * (wn * wn * (np.abs(B) @ MIX) + wn * (np.abs(F) @ np.abs(B) @ MIX) + wn * an * (DVG if with_altitude else _t23() @ DVG)) + 1e-9
    dB = np.abs(GB - B)
    ratB = float((dB / tolB).max())
    if ratB > 1:
        i, k = np.unravel_index(np.argmax(dB / tolB), dB.shape)
        fails.append(("B_gyro/B_accel disagree with the integrator's measured sensitivity to constant sensor errors",
                      dict(row=int(i), col=int(k), measured=float(GB[i, k]), model=float(B[i, k]),
                           tol=float(tolB[i, k]))))
    return fails, dict(rat_F=rat1, rat_FN=rat2, rat_B=ratB)


def check_filter_step(pva, w_rel, acc_n, with_altitude, T, dt_imu=0.02, out=None, output_variant=True):
    """(B): finite differences over one or several filter steps vs error_model.propagate_errors on the true
    trajectory.  T: a filter step, or a list of (generally UNEQUAL) consecutive filter steps, each within 0.1..2 s and
    a multiple of dt_imu; the model trajectory has one row per filter epoch, so propagate_errors must use each
    interval's own length."""
    from pyins import error_model
    from pyins.error_model import InsErrorModel
    from scipy.linalg import expm
    if not with_altitude:
        pva = pva.copy()
        pva.VD = 0.0
    w, f = body_signals(pva, w_rel, acc_n, with_altitude)
    ns = 9 if with_altitude else 7
    Ts = [float(x) for x in (T if isinstance(T, (list, tuple)) else [T])]
    if len(Ts) == 1:
        n = max(1, int(round(Ts[0] / dt_imu)))
        dt = Ts[0] / n
        cuts = [0, n]
    else:
        dt = dt_imu
        cuts = [0]
        for x in Ts:
            cuts.append(cuts[-1] + max(1, int(round(x / dt))))
        n = cuts[-1]
        Ts = [(cuts[i + 1] - cuts[i]) * dt for i in range(len(Ts))]
    T = sum(Ts)
    Phi, S, true, _ = transition(pva, w, f, dt, n, with_altitude)
    traj = true.iloc[cuts]
    em = InsErrorModel(with_altitude)
    Tout = em.transform_to_output(traj.iloc[0])
    PhiM = np.zeros((ns, ns))
    for k in range(ns):
        pe = pd.Series(Tout @ np.eye(ns)[k], index=['north', 'east', 'down', 'VN', 'VE', 'VD', 'roll', 'pitch', 'heading'])
        _, merr = error_model.propagate_errors(traj, pe, with_altitude=with_altitude)
        PhiM[:, k] = merr.values[-1]
    SM = np.zeros((ns, 6))
    for j in range(6):
        e = np.zeros(6)
        e[j] = 1.0
        _, merr = error_model.propagate_errors(traj, None, gyro_error=e[:3], accel_error=e[3:],
                                               with_altitude=with_altitude)
        SM[:, j] = merr.values[-1]

    def mats(p):
        F, Bg, Ba = em.system_matrices(p)
        N = neglected_matrix(p)
        if not with_altitude:
            N = _t23() @ N @ _t32(p)
        return F, np.hstack([Bg, Ba]), N
    ends = [mats(traj.iloc[i]) for i in range(len(cuts))]
    mids = [mats(true.iloc[(cuts[i] + cuts[i + 1]) // 2]) for i in range(len(Ts))]
    # per interval: quadrature error of the trapezoid when F, B are curved in time (Simpson - trapezoid =
    # Ti (F0 - 2 Fm + F1) / 3, second difference with the mid-point sample of the true trajectory) and their variation
    curvF = sum(np.abs(ends[i][0] - 2 * mids[i][0] + ends[i + 1][0]) * Ts[i] / 3 for i in range(len(Ts)))
    curvB = sum(np.abs(ends[i][1] - 2 * mids[i][1] + ends[i + 1][1]) * Ts[i] / 3 for i in range(len(Ts)))
    varF = sum(np.abs(ends[i + 1][0] - ends[i][0]) for i in range(len(Ts)))
    dBm = sum(np.abs(ends[i + 1][1] - ends[i][1]) for i in range(len(Ts)))
    if not with_altitude:
        hs = _t23() @ H_STATE
        eps = _t23() @ EPS_ROW
    else:
        hs, eps = H_STATE, EPS_ROW
    A = np.max([np.abs(e[0]) for e in ends], axis=0)
    Nb = np.max([np.abs(e[2]) for e in ends], axis=0)
    Bm = np.max([np.abs(e[1]) for e in ends], axis=0)
    M = A + Nb
    E2 = expm(M * T) - np.eye(ns) - M * T
    floor = 100 * (n + 1) * eps[:, None] / hs[None, :]
    # the kernel is a first-order scheme in the IMU step: over one step the velocity changes by a dt, which the
    # discrete error state sees as a DV/PHI offset of size |a| dt fed back through F (measured: ~ |a| |2 Omega| dt T)
    an0 = float(np.linalg.norm(acc_n)) + 1.0
    PVP = np.zeros((9, 9))
    PVP[3:6, 6:9] = 1.0
    if not with_altitude:
        PVP = _t23() @ PVP @ _t23().T
    disc = dt * an0 * T * (M @ PVP)
    # (no first-difference term |F_{i+1} - F_i| T_i / 2 here: that is exactly what a rectangle rule instead of the
    #  trapezoid would produce, and it must stay visible; the curvature term bounds the trapezoid's own error)
    # the kernel evaluates its coefficients at the start of each IMU step: a lag of dt/2, i.e. |dF/dt| dt/2 per unit time
    lagF = varF * dt
    tol = 4 * (E2 + Nb * T + 2 * curvF + lagF + (varF @ M + M @ varF) * T * T + disc) \
        + floor + 1e-6 * np.abs(PhiM)
    if not with_altitude:
        # the harness feeds constant body-frame readings; over T the vertical specific force then departs from the
        # one of horizontal motion by the change of ((2 Omega + rho) x v)_D, which tilts into the horizontal channels
        from pyins import earth

        def cv(p):
            v = np.array([p.VN, p.VE, 0.0])
            return float(np.cross(2 * earth.rate_n(p.lat) + earth.curvature_matrix(p.lat, p.alt) @ v, v)[2])
        dev = max(abs(cv(traj.iloc[i]) - cv(traj.iloc[0])) for i in range(len(cuts)))
        tol[2:4, 4:7] += 4 * dev * T
    fails = []
    d = np.abs(Phi - PhiM)
    rat = float((d / tol).max())
    if out is not None:
        out.update(d=d, tol=tol, E2=E2, NbT=Nb * T, curvF=curvF, cross=(varF @ M + M @ varF) * T * T, floor=floor)
    if rat > 1:
        i, k = np.unravel_index(np.argmax(d / tol), d.shape)
        fails.append(("propagate_errors' transition over the filter step(s) disagrees with the integrator's measured "
                      "error growth beyond second-order and neglected terms",
                      dict(row=int(i), col=int(k), measured=float(Phi[i, k]), model=float(PhiM[i, k]),
                           tol=float(tol[i, k]), T=Ts)))
    E1 = expm(M * T) - np.eye(ns)
    wn = float(np.linalg.norm(w)) + 1e-3
    an = float(np.linalg.norm(acc_n)) + 1.0
    Tm = max(Ts)
    tolS = 4 * (E1 @ Bm * T / 2 + Nb @ Bm * T * T + 2 * curvB + M @ dBm * T * T +
                T * (wn * Tm) ** 2 * (Bm @ MIX) / 8 + T * (wn * Tm) * (an * Tm) * (DVG if with_altitude else _t23() @ DVG) / 4) + \
        100 * (n + 1) * eps[:, None] / H_SENS[None, :] + 1e-6 * np.abs(SM)
    dS = np.abs(S - SM)
    ratS = float((dS / tolS).max())
    if ratS > 1:
        i, k = np.unravel_index(np.argmax(dS / tolS), dS.shape)
        fails.append(("propagate_errors' response to constant sensor errors over the filter step(s) disagrees with "
                      "the integrator's", dict(row=int(i), col=int(k), measured=float(S[i, k]), model=float(SM[i, k]),
                                               tol=float(tolS[i, k]), T=Ts)))
    ratios = dict(rat_Phi=rat, rat_S=ratS)
    if output_variant and float(np.abs(true.pitch.values).max()) <= 85.0:
        # (beyond 85 deg the Euler-angle output coordinates are outside the property's domain |pitch| <= 80 deg:
        #  constant body rates can carry a trajectory that starts at +-80 deg past it within the filter step)
        fo, ro = output_variant_check(pva, true, traj, incs_of(w, f, dt, n), with_altitude, em, Phi, PhiM, tol, floor,
                                      n, Ts)
        fails += fo
        ratios.update(ro)
    return fails, ratios


ERR_COLS = ['north', 'east', 'down', 'VN', 'VE', 'VD', 'roll', 'pitch', 'heading']
H_OUT = np.array([100.0, 100.0, 100.0, 1.0, 1.0, 1.0, 0.003, 0.003, 0.003])    # m, m/s, deg
EPS_OUT = np.array([3e-9, 3e-9, 3e-9, 3e-13, 3e-13, 3e-13, 1e-12, 1e-12, 1e-12])


def incs_of(w, f, dt, n):
    return increments(w, f, dt, n)


def output_variant_check(pva, true, traj, incs, with_altitude, em, Phi, PhiM, tol_int, floor_int, n, Ts):
    """(C) the same filter step(s) with the initial error given in OUTPUT coordinates (north/east/down m, NED
    velocity m/s, roll/pitch/heading deg): the real Integrator starts from sim.perturb_pva(pva, e), the final
    difference is transform.compute_state_difference(perturbed run, nominal run).
      C1: against propagate_errors' trajectory_error (= transform_to_output(final) @ x_final with
          x0 = transform_to_internal(initial) @ e), tolerance = the internal majorant of (B) mapped through
          |T_out| . |T_int|;
      C2: against T_out(final) @ (measured internal transition of (B)) @ T_int(initial): only the output/internal
          transforms are under test here, so the tolerance is rounding floors (x100) plus a 5e-4 relative allowance
          for the second-order terms of the finite differences.
    In the no-altitude mode the 'down' and 'VD' directions are outside the 7-state model and are skipped."""
    from pyins import sim, transform, error_model
    ns = 9 if with_altitude else 7
    p_end = true.iloc[-1]
    cols = [k for k in range(9) if with_altitude or k not in (2, 5)]
    Tint0 = np.asarray(em.transform_to_internal(traj.iloc[0]), dtype=float)
    Tout1 = np.asarray(em.transform_to_output(traj.iloc[-1]), dtype=float)
    Pm = np.zeros((9, 9))
    Pmod = np.zeros((9, 9))
    for k in cols:
        ds = []
        for sg in (+1, -1):
            e = pd.Series(np.zeros(9), index=ERR_COLS)
            e.iloc[k] = sg * H_OUT[k]
            p0 = sim.perturb_pva(pva, e)
            fin = run(p0, incs, with_altitude).iloc[-1]
            ds.append(transform.compute_state_difference(fin, p_end).values.astype(float))
        Pm[:, k] = (ds[0] - ds[1]) / (2 * H_OUT[k])
        e = pd.Series(np.zeros(9), index=ERR_COLS)
        e.iloc[k] = 1.0
        terr, _ = error_model.propagate_errors(traj, e, with_altitude=with_altitude)
        Pmod[:, k] = terr.values[-1]
    Ppred = Tout1 @ Phi @ Tint0
    aT1, aT0 = np.abs(Tout1), np.abs(Tint0)
    floor_out = 100 * (n + 1) * EPS_OUT[:, None] / H_OUT[None, :] + aT1 @ floor_int @ aT0
    tol2 = 5e-4 * (aT1 @ np.abs(Phi) @ aT0) + floor_out
    tol1 = aT1 @ tol_int @ aT0 + tol2
    fails = []
    sel = np.array(cols)
    d1 = np.abs(Pm - Pmod)[:, sel]
    d2 = np.abs(Pm - Ppred)[:, sel]
    r1 = d1 / tol1[:, sel]
    r2 = d2 / tol2[:, sel]
    if r2.max() > 1:
        i, kk = np.unravel_index(np.argmax(r2), r2.shape)
        k = int(sel[kk])
        fails.append(("error growth in OUTPUT coordinates (sim.perturb_pva -> Integrator -> compute_state_difference) "
                      "disagrees with transform_to_output(final) @ measured internal transition @ "
                      "transform_to_internal(initial)",
                      dict(row=ERR_COLS[i], col=ERR_COLS[k], measured=float(Pm[i, k]), predicted=float(Ppred[i, k]),
                           tol=float(tol2[i, k]), T=Ts)))
    if r1.max() > 1:
        i, kk = np.unravel_index(np.argmax(r1), r1.shape)
        k = int(sel[kk])
        fails.append(("propagate_errors' trajectory_error for an initial error given in OUTPUT coordinates disagrees "
                      "with the integrator's measured error growth (compute_state_difference of perturbed and "
                      "nominal runs)",
                      dict(row=ERR_COLS[i], col=ERR_COLS[k], measured=float(Pm[i, k]), model=float(Pmod[i, k]),
                           tol=float(tol1[i, k]), T=Ts)))
    return fails, dict(rat_out_model=float(r1.max()), rat_out_transforms=float(r2.max()))


def coordinates_tie(pva, rng):
    """the error coordinates used here are the library's: correct_pva(make_ins(p, x), x) == p and
    measure_error(make_ins(p, x), p) == x."""
    from pyins.error_model import InsErrorModel
    from pyins import transform
    x = np.array([rng.uniform(-50, 50), rng.uniform(-50, 50), rng.uniform(-50, 50),
                  rng.uniform(-1, 1), rng.uniform(-1, 1), rng.uniform(-1, 1),
                  rng.uniform(-1e-2, 1e-2), rng.uniform(-1e-2, 1e-2), rng.uniform(-1e-2, 1e-2)])
    ins = make_ins(pva, x)
    back = InsErrorModel(True).correct_pva(ins, x)
    d = transform.compute_state_difference(back, pva)
    bad = (np.abs(d.values[:3]).max() > 1e-6 or np.abs(d.values[3:6]).max() > 1e-9 or
           np.abs(d.values[6:]).max() > 1e-9)
    xm = measure_error(ins, pva)
    bad = bad or np.abs(xm - x).max() > 1e-6 * max(1.0, np.abs(x).max())
    return bad, dict(pva=[float(v) for v in pva.values], x=[float(v) for v in x],
                     back_diff=[float(v) for v in d.values], measured=[float(v) for v in xm])


def numeric_statements(r, n_states, n_filter, seed_shift=0):
    rng = random.Random(r.seed + 4 + seed_shift)
    fails = []
    worst = dict(rat_F=0.0, rat_FN=0.0, rat_B=0.0, rat_Phi=0.0, rat_S=0.0, rat_out_model=0.0, rat_out_transforms=0.0)
    dist = dict(modes={True: 0, False: 0}, lat_south=0, lat_north=0, fast=0, steep=0, filter_steps=[])
    for i in range(n_states):
        with_alt = (i % 2 == 0)
        pva, w, acc = sample_state(rng, with_alt)
        rep = dict(kind='generator', with_altitude=with_alt, pva=[float(v) for v in pva.values],
                   w=[float(v) for v in w], acc=[float(v) for v in acc])
        r.case(('gen', with_alt) + tuple(round(float(v), 3) for v in pva.values), sample=rep)
        dist['modes'][with_alt] += 1
        dist['lat_south' if pva.lat < 0 else 'lat_north'] += 1
        dist['fast'] += int(np.linalg.norm(pva[['VN', 'VE', 'VD']].values) > 200)
        dist['steep'] += int(abs(pva.pitch) > 60)
        if i < 6:
            bad, det = coordinates_tie(pva, rng)
            if bad:
                r.broken('correspondence', 'error coordinates of the harness are not the inverse of correct_pva', det)
        fl, rat = check_generator(pva, w, acc, with_alt)
        for k in rat:
            worst[k] = max(worst[k], rat[k])
        for what, det in fl:
            fails.append((what, dict(rep, detail=det)))
    # fixed cases run first: steep pitch with roll != pitch (output/internal transforms far from diagonal),
    # unequal filter steps, both modes
    fixed = [(True, [40.0, 20.0, 1000.0, 100.0, 50.0, -5.0, -10.0, 75.0, 100.0], [0.2, 1.0]),
             (False, [-40.0, -120.0, 3000.0, -150.0, 80.0, 0.0, 25.0, -78.0, -160.0], [1.0, 0.2]),
             # fast attitude change between coarse table stamps (20 deg/s turn, 1 s table): B(t) moves appreciably
             (True, [30.0, 50.0, 500.0, 60.0, -40.0, 2.0, 5.0, 10.0, -30.0], [1.0, 1.0], [0.05, -0.04, 0.35]),
             (False, [-30.0, 50.0, 500.0, 60.0, 40.0, 0.0, -5.0, 8.0, 140.0], [1.0, 0.5], [0.0, 0.0, -0.35])]
    for fx in fixed:
        with_alt, vals, T = fx[0], fx[1], fx[2]
        pva = pd.Series(vals, index=COLS, dtype=float)
        w, acc = np.array(fx[3] if len(fx) > 3 else [0.02, -0.03, 0.05]), np.array([1.0, -0.5, 0.3])
        rep = dict(kind='filter_step', with_altitude=with_alt, T=T, pva=vals, w=list(w / 0.2), acc=list(acc / 0.3))
        r.case(('flt-fixed', with_alt, str(T)), sample=rep)
        fl, rat = check_filter_step(pva, w, acc, with_alt, T)
        for k in rat:
            worst[k] = max(worst[k], rat[k])
        for what, det in fl:
            fails.append((what, dict(rep, detail=det)))
    for i in range(n_filter):
        with_alt = (i % 2 == 0)
        pva, w, acc = sample_state(rng, with_alt)
        T = rng.choice([0.1, 2.0, round(rng.uniform(0.1, 2.0), 2)])
        if i % 2 == 1 or i % 4 == 2:
            # non-uniform time stamps: two or three consecutive filter steps of different lengths (multiples of the
            # IMU step, each within 0.1..2 s), e.g. 0.2 s then 1 s
            k = rng.choice([2, 2, 3])
            T = [round(rng.choice([0.1, 0.2, 0.5, 1.0, 2.0, rng.uniform(0.1, 1.5)]) / 0.02) * 0.02 for _ in range(k)]
            if max(T) - min(T) < 0.1:
                T[0], T[1] = 0.2, 1.0
        rep = dict(kind='filter_step', with_altitude=with_alt, T=T, pva=[float(v) for v in pva.values],
                   w=[float(v) for v in w], acc=[float(v) for v in acc])
        r.case(('flt', with_alt, str(T)) + tuple(round(float(v), 3) for v in pva.values), sample=rep)
        dist['filter_steps'].append(T if not isinstance(T, list) else [round(x, 2) for x in T])
        fl, rat = check_filter_step(pva, w * 0.2, acc * 0.3, with_alt, T)
        for k in rat:
            worst[k] = max(worst[k], rat[k])
        for what, det in fl:
            fails.append((what, dict(rep, detail=det)))
    dist['modes'] = {str(k): v for k, v in dist['modes'].items()}
    return fails, worst, dist


CORPUS = None


def _corpus_path():
    import os
    return os.path.join(os.path.dirname(os.path.dirname(os.path.dirname(os.path.abspath(__file__)))),
                        'corpus', 'C04-findings.json')


def run_witness(w):
    """One corpus witness of the finding no-altitude-vertical-specific-force: a 2D-mode state with body-frame
    readings whose vertical specific force is NOT the one of level motion.  Returns a dict with the measured and the
    model value of the two gravity-tilt entries F2[DV1,PHI2], F2[DV2,PHI1], the vertical acceleration a_v the
    2D integrator ignores, the deviation, and the failures of every OTHER entry (which must stay within tolerance)."""
    from pyins import earth, transform
    pva = pd.Series(w['pva'], index=COLS, dtype=float)
    wb, fb = np.array(w['gyro']), np.array(w['accel'])
    C = transform.mat_from_rph(pva[['roll', 'pitch', 'heading']].values)
    v = np.array([pva.VN, pva.VE, 0.0])
    cor = 2 * earth.rate_n(pva.lat) + earth.curvature_matrix(pva.lat, pva.alt) @ v
    a_v = float((C @ fb)[2] + earth.gravity(pva.lat, pva.alt) - np.cross(cor, v)[2])
    mask = np.zeros((7, 7), dtype=bool)
    mask[2, 5] = mask[3, 4] = True           # DV1/PHI2 and DV2/PHI1
    out = {}
    fails, rat = check_generator(pva, None, np.zeros(3), False, signals=(wb, fb), mask=mask, out=out)
    d = out['G'] - out['F'] - out['N']
    return dict(a_v=a_v, measured=[float(out['G'][2, 5]), float(out['G'][3, 4])],
                model=[float(out['F'][2, 5]), float(out['F'][3, 4])],
                dev=[float(d[2, 5]), float(d[3, 4])], tol=float(out['tol'][2, 5]),
                other_fails=[(what, det) for what, det in fails if 'B_gyro' not in what], ratios=rat)


def corpus_witnesses(r):
    """Recorded finding (known_findings.txt): run the witnesses FIRST.  While the implementation still shows the
    deviation (gravity-tilt entries off by the vertical acceleration: well above the tolerance, within 50 % of the
    predicted value) it is reported with the finding's key (KNOWN-FINDING line, exit 0); if it has disappeared this
    is noted in the evidence; anything else is an ordinary violation."""
    import os
    import json
    path = _corpus_path()
    if not os.path.exists(path):
        r.broken('harness', 'corpus', f"{path} is missing")
        return
    notes = []
    for w in json.load(open(path))['cases']:
        res = run_witness(w)
        r.case(('corpus', w['name']), sample=dict(corpus=w['name'], **{k: res[k] for k in ('a_v', 'measured', 'model')}))
        a = res['a_v']
        d0, d1 = res['dev']
        for what, det in res['other_fails']:
            r.violation(f"corpus witness {w['name']}: outside the recorded finding: {what}",
                        dict(key='C04-numeric', corpus=w['name'], witness=w, detail=det))
        present = (abs(d0 + a) <= 0.5 * abs(a) and abs(d1 - a) <= 0.5 * abs(a) and abs(a) > 100 * res['tol'])
        gone = abs(d0) <= res['tol'] and abs(d1) <= res['tol']
        notes.append(dict(name=w['name'], vertical_acceleration=a, deviation=res['dev'], tol=res['tol'],
                          still_present=bool(present)))
        if present:
            r.violation(f"corpus witness {w['name']}: no-altitude mode, vertical acceleration {a:.3f} m/s^2 not seen "
                        f"by the 2D integrator: measured F2[DV1,PHI2], F2[DV2,PHI1] = {res['measured']} against the "
                        f"model's {res['model']} (deviation {res['dev']}, expected (-a_v, +a_v))",
                        dict(key=w['expect'], corpus=w['name'], witness=w, result=res))
            r.log(f"corpus witness {w['name']}: deviation still present ({d0:+.3f}, {d1:+.3f} for a_v = {a:.3f}) "
                  f"-> known finding {w['expect']}")
        elif gone:
            r.notes.append(f"corpus witness {w['name']} of finding {w['expect']} no longer deviates "
                           f"(deviation {res['dev']}, tolerance {res['tol']:.2e})")
            r.log(f"corpus witness {w['name']}: the deviation has disappeared")
        else:
            r.violation(f"corpus witness {w['name']}: gravity-tilt entries of F2 deviate by {res['dev']}, which is "
                        f"neither the recorded finding (expected (-a_v, +a_v), a_v = {a:.3f}) nor within tolerance",
                        dict(key='C04-numeric', corpus=w['name'], witness=w, result=res))
    r.coverage['corpus_witnesses'] = notes


def _covered_functions():
    """the anchored functions by name, plus every function of the same module / class they (transitively) CALL, found
    dynamically from the names their code refers to, so that extracting a helper out of an anchored function keeps its
    lines under measurement (and helpers of functions C04 does not anchor stay out)"""
    import inspect
    from pyins import error_model
    from pyins.error_model import InsErrorModel

    def unwrap(f):
        f = f.__func__ if isinstance(f, (classmethod, staticmethod)) else f
        return f if inspect.isfunction(f) and f.__module__ == error_model.__name__ else None

    def names_of(code):
        out = set(code.co_names)
        for c in code.co_consts:
            if hasattr(c, 'co_names'):
                out |= names_of(c)
        return out
    named = {'InsErrorModel.system_matrices': InsErrorModel.system_matrices,
             'InsErrorModel.transform_to_output': InsErrorModel.transform_to_output,
             'InsErrorModel.transform_to_internal': InsErrorModel.transform_to_internal,
             'propagate_errors': error_model.propagate_errors}
    todo = list(named.values())
    seen = set()
    while todo:
        f = unwrap(todo.pop())
        if f is None or f in seen:
            continue
        seen.add(f)
        for nm in names_of(f.__code__):
            for owner, prefix in ((vars(error_model), ''), (vars(InsErrorModel), 'InsErrorModel.')):
                g = unwrap(owner.get(nm)) if nm in owner else None
                if g is not None and g not in seen and not nm.startswith('__'):
                    named.setdefault(prefix + nm, g)
                    todo.append(g)
    return named


def check(r):
    r.trusted += [
        "translator tools/sym.py + tools/ir2coq.py (symbolic tracing of InsErrorModel.system_matrices, both modes; "
        "propagate_errors' loop on a two-row trajectory with the InsErrorModel methods replaced by symbolic stacks)",
        "scipy Rotation.from_euler('xyz') read as Rz(h)Ry(p)Rx(r) (mat_from_rph stub, validated numerically each run)",
        "binary64 rounding not modelled: theorems are over the reals",
        "Spec/NavODE.v (hand-written hub specification) is what 'the strapdown integrator' means in the theorems; "
        "C01 proves the kernel step consistent with it",
    ]
    r.assumptions += [
        "finite_step_error_growth_partial: the exchange of the u- and t-derivatives (Schwarz) linking the proved "
        "continuous linearisation to error growth over a finite step, and the quantitative bound over a filter step "
        "0.1..2 s, are NOT proved; they are checked numerically on the implementation (tests A and B)",
        "no-altitude mode: C04_errdyn2d_is_linearisation holds on LEVEL trajectories (VD = 0 and vertical specific "
        "force f_D = -g + ((2 Omega + rho) x v)_D); for other vertical specific forces the true DV/PHI coupling is "
        "-f_D instead of the model's g (the mode's own modelling assumption; the numeric tests feed level signals)",
        "the neglected-terms matrix N includes the term (Omega x phi) x v in the DV/PHI block (size <= 0.022 m/s^2 per "
        "rad at 300 m/s, 0.2 % of g) which the implemented modified phi-angle model leaves out",
    ]
    import linecov
    cov = linecov.LineCoverage(_covered_functions())
    with cov:
        corpus_witnesses(r)                      # FIRST: the witnesses of the recorded finding
    r.generate(['Earth', 'Transform', 'C04Gen'])
    r.prove('Props/C04.v')
    quick = r.tier == 'quick'
    with cov:
        fails, worst, dist = numeric_statements(r, 24 if quick else 400, 10 if quick else 120)
    summ, missing = cov.report(allow=())
    r.coverage['code_lines'] = summ
    r.log("line coverage of the modelled functions: " +
          ", ".join(f"{k} {v['executed']}/{v['executable']}" for k, v in summ.items()))
    if missing:
        r.broken('correspondence', 'code line not exercised', missing)
    r.coverage['numeric_support'] = dict(failures=len(fails), worst_ratio_to_tolerance=worst)
    r.coverage['distribution'] = dist
    for what, rep in fails[:5]:
        r.violation(what, rep)
    if r.tier == 'thorough':
        r.hygiene('Props/C04.v')
        r.coqchk('Props/C04.v')


def falsify(r):
    fails, worst, dist = numeric_statements(r, 60, 30, seed_shift=1000)
    r.coverage['falsifier'] = dict(failures=len(fails), worst_ratio_to_tolerance=worst)
    for what, rep in fails[:5]:
        r.violation(what, rep)


def replay(obj):
    rep = obj.get('replay', obj)
    if 'witness' in rep:                     # a corpus witness (known finding)
        res = run_witness(rep['witness'])
        print('C04 corpus witness', rep['witness'].get('name'), res)
        a = res['a_v']
        still = abs(res['dev'][0] + a) <= 0.5 * abs(a) and abs(res['dev'][1] - a) <= 0.5 * abs(a)
        return 1 if (still or res['other_fails']) else 0
    pva = pd.Series(rep['pva'], index=COLS, dtype=float)
    w = np.array(rep['w'])
    acc = np.array(rep['acc'])
    if rep.get('kind') == 'filter_step':
        fl, rat = check_filter_step(pva, w * 0.2, acc * 0.3, rep['with_altitude'], rep['T'])
    else:
        fl, rat = check_generator(pva, w, acc, rep['with_altitude'])
    print('state', rep)
    print('worst ratios to tolerance', rat)
    for what, det in fl:
        print('FAILS:', what, det)
    return 1 if fl else 0
