"""C11 — Feedforward filter equals the exact linear-Gaussian estimator of its model.

Proofs: Props/C11.v (Model/FilterFlow.v: data flow of run_feedforward_filter on top of the event
trace of Model/FeedforwardSched.v, block layout of the covariance / process-matrix assembly,
Kalman recursion == one-shot Gauss-Markov solution for positive-definite data AND for singular process noise
Qd = Gam Gam^T with invertible Phi (noise-parametrised batch problem, the one the numerical reference below
solves); compensation formulas
traced from the live _compute_feedforward_result by tools/reg/c11.py into Gen/C11Gen.v on every run).

Tie between model and code (CALL-TRACE CORRESPONDENCE).  `pyins.kalman.correct`,
`pyins.kalman.compute_process_matrices`, `pyins.filters._initialize_covariance`,
`_compute_error_propagation_matrices`, `_compute_feedforward_result` and every measurement's
`compute_matrices` are wrapped at run time (restored afterwards) while the real
`run_feedforward_filter` runs on generated cases (schedules of props/C09.py with dyadic stamps,
random enable-masks of the two sensor models, 0..3 measurement classes, both altitude modes,
with / without `increments`).  From the recorded calls the harness reconstructs, by CONTENT HASH of
(x, P), which state entered which call: every correct() must receive exactly the output of the
previous operation, every recorded row must be the state before the propagation of that
iteration, and the state after a propagation must be (Phi x, Phi P Phi^T + Qd) of the recorded row.
The resulting provenance terms  TCorr sensor epoch row (TProp i j (... TInit))  of all recorded rows
and of the final state are compared EXACTLY, inside Coq (vm_compute), with the fold of the model's
event trace over the free state algebra (Model/FilterFlow.v: t_flow).  Shapes, the zero pattern of
H_full (only the inertial block may be non-zero, and it is the H returned by compute_matrices),
the identity of z and R, time_delta == times[j] - times[i] are asserted on every call.

Support / falsifier on the implementation (INDEPENDENT one-shot Gauss-Markov solution).  From the
PUBLIC model objects only (InsErrorModel.system_matrices / transform_to_output /
transform_to_internal, EstimationModel attributes F G H J P q v output_matrix,
Measurement.compute_matrices) the harness assembles its own F and noise input matrix B (one column per
white noise source), takes Phi = exp(F dt) and obtains a SQUARE-ROOT factor of
Qd = int_0^dt exp(F s) B B^T exp(F^T s) ds directly from the DEFINITION by Gauss-Legendre quadrature
(2 x 24 nodes, QR of the stacked terms) -- no Van Loan block exponential, no matrix square root of a
rounded covariance -- and writes every state on the filter's grid as a linear function of ONE vector of
unit white variables xi = (initial (T diag(sd), sqrt P_gyro, sqrt P_accel), process noise of every step):
x_r = A_r xi.  The prior of xi is N(0, I)
whatever the rank of P0 and Qd (no inverse of a singular matrix is ever taken).  The estimate after
the first c measurement blocks is the solution of the stacked least-squares problem
    minimise |xi|^2 + sum_{j<c} |R_j^-1/2 (z_j - H_j A_{r_j} xi)|^2
solved in one shot by Householder QR of [I; C] (singular values >= 1, residual of the normal
equations checked), covariance A (M^T M)^-1 A^T from the same triangular factor.  All result fields
are compared: compensated trajectory (own compensation formulas), trajectory_sd, gyro / accel
estimates and sds, normalised innovations (own Cholesky whitening of the batch prediction).
Tolerances are relative to the reported standard deviations and scale with the conditioning
number of the stacked problem; the worst observed ratio is reported in the evidence.
"""
import os
import sys
import json
import math
import time
import random
import hashlib
import traceback
import collections
from fractions import Fraction

from props import C09 as S       # schedule generator (dyadic ticks), watchdog; sets BLAS threads to 1

import numpy as np

import common

RULE = ("schedules of props/C09.gen_schedule (ticks of 1/128 s: sampling uniform / irregular / gapped, 2..12 rows, "
        "0..3 stock measurement classes with coincident / fractional / clustered / duplicated / out-of-span stamps, "
        "in half of the cases a user-defined ONE-ROW Measurement subclass (north velocity / barometric altitude), "
        "time_step from 1/8 of the sampling interval to 5 s) x random enable-masks of the gyro and accelerometer "
        "models (bias, bias walk, noise per axis, scale/misalignment per entry) x initial sigmas log-uniform over "
        "4 decades x measurement sds over 3 decades x lever arms x both altitude modes x nominal = truth / "
        "computed x with / without `increments`; a case is distinct by (schedule key, masks, flags)")

DEN = 128                       # ticks per second of the C11 data
BASE_TICKS = 8192               # 64 s
CLS = S.CLS
DEG = math.pi / 180.0

# --------------------------------------------------------------------------------------
# data
# --------------------------------------------------------------------------------------
_BASE = None


def base():
    global _BASE
    if _BASE is None:
        from pyins import sim
        traj, imu = sim.generate_sine_velocity_motion(
            1.0 / DEN, BASE_TICKS / DEN, [50, 60, 100], [3, -2, 0.2], [2, 2, 0.3],
            velocity_change_period=25)
        assert len(traj) == BASE_TICKS and traj.index[1] == 1.0 / DEN
        _BASE = traj, imu
    return _BASE


def _sec(t):
    return t / DEN


def gen_model_spec(rng, allow_sm):
    """enable mask and magnitudes of one EstimationModel"""
    style = rng.choice(['none', 'bias', 'full', 'random', 'random'])
    if style == 'none':
        return dict(bias=[0, 0, 0], walk=[0, 0, 0], noise=[0, 0, 0], sm=[0] * 9)
    if style == 'bias':
        b = [1, 1, 1]
        w = [0, 0, 0]
        n = [0, 0, 0]
        s = [0] * 9
    elif style == 'full':
        b, w, n = [1, 1, 1], [1, 1, 1], [1, 1, 1]
        s = [1] * 9 if allow_sm and rng.random() < 0.5 else [0] * 9
    else:
        b = [rng.random() < 0.6 for _ in range(3)]
        w = [bool(x and rng.random() < 0.5) for x in b]
        n = [rng.random() < 0.6 for _ in range(3)]
        s = [bool(allow_sm and rng.random() < 0.3) for _ in range(9)]
    return dict(bias=[int(x) for x in b], walk=[int(x) for x in w], noise=[int(x) for x in n],
                sm=[int(x) for x in s])


def gen_case(rng, nmax=10):
    s = S.gen_schedule(rng, 'ff', nmax)
    while len(s['epochs']) < 2:
        s = S.gen_schedule(rng, 'ff', nmax)
    s['step'] = max(1, min(int(s['step']), 5 * DEN))
    if rng.random() < 0.5:          # a user-defined one-row measurement next to the stock ones
        # (the barometric altitude needs the altitude error state: only with altitude)
        cls = rng.choice(['NorthVelocity', 'BaroAltitude']) if s['alt'] else 'NorthVelocity'
        ep = s['epochs']
        pool = sorted({t for _, ts in s['sensors'] for t in ts})
        ticks = set()
        for _ in range(rng.randint(1, 4)):
            ticks.add(rng.choice(pool) if pool and rng.random() < 0.4 else rng.randint(ep[0], ep[-1]))
        if s['meas_mode'] != 'list':
            s['sensors'] = []
            s['meas_mode'] = 'list'
        s['sensors'].insert(rng.randint(0, len(s['sensors'])), [cls, sorted(ticks)])
        s['cats'] = s.get('cats', []) + ['custom-1-row:' + cls]
    allow_sm = rng.random() < 0.6
    gm = gen_model_spec(rng, allow_sm)
    am = gen_model_spec(rng, allow_sm)
    if any(gm['sm']) or any(am['sm']):
        s['increments'] = True
    c = dict(sched={k: v for k, v in s.items() if k not in ('models',)},
             gm=gm, am=am,
             gscale=[10 ** rng.uniform(-6, -4), 10 ** rng.uniform(-6, -4), 10 ** rng.uniform(-8, -6),
                     10 ** rng.uniform(-4, -2.5)],       # bias rad/s, noise rad/s^.5, walk, sm
             ascale=[10 ** rng.uniform(-3, -1), 10 ** rng.uniform(-4, -2), 10 ** rng.uniform(-5, -3),
                     10 ** rng.uniform(-4, -2.5)],
             sig=[10 ** rng.uniform(-1, 3), 10 ** rng.uniform(-2, 2), 10 ** rng.uniform(-2, 1),
                  10 ** rng.uniform(-1.5, 1.5)],         # m, m/s, deg, deg : 3-4 decades each
             msd=[10 ** rng.uniform(-1.5, 1.5) for _ in s['sensors']],
             lever=[([round(rng.uniform(-2, 2), 3) for _ in range(3)] if rng.random() < 0.4 else None)
                    for _ in s['sensors']],
             nominal=rng.choice(['truth', 'computed']),
             none_models=bool(rng.random() < 0.1))
    if s.get('increments') and rng.random() < 0.5:
        c['refine'] = dict(k=[rng.choice([1, 2, 2, 3, 5]) for _ in range(len(s['epochs']) - 1)],
                           lead=sorted({s['epochs'][0] - d for d in rng.sample([1, 2, 3, 5, 8, 13], rng.randint(0, 2))}))
    return c


def key_of(c):
    return (S.key_of(dict(c['sched'], models=0)), tuple(c['gm']['bias'] + c['gm']['walk'] + c['gm']['noise'] + c['gm']['sm']),
            tuple(c['am']['bias'] + c['am']['walk'] + c['am']['noise'] + c['am']['sm']), c['nominal'], c['none_models'],
            json.dumps(c.get('refine'), sort_keys=True))


def make_model(spec, scale):
    from pyins import inertial_sensor
    b = np.array(spec['bias'], float) * scale[0]
    n = np.array(spec['noise'], float) * scale[1] * np.array([1.0, 0.7, 1.3])
    w = np.array(spec['walk'], float) * scale[2]
    sm = np.array(spec['sm'], float).reshape(3, 3) * scale[3] * np.array([[1.0, 0.5, 0.8], [0.6, 1.1, 0.9], [0.7, 1.2, 1.0]])
    b = b * np.array([1.0, 1.4, 0.8])
    return inertial_sensor.EstimationModel(bias_sd=b, noise=n, bias_walk=w, scale_misal_sd=sm)


_CUSTOM = {}


def custom_classes():
    """User-defined measurements (subclasses of pyins.measurements.Measurement, the documented extension point)
    with ONE row: a single NED velocity component (both altitude modes) and a barometric altitude (needs the
    altitude error state: not available without altitude).  z = value derived from pva - observed value,
    H = the matching row of the public error Jacobians, R = sd^2 (1 x 1)."""
    if not _CUSTOM:
        from pyins import measurements

        class NorthVelocity(measurements.Measurement):
            def __init__(self, data, sd):
                super().__init__(data[['VN']])
                self.R = np.array([[sd ** 2]])

            def compute_matrices(self, time, pva, error_model):
                if time not in self.data.index:
                    return None
                z = np.array([pva['VN'] - self.data.loc[time, 'VN']])
                H = error_model.ned_velocity_error_jacobian(pva)[0:1]
                return z, H, self.R

        class BaroAltitude(measurements.Measurement):
            def __init__(self, data, sd):
                super().__init__(data[['alt']])
                self.R = np.array([[sd ** 2]])

            def compute_matrices(self, time, pva, error_model):
                if time not in self.data.index or not error_model.with_altitude:
                    return None
                z = np.array([pva['alt'] - self.data.loc[time, 'alt']])
                H = -error_model.position_error_jacobian(pva)[2:3]      # computed altitude = true altitude - down error
                return z, H, self.R
        _CUSTOM.update(NorthVelocity=NorthVelocity, BaroAltitude=BaroAltitude)
    return _CUSTOM


def inc_epochs(c):
    """ticks of the samples of the increment table (a superset of the trajectory rows)"""
    ep = c['sched']['epochs']
    rf = c.get('refine')
    if not rf:
        return list(ep)
    out = [t for t in rf.get('lead', []) if 0 <= t < ep[0]]
    for i, (a, b) in enumerate(zip(ep, ep[1:])):
        k = max(1, min(int(rf['k'][i % len(rf['k'])]), b - a))
        out += [a + (b - a) * j // k for j in range(k)]
    out.append(ep[-1])
    return sorted(set(out))


def build(c):
    """inputs of run_feedforward_filter for case c"""
    import pandas as pd
    from pyins import strapdown, measurements, sim
    traj, imu = base()
    s = c['sched']
    ep = s['epochs']
    assert all(0 <= t < len(traj) for t in ep) and all(a < b for a, b in zip(ep, ep[1:]))
    # the increment table may be FINER than the trajectory handed to the filter and may start earlier
    # (c['refine'] = dict(k=[sub-intervals per row gap], lead=[ticks of extra samples before the first row])):
    # the trajectory rows are then a sub-sample of the integrated samples, as with trajectory.iloc[::5]
    fine = inc_epochs(c)
    increments = strapdown.compute_increments_from_imu(imu.iloc[fine], 'rate')
    pva0 = traj.iloc[fine[0]]
    err = sim.generate_pva_error(3.0, 0.3, 0.2, 0.5, rng=7)
    initial = sim.perturb_pva(pva0, err)
    initial.name = pva0.name
    computed = strapdown.Integrator(initial, True).integrate(increments)
    computed = computed.loc[[_sec(t) for t in ep]]
    nominal = traj.iloc[ep] if c['nominal'] == 'truth' else computed.copy()
    meas = None
    if s['meas_mode'] == 'empty':
        meas = []
    elif s['meas_mode'] == 'list':
        meas = []
        hi = len(traj) - 1
        for k, (cls, ticks) in enumerate(s['sensors']):
            index = pd.Index([_sec(t) for t in ticks], dtype=float, name='time')
            rows = traj.iloc[[min(max(t, 0), hi) for t in ticks]]
            sd = c['msd'][k]
            if cls in ('NorthVelocity', 'BaroAltitude'):
                col = 'VN' if cls == 'NorthVelocity' else 'alt'
                noise = np.random.RandomState(11 + k).randn(len(ticks)) * sd
                data = pd.DataFrame({col: np.asarray(rows[col], dtype=float) + noise}, index=index)
                meas.append(custom_classes()[cls](data, sd))
                continue
            if cls == 'Position':
                cols = ['lat', 'lon', 'alt']
                data = sim.generate_position_measurements(rows, sd, 11 + k) if ticks else None
            elif cls == 'NedVelocity':
                cols = ['VN', 'VE', 'VD']
                data = sim.generate_ned_velocity_measurements(rows, sd, 11 + k) if ticks else None
            else:
                cols = ['VX', 'VY', 'VZ']
                data = sim.generate_body_velocity_measurements(rows, sd, 11 + k) if ticks else None
            if data is None:
                data = pd.DataFrame(np.empty((0, 3)), columns=cols)
            data = pd.DataFrame(np.asarray(data, dtype=float), index=index, columns=cols)
            if cls == 'BodyVelocity':
                meas.append(measurements.BodyVelocity(data, sd))
            else:
                lever = c['lever'][k]
                meas.append(getattr(measurements, cls)(data, sd, None if lever is None else np.array(lever)))
    if c['none_models'] and not (any(c['gm']['sm']) or any(c['am']['sm'])):
        gyro_model = accel_model = None
    else:
        gyro_model = make_model(c['gm'], c['gscale'])
        accel_model = make_model(c['am'], c['ascale'])
    return dict(traj=traj, increments=increments, initial=initial, computed=computed, nominal=nominal,
                measurements=meas, gyro_model=gyro_model, accel_model=accel_model)


# --------------------------------------------------------------------------------------
# running the real filter with the call recorder
# --------------------------------------------------------------------------------------
def _key(x, P):
    return hashlib.blake2b(np.ascontiguousarray(x, dtype=float).tobytes() + b'|' +
                           np.ascontiguousarray(P, dtype=float).tobytes(), digest_size=16).digest()


def _pos(orig, a, k):
    """the argument values of a call of `orig` in the order of its parameters (the wrapped functions may be
    called positionally or with keywords)"""
    import inspect
    b = inspect.signature(orig).bind(*a, **k)
    b.apply_defaults()
    return list(b.arguments.values())


class Recorder:
    """wraps the numerical primitives of pyins.filters for one run"""

    def __init__(self):
        self.log = []            # ('corr', dict) | ('epm', dict) in program order
        self.meas_log = []       # (sensor index, time, (z, H, R))
        self.P0 = None
        self.ff = None           # arguments of _compute_feedforward_result

    def __enter__(self):
        from pyins import filters, kalman
        self.filters, self.kalman = filters, kalman
        self.saved = [(kalman, 'correct', kalman.correct),
                      (kalman, 'compute_process_matrices', kalman.compute_process_matrices),
                      (filters, '_initialize_covariance', filters._initialize_covariance),
                      (filters, '_compute_error_propagation_matrices', filters._compute_error_propagation_matrices),
                      (filters, '_compute_feedforward_result', filters._compute_feedforward_result)]
        o_correct, o_cpm = kalman.correct, kalman.compute_process_matrices
        o_init, o_epm, o_res = (filters._initialize_covariance, filters._compute_error_propagation_matrices,
                                filters._compute_feedforward_result)
        rec = self

        def correct(*a_, **k_):
            x, P, z, H, R = _pos(o_correct, a_, k_)[:5]
            snap = [np.array(a, dtype=float, copy=True) for a in (x, P, z, H, R)]
            out = o_correct(*a_, **k_)
            rec.log.append(('corr', dict(x=snap[0], P=snap[1], z=snap[2], H=snap[3], R=snap[4],
                                         z_id=id(z), R_id=id(R),
                                         xo=np.array(out[0], copy=True), Po=np.array(out[1], copy=True),
                                         nu=np.array(out[2], copy=True),
                                         modified=not all(np.array_equal(a, b) for a, b in zip(snap, (x, P, z, H, R))))))
            return out

        def cpm(*a_, **k_):
            F, Q, dt = _pos(o_cpm, a_, k_)[:3]
            out = o_cpm(*a_, **k_)
            rec.log.append(('cpm', dict(F=np.array(F, copy=True), Q=np.array(Q, copy=True), dt=float(dt),
                                        Phi=out[0], Qd=out[1])))
            return out

        def init(*a, **k):
            P = o_init(*a, **k)
            rec.P0 = np.array(P, copy=True)
            return P

        def epm(*a_, **k_):
            pva, gyro, accel, time_delta = _pos(o_epm, a_, k_)[:4]
            n0 = len(rec.log)
            out = o_epm(*a_, **k_)
            inner = [e for e in rec.log[n0:] if e[0] == 'cpm']
            rec.log.append(('epm', dict(pva=pva.copy(), gyro=None if gyro is None else np.array(gyro, dtype=float),
                                        accel=None if accel is None else np.array(accel, dtype=float),
                                        dt=float(time_delta), Phi=out[0], Qd=out[1], n_cpm=len(inner),
                                        cpm=inner[-1][1] if inner else None,
                                        same=bool(inner and out[0] is inner[-1][1]['Phi'] and out[1] is inner[-1][1]['Qd']))))
            return out

        def res(*a_, **k_):
            x, P, trajectory_nominal, trajectory = _pos(o_res, a_, k_)[:4]
            rec.ff = dict(x=np.array(x, copy=True), P=np.array(P, copy=True),
                          times=np.array(trajectory.index, dtype=float))
            return o_res(*a_, **k_)

        kalman.correct = correct
        kalman.compute_process_matrices = cpm
        filters._initialize_covariance = init
        filters._compute_error_propagation_matrices = epm
        filters._compute_feedforward_result = res
        return self

    def __exit__(self, *a):
        for m, attr, val in reversed(self.saved):
            setattr(m, attr, val)
        return False

    def wrap_measurements(self, meas):
        for k, m in enumerate(meas or []):
            def wrap(orig, k):
                def compute_matrices(*a_, **k_):
                    time, pva = _pos(orig, a_, k_)[:2]
                    ret = orig(*a_, **k_)
                    if ret is not None:
                        self.meas_log.append((k, float(time), ret, pva.copy()))
                    return ret
                return compute_matrices
            m.compute_matrices = wrap(m.compute_matrices, k)


def run_impl(c):
    """run case c on the real filter with the recorder; returns dict(status, res, rec, inp)"""
    from pyins import filters
    try:
        inp = build(c)
    except Exception:
        return dict(status='harness-error', error=traceback.format_exc()[-1500:])
    s = c['sched']
    kw = dict(time_step=_sec(s['step']), with_altitude=bool(s['alt']))
    if inp['gyro_model'] is not None:
        kw.update(gyro_model=inp['gyro_model'], accel_model=inp['accel_model'])
    if s['meas_mode'] != 'none':
        kw['measurements'] = inp['measurements']
    if s.get('increments'):
        kw['increments'] = inp['increments']
    nst = sum(len(t) for _, t in s['sensors'])
    ns = len(s['sensors'])
    budget = 3 * (len(s['epochs']) + nst * (1 + ns)) + 8 * ns + 40
    rec = Recorder()
    try:
        with rec:
            rec.wrap_measurements(inp['measurements'])
            with S.Watchdog([filters.run_feedforward_filter.__code__], budget, 120):
                res = filters.run_feedforward_filter(inp['nominal'], inp['computed'], *c['sig'], **kw)
    except S.NonTermination as e:
        return dict(status='nonterminating', error=str(e))
    except Exception as e:
        return dict(status='exception', error=f"{type(e).__name__}: {e}", where=traceback.format_exc()[-1200:])
    return dict(status='ok', res=res, rec=rec, inp=inp)


# --------------------------------------------------------------------------------------
# call trace -> provenance terms (content hashes)
# --------------------------------------------------------------------------------------
def _tick(t):
    f = Fraction(float(t)) * DEN
    return int(f) if f.denominator == 1 else None


def call_trace(c, run):
    """Reconstruct the data flow from the recorded calls.  Returns (problems, flow) where flow =
    dict(records=[(tick, term)], final=term, calls=[...]) with terms as nested tuples
    ('init',) | ('corr', k, m_tick, t_tick, term) | ('prop', i, j, term)."""
    rec, res, inp = run['rec'], run['res'], run['inp']
    s = c['sched']
    ep = s['epochs']
    pos = {t: i for i, t in enumerate(ep)}
    problems = []
    ff = rec.ff
    if ff is None or rec.P0 is None:
        return ["_compute_feedforward_result / _initialize_covariance was not called"], None
    n = len(rec.P0)
    em_n = 9 if s['alt'] else 7
    gm, am = inp['gyro_model'], inp['accel_model']
    n_exp = em_n + (gm.n_states if gm is not None else 0) + (am.n_states if am is not None else 0)
    if rec.P0.shape != (n_exp, n_exp):
        problems.append(f"P0 shape {rec.P0.shape}, expected {(n_exp, n_exp)}")
    x0 = np.zeros(n)
    terms = {_key(x0, rec.P0): ('init',)}
    cur = (x0, rec.P0)
    cur_term = ('init',)
    names = [cls for cls, _ in s['sensors']] if s['meas_mode'] == 'list' else []
    innov_rows = {nm: list(res.innovations[nm].index) for nm in res.innovations}
    innov_vals = {nm: np.asarray(res.innovations[nm], dtype=float) for nm in res.innovations}
    innov_ptr = collections.Counter()
    meas_ptr = 0
    records = []
    calls = []
    r = 0                       # number of recorded rows consumed so far
    pending_cpm = None

    def lookup(x, P, what):
        k = _key(x, P)
        if k in terms:
            return terms[k]
        # not bit-identical: accept a state equal to the current one up to rounding (BLAS reproducibility)
        if cur is not None and np.allclose(x, cur[0], rtol=1e-11, atol=0) and np.allclose(P, cur[1], rtol=1e-11, atol=0):
            problems_soft.append(what + ": equal to the expected state only up to rounding")
            return cur_term
        problems.append(what + ": the (x, P) passed is not the output of any previous operation")
        return ('unknown',)
    problems_soft = []
    for kind, d in rec.log:
        if kind == 'corr':
            if d['modified']:
                problems.append("kalman.correct modified one of its arguments")
            if meas_ptr >= len(rec.meas_log):
                problems.append("kalman.correct called without a preceding compute_matrices")
                break
            k, mt, (z, H, R), _pva = rec.meas_log[meas_ptr]
            meas_ptr += 1
            t_in = lookup(d['x'], d['P'], f"correct #{len(calls)}")
            if t_in is not cur_term and t_in != cur_term:
                problems.append(f"correct #{len(calls)}: input state is {t_in[0]}, not the output of the previous operation")
            m = len(z)
            if d['H'].shape != (m, n) or d['x'].shape != (n,) or d['P'].shape != (n, n) or d['R'].shape != (m, m):
                problems.append(f"correct #{len(calls)}: shapes x{d['x'].shape} P{d['P'].shape} H{d['H'].shape} R{d['R'].shape}")
            else:
                if not np.array_equal(d['H'][:, :em_n], np.asarray(H, dtype=float)):
                    problems.append(f"correct #{len(calls)}: H_full[:, inertial block] is not the H of compute_matrices")
                if np.any(d['H'][:, em_n:] != 0):
                    problems.append(f"correct #{len(calls)}: H_full has non-zero columns outside the inertial block: "
                                    f"{sorted(set(np.nonzero(d['H'][:, em_n:])[1] + em_n))}")
            if d['z_id'] != id(z) and not np.array_equal(d['z'], np.asarray(z, dtype=float)):
                problems.append(f"correct #{len(calls)}: z is not the z of compute_matrices")
            if not np.array_equal(d['R'], np.asarray(R, dtype=float)):
                problems.append(f"correct #{len(calls)}: R is not the R of compute_matrices")
            nm = names[k] if k < len(names) else '?'
            j = innov_ptr[nm]
            innov_ptr[nm] += 1
            row_t = innov_rows.get(nm, [None] * (j + 1))[j] if j < len(innov_rows.get(nm, [])) else None
            if row_t is None:
                problems.append(f"correct #{len(calls)}: no innovation row #{j} for {nm}")
                tt = None
            else:
                tt = _tick(row_t)
                if not np.array_equal(innov_vals[nm][j][:m], d['nu']):
                    problems.append(f"innovations[{nm}] row {j} is not the innovation returned by correct")
            cur_term = ('corr', k, _tick(mt), tt, t_in)
            cur = (d['xo'], d['Po'])
            terms[_key(*cur)] = cur_term
            calls.append(('corr', k, _tick(mt), tt))
        elif kind == 'cpm':
            pending_cpm = d
        elif kind == 'epm':
            if d['n_cpm'] != 1 or not d['same']:
                problems.append("_compute_error_propagation_matrices does not return the result of exactly one "
                                "kalman.compute_process_matrices call")
            if r >= len(ff['times']):
                problems.append("more propagations than recorded rows")
                break
            t_rec = ff['times'][r]
            i = pos.get(_tick(t_rec))
            t_in = lookup(ff['x'][r], ff['P'][r], f"recorded row {r}")
            if t_in != cur_term:
                problems.append(f"recorded row {r} (t={t_rec}) is not the state after the corrections of this iteration "
                                f"and before the propagation")
            records.append((_tick(t_rec), t_in))
            j = None
            if i is not None:
                for jj in range(i + 1, len(ep)):
                    if _sec(ep[jj]) - _sec(ep[i]) == d['dt']:
                        j = jj
                if j is None:
                    problems.append(f"propagation {r}: time_delta {d['dt']} is not times[j] - times[{i}] for any j > i")
            else:
                problems.append(f"recorded row {r}: time {t_rec} is not an input time")
            if d['cpm'] is not None and d['cpm']['dt'] != d['dt']:
                problems.append(f"propagation {r}: compute_process_matrices got dt={d['cpm']['dt']}, time_delta={d['dt']}")
            Phi, Qd = d['Phi'], d['Qd']
            if Phi.shape != (n, n) or Qd.shape != (n, n):
                problems.append(f"propagation {r}: Phi{Phi.shape} Qd{Qd.shape}")
                break
            xn = Phi @ ff['x'][r]
            Pn = Phi @ ff['P'][r] @ Phi.transpose() + Qd
            cur_term = ('prop', i, j, t_in)
            cur = (xn, Pn)
            terms[_key(xn, Pn)] = cur_term
            calls.append(('prop', i, j))
            r += 1
    if r != len(ff['times']):
        problems.append(f"{len(ff['times'])} recorded rows but {r} propagations")
    if meas_ptr != len(rec.meas_log):
        problems.append(f"{len(rec.meas_log)} measurements returned by compute_matrices, {meas_ptr} corrections")
    flow = dict(records=records, final=cur_term, calls=calls, soft=problems_soft)
    return problems, flow


# --------------------------------------------------------------------------------------
# Coq side: the fold of the model's event trace over the free state algebra
# --------------------------------------------------------------------------------------
def _z(n):
    return str(n) if n >= 0 else f"({n})"


def _zl(l):
    return "[" + "; ".join(_z(n) for n in l) + "]%Z"


def coq_term(t):
    # iterative printer (terms are right-nested chains)
    parts = []
    close = 0
    while True:
        if t[0] == 'init':
            parts.append("TInit")
            break
        if t[0] == 'unknown':
            parts.append("(TProp 999 999 TInit)")
            break
        if t[0] == 'corr':
            _, k, m, tt, sub = t
            if m is None or tt is None:
                parts.append("(TProp 998 998 TInit)")
                break
            parts.append(f"(TCorr {k} (q {_z(m)}) (q {_z(tt)}) ")
            close += 1
            t = sub
        else:
            _, i, j, sub = t
            if i is None or j is None:
                parts.append("(TProp 997 997 TInit)")
                break
            parts.append(f"(TProp {i} {j} ")
            close += 1
            t = sub
    return "".join(parts) + ")" * close


COQ_HEAD = """From Coq Require Import List QArith Bool Arith ZArith.
From PV Require Import Model.FeedbackSched Model.FeedforwardSched Model.FilterFlow.
Import ListNotations.
Definition q (n : Z) : Q := Qmake n 128%positive.
Definition qs (l : list Z) : list Q := map q l.
Record case := mk { c_ep : list Z; c_sens : list (list Z); c_step : Z;
                    e_rec : list (Q * sterm); e_final : sterm }.
Definition diff (c : case) : list nat :=
  let times := qs (c_ep c) in
  let tr := ff_run_exact (length times + 2)%nat (q (c_step c)) times (map qs (c_sens c)) in
  let fl := t_flow tr in
  (if completed tr then [] else [0%nat]) ++
  (if recs_eqb (snd fl) (e_rec c) then [] else [1%nat]) ++
  (if sterm_eqb (fst fl) (e_final c) then [] else [2%nat]).
Definition report (cs : list case) : list (nat * list nat) :=
  filter (fun p => negb (Nat.eqb (length (snd p)) 0%nat)) (combine (seq 0 (length cs)) (map diff cs)).
"""
DIFF_NAMES = {0: 'model does not complete', 1: 'provenance of the recorded rows', 2: 'provenance of the final state'}


def coq_case(c, flow):
    s = c['sched']
    sens = [ts for _, ts in s['sensors']] if s['meas_mode'] == 'list' else []
    recs = "[" + "; ".join(f"(q {_z(t if t is not None else -1)}, {coq_term(term)})" for t, term in flow['records']) + "]"
    return ("mk " + _zl(s['epochs']) + " [" + "; ".join(_zl(t) for t in sens) + "] " + _z(s['step']) + "%Z\n    "
            + recs + "\n    " + coq_term(flow['final']))


def coq_compare(pairs, tag):
    import re
    text = COQ_HEAD + "Definition cases : list case := [\n  " + ";\n  ".join(
        coq_case(c, f) for c, f in pairs) + "\n].\nEval vm_compute in (report cases).\n"
    ok, out = common.eval_cases(tag, text, timeout=900)
    if not ok:
        return False, {}, out
    m = re.search(r'=\s*(\[.*?\])\s*:\s*list \(nat \* list nat\)', out, re.S)
    if not m:
        return False, {}, out
    body = m.group(1).replace('%nat', '')
    res = {}
    for mm in re.finditer(r'\((\d+),\s*\[([\d;\s]*)\]\)', body):
        res[int(mm.group(1))] = [int(x) for x in mm.group(2).replace(';', ' ').split()]
    if body.strip() != '[]' and not res:
        return False, {}, out
    return True, res, out


def model_flow_text(c):
    """provenance of the recorded rows according to the Coq model (text printed by coqc)"""
    s = c['sched']
    sens = [ts for _, ts in s['sensors']] if s['meas_mode'] == 'list' else []
    text = COQ_HEAD + (f"Eval vm_compute in (t_flow_show (ff_run_exact {len(s['epochs']) + 2} (q {_z(s['step'])}%Z) "
                       f"(qs {_zl(s['epochs'])}) [" + "; ".join(f"qs {_zl(t)}" for t in sens) + "])).\n")
    ok, out = common.eval_cases('c11_replay', text, timeout=300)
    return out[-3000:] if ok else "coqc failed:\n" + out[-1500:]


# --------------------------------------------------------------------------------------
# the independent one-shot Gauss-Markov reference
# --------------------------------------------------------------------------------------
def _interp_pva(a, b, alpha):
    """own interpolation of two trajectory rows: linear in lla / velocity, rotation by the weighted chordal mean"""
    from scipy.spatial.transform import Rotation
    import pandas as pd
    la = np.asarray(a[['lat', 'lon', 'alt']], dtype=float)
    lb = np.asarray(b[['lat', 'lon', 'alt']], dtype=float)
    va = np.asarray(a[['VN', 'VE', 'VD']], dtype=float)
    vb = np.asarray(b[['VN', 'VE', 'VD']], dtype=float)
    ra = Rotation.from_euler('xyz', np.asarray(a[['roll', 'pitch', 'heading']], dtype=float), degrees=True)
    rb = Rotation.from_euler('xyz', np.asarray(b[['roll', 'pitch', 'heading']], dtype=float), degrees=True)
    # weighted chordal L2 mean of two rotations = eigenvector of the weighted sum of quaternion outer products
    qa, qb = ra.as_quat(), rb.as_quat()
    M = (1 - alpha) * np.outer(qa, qa) + alpha * np.outer(qb, qb)
    w, v = np.linalg.eigh(M)
    rph = Rotation.from_quat(v[:, -1]).as_euler('xyz', degrees=True)
    vals = np.hstack([(1 - alpha) * la + alpha * lb, (1 - alpha) * va + alpha * vb, rph])
    return pd.Series(vals, index=['lat', 'lon', 'alt', 'VN', 'VE', 'VD', 'roll', 'pitch', 'heading'])


def _model_parts(m):
    """(n_states, F, G, J, P, q, v, output_matrix) of an EstimationModel (public attributes); None -> empty model"""
    if m is None:
        z = np.zeros
        return dict(n=0, F=z((0, 0)), G=z((0, 0)), J=z((3, 0)), P=z((0, 0)), q=z(0), v=z(0),
                    H=lambda r: z((3, 0)), states=[])
    return dict(n=m.n_states, F=np.asarray(m.F, float), G=np.asarray(m.G, float), J=np.asarray(m.J, float),
                P=np.asarray(m.P, float), q=np.asarray(m.q, float), v=np.asarray(m.v, float),
                H=lambda r: np.asarray(m.output_matrix(r), float), states=list(m.states))


def own_assembly(error_model, pva, gyro, accel, g, a):
    """own joint F and noise input matrix B (one column per white noise source, scaled by its intensity:
    Q = B B^T) of (ins, gyro parameters, accel parameters), written entry by entry"""
    Fii, Fig, Fia = error_model.system_matrices(pva)
    ni = Fii.shape[0]
    n = ni + g['n'] + a['n']
    Hg, Ha = g['H'](gyro), a['H'](accel)
    F = np.zeros((n, n))
    F[:ni, :ni] = Fii
    if g['n']:
        F[:ni, ni:ni + g['n']] = Fig.dot(Hg)
        F[ni:ni + g['n'], ni:ni + g['n']] = g['F']
    if a['n']:
        F[:ni, ni + g['n']:] = Fia.dot(Ha)
        F[ni + g['n']:, ni + g['n']:] = a['F']
    cols = []
    for c_ in range(g['J'].shape[1]):          # gyro output noise -> through Fig
        col = np.zeros(n)
        col[:ni] = Fig.dot(g['J'][:, c_]) * g['v'][c_]
        cols.append(col)
    for c_ in range(a['J'].shape[1]):          # accel output noise -> through Fia
        col = np.zeros(n)
        col[:ni] = Fia.dot(a['J'][:, c_]) * a['v'][c_]
        cols.append(col)
    for c_ in range(g['G'].shape[1]):          # gyro parameter driving noise
        col = np.zeros(n)
        col[ni:ni + g['n']] = g['G'][:, c_] * g['q'][c_]
        cols.append(col)
    for c_ in range(a['G'].shape[1]):
        col = np.zeros(n)
        col[ni + g['n']:] = a['G'][:, c_] * a['q'][c_]
        cols.append(col)
    B = np.array(cols).T if cols else np.zeros((n, 0))
    return F, B


_GL = None


def own_discretise(F, B, dt):
    """Phi = exp(F dt) and a factor Lq with Lq Lq^T = Qd = int_0^dt exp(F s) B B^T exp(F^T s) ds, by
    Gauss-Legendre quadrature of the DEFINITION (24 nodes on each of 2 panels; the integrand is an entire
    function dominated by low powers of s) -- no Van Loan block exponential.  The factor is obtained by a QR
    of the stacked quadrature terms, so Qd is positive semidefinite by construction and small entries keep
    their relative accuracy."""
    global _GL
    from scipy.linalg import expm
    n = len(F)
    Phi = expm(F * dt)
    if B.shape[1] == 0:
        return Phi, np.zeros((n, n))
    if _GL is None:
        _GL = np.polynomial.legendre.leggauss(24)
    xs, ws = _GL
    terms = []
    for lo, hi in ((0.0, 0.5 * dt), (0.5 * dt, dt)):
        for x, w in zip(xs, ws):
            sk = 0.5 * (hi - lo) * x + 0.5 * (hi + lo)
            terms.append(math.sqrt(w * 0.5 * (hi - lo)) * expm(F * sk).dot(B))
    Lt = np.hstack(terms).T                      # (48 p) x n,  Qd = Lt^T Lt
    R = np.linalg.qr(Lt, mode='r')
    Lq = np.zeros((n, n))
    Lq[:, :R.shape[0]] = R.T
    return Phi, Lq


def batch_reference(c, inp, res):
    """Independent one-shot solution on the filter's grid.  Returns dict(fields..., diagnostics) or raises."""
    from pyins import earth
    from pyins.error_model import InsErrorModel
    s = c['sched']
    ep = s['epochs']
    times = [_sec(t) for t in ep]
    em = InsErrorModel(bool(s['alt']))
    ni = em.n_states
    g, a = _model_parts(inp['gyro_model']), _model_parts(inp['accel_model'])
    n = ni + g['n'] + a['n']
    nominal, computed = inp['nominal'], inp['computed']
    grid_t = [float(t) for t in res.trajectory.index]
    pos = {t: i for i, t in enumerate(times)}
    grid = [pos[t] for t in grid_t]            # KeyError = a recorded time that is not an input time
    N = len(grid)
    steps = list(zip(grid, grid[1:] + [len(times) - 1]))
    # ---- prior: P0 = L0 L0^T with the structural factor L0 = diag(T diag(sd), sqrt(P_gyro), sqrt(P_accel))
    T0 = em.transform_to_internal(nominal.iloc[0])
    sd0 = np.array([c['sig'][0]] * 3 + [c['sig'][1]] * 3 + [c['sig'][2]] * 2 + [c['sig'][3]])
    n0 = 9 + g['n'] + a['n']
    L0 = np.zeros((n, n0))
    L0[:ni, :9] = T0 * sd0
    L0[ni:ni + g['n'], 9:9 + g['n']] = np.sqrt(g['P'])
    L0[ni + g['n']:, 9 + g['n']:] = np.sqrt(a['P'])
    P0 = L0.dot(L0.T)
    # ---- transition of every grid step
    incs = inp['increments'] if s.get('increments') else None
    Phis, Lqs, FQ = [], [], []
    for (i, j) in steps:
        dt = times[j] - times[i]
        pva_avg = _interp_pva(nominal.iloc[i], nominal.iloc[j], 0.5)
        if incs is None:
            gy = ac = None
        else:
            idx = np.asarray(incs.index, dtype=float)
            sel = (idx > times[i]) & (idx <= times[j])
            gy = np.asarray(incs[['theta_x', 'theta_y', 'theta_z']])[sel].sum(axis=0) / dt
            ac = np.asarray(incs[['dv_x', 'dv_y', 'dv_z']])[sel].sum(axis=0) / dt
        F, B = own_assembly(em, pva_avg, gy, ac, g, a)
        Phi, Lq = own_discretise(F, B, dt)
        Phis.append(Phi)
        Lqs.append(Lq)
        FQ.append((F, B.dot(B.T), dt, Phi, Lq.dot(Lq.T)))
    # ---- x_r = A_r xi, xi = (u_init, u_0, ..., u_{N-2}) ~ N(0, I)
    D = n0 + n * (N - 1)
    A = []
    A0 = np.zeros((n, D))
    A0[:, :n0] = L0
    A.append(A0)
    for r in range(N - 1):
        Ar = Phis[r].dot(A[r])
        Ar[:, n0 + n * r:n0 + n * (r + 1)] += Lqs[r]
        A.append(Ar)
    # ---- measurement blocks in processing order: epochs ascending, sensors in list order
    meas = inp['measurements'] or []
    lo, hi = times[0], times[-1]
    stamps = sorted({float(t) for m in meas for t in np.asarray(m.data.index, dtype=float) if lo <= t < hi})
    blocks = []          # (grid position r, sensor k, epoch, z, H_full, R)
    lost = []
    for mt in stamps:
        i = max(k for k, t in enumerate(times) if t <= mt)
        if i not in grid:
            lost.append(mt)
            continue
        r = grid.index(i)
        alpha = (mt - times[i]) / (times[i + 1] - times[i])
        pva = _interp_pva(computed.iloc[i], computed.iloc[i + 1], alpha)
        for k, m in enumerate(meas):
            ret = m.compute_matrices(mt, pva, em)
            if ret is None:
                continue
            z, H, R = ret
            Hf = np.zeros((len(z), n))
            Hf[:, :ni] = H
            blocks.append((r, k, mt, np.asarray(z, float), Hf, np.asarray(R, float)))
    rs = [b[0] for b in blocks]
    if rs != sorted(rs):
        raise RuntimeError("measurement blocks are not in grid order")
    # whitened rows
    rows_C, rows_y = [], []
    for (r, k, mt, z, Hf, R) in blocks:
        Lr = np.linalg.cholesky(R)
        rows_C.append(np.linalg.solve(Lr, Hf.dot(A[r])))
        rows_y.append(np.linalg.solve(Lr, z))
    # ---- one-shot solves, one per prefix of the measurement sequence
    sols = {}
    worst_res = 0.0
    worst_cond = 1.0

    def solve(cnt):
        nonlocal worst_res, worst_cond
        if cnt in sols:
            return sols[cnt]
        if cnt == 0:
            xi = np.zeros(D)
            Rinv = np.eye(D)
        else:
            C = np.vstack(rows_C[:cnt])
            y = np.hstack(rows_y[:cnt])
            M = np.vstack([np.eye(D), C])
            b = np.hstack([np.zeros(D), y])
            Qf, Rf = np.linalg.qr(M)
            xi = np.linalg.solve(Rf, Qf.T.dot(b))
            Rinv = np.linalg.solve(Rf, np.eye(D))
            resid = M.T.dot(M.dot(xi) - b)
            scale = np.linalg.norm(M.T.dot(b)) + 1e-300
            worst_res = max(worst_res, float(np.linalg.norm(resid) / scale))
            sv = np.linalg.svd(C, compute_uv=False)
            worst_cond = max(worst_cond, float(math.sqrt(1 + sv[0] ** 2)))
        sols[cnt] = (xi, Rinv)
        return sols[cnt]
    # ---- recorded rows
    X = np.zeros((N, n))
    Pd = np.zeros((N, n, n))
    Ws = []
    for r in range(N):
        cnt = sum(1 for b in blocks if b[0] <= r)
        xi, Rinv = solve(cnt)
        X[r] = A[r].dot(xi)
        W = A[r].dot(Rinv)
        Ws.append(W)
        Pd[r] = W.dot(W.T)
    # ---- innovations
    innov = collections.defaultdict(list)
    for jb, (r, k, mt, z, Hf, R) in enumerate(blocks):
        xi, Rinv = solve(jb)
        xm = A[r].dot(xi)
        W = Hf.dot(A[r]).dot(Rinv)
        Sm = W.dot(W.T) + R
        nu = np.linalg.solve(np.linalg.cholesky(Sm), z - Hf.dot(xm))
        innov[k].append((times[grid[r]], nu))
    # ---- output fields by own formulas
    nom_rows = nominal.iloc[grid]
    cmp_rows = computed.iloc[grid]
    T = em.transform_to_output(nom_rows)
    err = np.einsum('rij,rj->ri', T, X[:, :ni])
    # sd of the output errors from the square-root factor (no cancellation on the reference side) ...
    sd = np.array([np.sqrt(((T[r].dot(Ws[r][:ni])) ** 2).sum(axis=1)) for r in range(N)])
    # ... and the cancellation factor of diag(T P T^T) as the code has to compute it (>= 1)
    mag = np.einsum('rij,rjk,rik->ri', np.abs(T), np.abs(Pd[:, :ni, :ni]), np.abs(T))
    kappa = np.where(sd > 0, mag / np.maximum(sd ** 2, 1e-300), 1.0)
    rn, _, rp = earth.principal_radii(np.asarray(nom_rows.lat), np.asarray(nom_rows.alt))
    out = np.asarray(cmp_rows, dtype=float).copy()
    out[:, 0] -= err[:, 0] / rn / DEG
    out[:, 1] -= err[:, 1] / rp / DEG
    out[:, 2] += err[:, 2]
    out[:, 3:9] -= err[:, 3:9]
    dvar = np.sqrt(np.clip(np.einsum('rii->ri', Pd), 0, None))
    return dict(times=grid_t, trajectory=out, trajectory_sd=sd, kappa=kappa, rn=np.asarray(rn), rp=np.asarray(rp),
                gyro=X[:, ni:ni + g['n']], gyro_sd=dvar[:, ni:ni + g['n']],
                accel=X[:, ni + g['n']:], accel_sd=dvar[:, ni + g['n']:],
                gyro_states=g['states'], accel_states=a['states'],
                innov={k: v for k, v in innov.items()}, blocks=[(b[0], b[1], b[2]) for b in blocks], lost=lost,
                P0=P0, FQ=FQ, steps=steps, n=n, ni=ni, residual=worst_res, cond=worst_cond,
                X=X, P=Pd)


# tolerances: in units of the reference standard deviation of the same quantity
TOL_X = 1e-6          # |estimate difference| / sd
TOL_SD = 1e-6         # relative difference of standard deviations
TOL_NU = 1e-6         # normalised innovation (absolute; unit variance)
TOL_DISC = 1e-6       # Phi, Qd of the code (Van Loan) against exp(F dt) and the quadrature of the definition
TOL_ASM = 1e-9        # own F / Q / P0 against the matrices the code built (same formulas, relative to max entry)


def compare_fields(c, run, ref):
    """Returns (failures [text], worst ratio observed/tolerance).  A failure = a statement of C11 violated."""
    res, rec, inp = run['res'], run['rec'], run['inp']
    f = []
    worst = 0.0
    worst_name = ''
    condf = max(1.0, ref['cond'] / 1e4)

    def chk(name, diff, scale, tol):
        nonlocal worst, worst_name
        diff = np.asarray(diff, dtype=float)
        if diff.size == 0:
            return
        scale = np.broadcast_to(np.asarray(scale, dtype=float), diff.shape)
        ratio = np.abs(diff) / (tol * condf * np.maximum(scale, 1e-300))
        if not np.all(np.isfinite(ratio)):
            f.append(f"{name}: non-finite values")
            return
        w = float(ratio.max())
        if w > worst:
            worst, worst_name = w, name
        if w > 1.0:
            k = np.unravel_index(int(np.argmax(ratio)), ratio.shape)
            what = ("the harness's own assembly / discretisation from the public model objects"
                    if name.startswith(('assembled', '_initialize', 'Phi', 'Qd')) else "the one-shot Gauss-Markov solution")
            f.append(f"{name}: differs from {what} at {tuple(int(x) for x in k)} by "
                     f"{float(np.abs(diff)[k]):.3e} = {w * tol * condf:.2e} x scale {float(np.maximum(scale, 1e-300)[k]):.3e} "
                     f"(tolerance {tol * condf:.1e})")
    if ref['lost']:
        f.append(f"measurement epochs {ref['lost']} lie in a row interval that is not a grid point of the filter")
    if list(map(float, res.trajectory_sd.index)) != ref['times']:
        f.append("trajectory_sd index differs from trajectory index")
    tr = np.asarray(res.trajectory, dtype=float)
    exp = ref['trajectory']
    sd = ref['trajectory_sd']
    if tr.shape != exp.shape:
        return [f"trajectory shape {tr.shape}, expected {exp.shape}"], 1e9, 'trajectory'
    floor_pos = 1e-6      # m: resolution of a latitude in degrees (1e-15 deg ~ 1e-10 m) with margin
    d = tr - exp
    chk('trajectory.lat', d[:, 0] * DEG * ref['rn'], sd[:, 0] + floor_pos / TOL_X, TOL_X)
    chk('trajectory.lon', d[:, 1] * DEG * ref['rp'], sd[:, 1] + floor_pos / TOL_X, TOL_X)
    chk('trajectory.alt', d[:, 2], sd[:, 2] + floor_pos / TOL_X, TOL_X)
    for j, nm in zip(range(3, 9), ['VN', 'VE', 'VD', 'roll', 'pitch', 'heading']):
        chk('trajectory.' + nm, d[:, j], sd[:, j] + 1e-9 / TOL_X, TOL_X)
    tsd = np.asarray(res.trajectory_sd, dtype=float)
    chk('trajectory_sd', tsd - sd, (sd + 1e-12) * np.maximum(1.0, ref['kappa'] / 10.0), TOL_SD)
    for nm, key in (('gyro', 'gyro'), ('accel', 'accel')):
        est = np.asarray(getattr(res, nm), dtype=float)
        esd = np.asarray(getattr(res, nm + '_sd'), dtype=float)
        if list(getattr(res, nm).columns) != ref[key + '_states']:
            f.append(f"{nm} columns {list(getattr(res, nm).columns)} != model states {ref[key + '_states']}")
            continue
        if est.shape != ref[key].shape:
            f.append(f"{nm} shape {est.shape} != {ref[key].shape}")
            continue
        chk(nm, est - ref[key], ref[key + '_sd'], TOL_X)
        chk(nm + '_sd', esd - ref[key + '_sd'], ref[key + '_sd'], TOL_SD)
    names = [cls for cls, _ in c['sched']['sensors']] if c['sched']['meas_mode'] == 'list' else []
    for k, nm in enumerate(names):
        exp_rows = ref['innov'].get(k, [])
        tab = res.innovations.get(nm)
        if tab is None:
            f.append(f"innovations has no table {nm}")
            continue
        if [float(t) for t in tab.index] != [t for t, _ in exp_rows]:
            f.append(f"innovations[{nm}] index {list(tab.index)} != row times of the measurements {[t for t, _ in exp_rows]}")
            continue
        if exp_rows:
            got = np.asarray(tab, dtype=float)
            want = np.array([nu for _, nu in exp_rows])
            if got.shape != want.shape:
                f.append(f"innovations[{nm}] shape {got.shape} != {want.shape}")
            else:
                chk(f'innovations[{nm}]', got - want, np.ones_like(want) + np.abs(want), TOL_NU)
    # ---- own assembly against the matrices the code handed to its primitives (localises a discrepancy)
    if rec.P0 is not None and rec.P0.shape == ref['P0'].shape:
        chk('_initialize_covariance', rec.P0 - ref['P0'], np.sqrt(np.outer(np.diag(ref['P0']), np.diag(ref['P0']))) + 1e-300,
            TOL_ASM / condf)
    epms = [d_ for k_, d_ in rec.log if k_ == 'epm']
    if len(epms) == len(ref['FQ']):
        for r, (d_, (F, Q, dt, Phi, Qd)) in enumerate(zip(epms, ref['FQ'])):
            cp = d_['cpm']
            if cp is None or cp['F'].shape != F.shape:
                continue
            chk(f'assembled F (step {r})', cp['F'] - F, np.abs(F).max() + 1e-300, TOL_ASM / condf)
            chk(f'assembled Q (step {r})', cp['Q'] - Q, np.abs(Q).max() + 1e-300, TOL_ASM / condf)
            chk(f'Phi (step {r})', cp['Phi'] - Phi, np.abs(Phi).max(), TOL_DISC / condf)
            chk(f'Qd (step {r})', cp['Qd'] - Qd, np.abs(Qd).max() + 1e-300, TOL_DISC / condf)
    return f, worst, worst_name


# --------------------------------------------------------------------------------------
# line coverage of the implementation functions the model claims to cover (tools/linecov.py)
# --------------------------------------------------------------------------------------
COV_ALLOW = ()      # no line of the covered functions may stay unreached: the two ValueError paths of
#                     run_feedforward_filter are exercised by error_probes()


def cov_functions():
    """the ORIGINAL function objects (call before any wrapper is installed)"""
    from pyins import filters, kalman
    return {'filters.run_feedforward_filter': filters.run_feedforward_filter,
            'filters._initialize_covariance': filters._initialize_covariance,
            'filters._compute_error_propagation_matrices': filters._compute_error_propagation_matrices,
            'filters._compute_feedforward_result': filters._compute_feedforward_result,
            'filters._interpolate_pva': filters._interpolate_pva,
            'kalman.correct': kalman.correct,
            'kalman.compute_process_matrices': kalman.compute_process_matrices}


def corpus():
    """fixed cases, run first, that reach every branch of the covered functions whatever the seed:
    default models / measurements=None / no increments; measurements=[]; scale-misalignment models with
    increments; a sensor without any stamp in the span (innovation table without rows) next to sensors with
    stamps; both altitude modes; nominal = truth / computed."""
    ep = [512, 528, 544, 560, 576]
    none = dict(bias=[0, 0, 0], walk=[0, 0, 0], noise=[0, 0, 0], sm=[0] * 9)
    full = dict(bias=[1, 1, 1], walk=[1, 0, 1], noise=[1, 1, 0], sm=[1, 0, 0, 0, 1, 0, 1, 0, 1])
    bias = dict(bias=[1, 0, 1], walk=[0, 0, 0], noise=[0, 1, 0], sm=[0] * 9)
    common_ = dict(gscale=[1e-5, 1e-5, 1e-7, 1e-3], ascale=[1e-2, 1e-3, 1e-4, 1e-3], sig=[10.0, 1.0, 0.5, 2.0])

    def sched(**k):
        d = dict(filter='ff', epochs=ep, sensors=[], meas_mode='none', step=16, alt=True, increments=False,
                 cats=['corpus'])
        d.update(k)
        return d
    return [
        dict(common_, sched=sched(), gm=none, am=none, msd=[], lever=[], nominal='truth', none_models=True),
        dict(common_, sched=sched(meas_mode='empty', alt=False, increments=True, step=40), gm=full, am=bias,
             msd=[], lever=[], nominal='computed', none_models=False, refine=dict(k=[5, 2, 1, 3], lead=[505, 509])),
        dict(common_, sched=sched(meas_mode='list', increments=True, step=2,
                                  sensors=[['Position', [530, 560]], ['NedVelocity', []], ['BodyVelocity', [100, 545]],
                                           ['BaroAltitude', [512, 547]], ['NorthVelocity', [530, 575]]]),
             gm=bias, am=full, msd=[1.0, 0.3, 0.2, 0.5, 0.1], lever=[[0.5, -0.2, 0.3], None, None, None, None], nominal='truth',
             none_models=False),
        dict(common_, sched=sched(meas_mode='list', alt=False, increments=False, step=16,
                                  sensors=[['NedVelocity', [512, 575]], ['Position', [9000 - 1000]],
                                           ['NorthVelocity', [512, 529, 560]]]),
             gm=bias, am=none, msd=[0.3, 1.0, 0.2], lever=[[0.1, 0.2, 0.3], None, None], nominal='computed',
             none_models=False),
    ]


def error_probes():
    """the two documented ValueError paths of run_feedforward_filter.  Returns (problems, hit lines)."""
    import linecov
    from pyins import filters
    problems = []
    c = corpus()[1]
    inp = build(c)
    cov = linecov.LineCoverage(cov_functions())
    with cov:
        active = cov.active
        try:
            filters.run_feedforward_filter(inp['nominal'].iloc[:-1], inp['computed'].iloc[1:], *c['sig'])
            problems.append("trajectories with different time indices are accepted")
        except ValueError:
            pass
        try:
            filters.run_feedforward_filter(inp['nominal'], inp['computed'], *c['sig'], gyro_model=inp['gyro_model'],
                                           accel_model=inp['accel_model'])
            problems.append("scale/misalignment models without `increments` are accepted")
        except ValueError:
            pass
    return problems, {k: sorted(v) for k, v in cov.hit.items()}, active


def cov_finish(r, cov, active):
    if not active:
        r.log("line coverage: sys.monitoring tool id not available, not measured")
        r.coverage['code_lines'] = dict(measured=False)
        return
    summ, missing = cov.report(allow=COV_ALLOW)
    r.coverage['code_lines'] = dict(measured=True, functions=summ, allowed_unreached=list(COV_ALLOW))
    tot = sum(v['executable'] for v in summ.values())
    got = sum(v['executed'] for v in summ.values())
    r.log(f"line coverage of the modelled implementation functions: {got}/{tot} executable lines executed, "
          f"{len(missing)} unexpected unreached")
    if missing:
        r.broken('correspondence', 'code line not exercised',
                 "the generated cases never execute these lines of the code the model claims to cover: "
                 + "; ".join(missing))


# --------------------------------------------------------------------------------------
# one case, end to end
# --------------------------------------------------------------------------------------
def _work(c):
    """Returns a json-able summary: status, trace problems, flow (for Coq), batch failures, worst ratio."""
    out = dict(status='ok', trace=[], fails=[], worst=0.0, flow=None, cond=1.0, residual=0.0, soft=0)
    try:
        import linecov
        cov = linecov.LineCoverage(cov_functions())
        with cov:
            measured = cov.active
            run = run_impl(c)
        if measured:
            out['cov'] = {k: sorted(v) for k, v in cov.hit.items()}
        out['status'] = run['status']
        if run['status'] != 'ok':
            out['error'] = run.get('error')
            out['where'] = run.get('where')
            return out
        problems, flow = call_trace(c, run)
        out['trace'] = problems
        out['flow'] = flow
        out['soft'] = len(flow['soft']) if flow else 0
        res = run['res']
        tabs = [np.asarray(getattr(res, nm), dtype=float) for nm in
                ('trajectory', 'trajectory_sd', 'gyro', 'gyro_sd', 'accel', 'accel_sd')]
        if not all(np.isfinite(t).all() for t in tabs):
            out['fails'].append("non-finite values in the result tables")
            return out
        ref = batch_reference(c, run['inp'], res)
        fails, worst, wname = compare_fields(c, run, ref)
        out.update(fails=fails, worst=worst, worst_field=wname, cond=ref['cond'], residual=ref['residual'],
                   n_states=ref['n'], n_blocks=len(ref['blocks']), n_rows=len(ref['times']))
        if ref['residual'] > 1e-9:
            out['status'] = 'reference-inaccurate'
    except BaseException as e:
        out['status'] = 'harness-error'
        out['error'] = f"{type(e).__name__}: {e}\n{traceback.format_exc()[-1500:]}"
    return out


_WARM = False


def warm_up():
    global _WARM
    base()
    if not _WARM:
        c = dict(sched=dict(filter='ff', epochs=[512, 520, 528], sensors=[['Position', [514]]], meas_mode='list',
                            step=8, alt=True, increments=True, cats=[]),
                 gm=dict(bias=[1, 1, 1], walk=[0, 0, 0], noise=[1, 1, 1], sm=[0] * 9),
                 am=dict(bias=[1, 0, 0], walk=[1, 0, 0], noise=[0, 0, 0], sm=[0] * 9),
                 gscale=[1e-5, 1e-5, 1e-7, 1e-3], ascale=[1e-2, 1e-3, 1e-4, 1e-3], sig=[10, 1, 0.5, 2],
                 msd=[1.0], lever=[None], nominal='truth', none_models=False)
        _work(c)
        _work(dict(c, sched=dict(c['sched'], alt=False)))
        _WARM = True


def run_many(cases, jobs=None):
    import multiprocessing
    jobs = jobs or int(os.environ.get('VERIF_JOBS', '0')) or max(1, min(8, (os.cpu_count() or 2) // 2))
    if jobs == 1 or len(cases) < 6:
        return [_work(c) for c in cases]
    ctx = multiprocessing.get_context('fork')
    with ctx.Pool(jobs) as pool:
        return pool.map(_work, cases, chunksize=max(1, min(8, len(cases) // (4 * jobs))))


def shrink(c, pred, budget=60):
    """greedy shrink of a failing case (drop sensors / stamps / rows / model parts)"""
    c = json.loads(json.dumps(c))
    runs = [0]

    def still(x):
        if runs[0] >= budget:
            return False
        runs[0] += 1
        try:
            return pred(x)
        except Exception:
            return False
    changed = True
    while changed and runs[0] < budget:
        changed = False
        cands = []
        s = c['sched']
        for k in range(len(s['sensors'])):
            x = json.loads(json.dumps(c))
            del x['sched']['sensors'][k], x['msd'][k], x['lever'][k]
            if not x['sched']['sensors']:
                x['sched']['meas_mode'] = 'empty'
            cands.append(x)
        for k, (_, ts) in enumerate(s['sensors']):
            for j in range(len(ts)):
                x = json.loads(json.dumps(c))
                del x['sched']['sensors'][k][1][j]
                cands.append(x)
        if len(s['epochs']) > 2:
            for j in range(len(s['epochs']) - 1, 0, -1):
                x = json.loads(json.dumps(c))
                del x['sched']['epochs'][j]
                cands.append(x)
        for which in ('gm', 'am'):
            for fld in ('sm', 'walk', 'noise', 'bias'):
                if any(c[which][fld]):
                    x = json.loads(json.dumps(c))
                    x[which][fld] = [0] * len(x[which][fld])
                    if fld == 'bias':
                        x[which]['walk'] = [0, 0, 0]
                    cands.append(x)
        for x in cands:
            if still(x):
                c = x
                changed = True
                break
    c['sched']['cats'] = ['shrunk']
    return c


def failing(c):
    o = _work(c)
    return bool(o['status'] == 'ok' and (o['fails'] or o['trace'])) or o['status'] in ('exception', 'nonterminating')


def process(r, cases, label, max_report=3):
    t = time.time()
    results = []
    for lo in range(0, len(cases), 64):
        results += run_many(cases[lo:lo + 64])
        if sum(1 for o in results if o['fails'] or o['trace']) >= 4 and len(results) < len(cases):
            r.log(f"{label}: failures found, skipping the remaining {len(cases) - len(results)} cases")
            cases = cases[:len(results)]
            break
    r.log(f"{label}: {len(cases)} cases run on the implementation (recorder + one-shot reference) in {time.time() - t:.1f}s")
    dist = r.coverage.setdefault('distribution', collections.Counter())
    pairs = []
    nviol = nbroken = 0
    worst = r.coverage.setdefault('worst_ratio_observed_over_tolerance', 0.0)
    for c, o in zip(cases, results):
        if o.get('cov') is not None and getattr(r, 'linecov', None) is not None:
            r.linecov.merge(o['cov'])
            r.linecov_measured = True
        s = c['sched']
        for cat in s.get('cats', []):
            dist[cat] += 1
        dist['gyro states:%d' % (sum(c['gm']['bias']) + sum(c['gm']['sm']))] += 1
        dist['accel states:%d' % (sum(c['am']['bias']) + sum(c['am']['sm']))] += 1
        dist['nominal:' + c['nominal']] += 1
        dist['increments:' + ('finer than the trajectory' if c.get('refine') else 'same rows' if s.get('increments') else 'not passed')] += 1
        dist['models:' + ('None' if c['none_models'] else 'given')] += 1
        r.case(key_of(c), sample=dict(case={k: v for k, v in c.items()},
                                      summary={k: o.get(k) for k in ('status', 'worst', 'cond', 'n_states', 'n_blocks', 'n_rows')}),
               nontrivial=o.get('n_blocks', 0) > 0 or o.get('n_rows', 0) > 1)
        if o['status'] == 'harness-error':
            r.broken('harness', f'{label}: could not run a case', o.get('error'))
            continue
        if o['status'] == 'reference-inaccurate':
            r.log(f"{label}: reference residual {o['residual']:.1e} too large on one case; skipped")
            continue
        if o['status'] != 'ok':
            nbroken += 1
            if nbroken <= max_report:
                r.broken('correspondence', f"{label}: implementation {o['status']}", dict(case=c, error=o.get('error'), where=o.get('where')))
            continue
        worst = max(worst, o['worst'])
        if o['fails']:
            nviol += 1
            if nviol <= max_report:
                small = shrink(c, lambda x: bool(_work(x)['fails']))
                so = _work(small)
                msg = (so['fails'] or o['fails'])[0]
                r.log(f"PROPERTY FAILS on the implementation: {msg}")
                r.violation(msg, dict(case=small, failures=so['fails'] or o['fails'], trace=so['trace'], original=c))
        if o['trace']:
            nbroken += 1
            if nbroken <= max_report:
                r.broken('correspondence', f"{label}: call trace: {o['trace'][0]}", json.dumps(dict(case=c, problems=o['trace']))[:1800])
        if o['flow'] is not None:
            pairs.append((c, o['flow']))
    r.coverage['worst_ratio_observed_over_tolerance'] = worst
    t = time.time()
    nbad = 0
    for lo in range(0, len(pairs), 300):
        shard = pairs[lo:lo + 300]
        ok, resd, out = coq_compare(shard, f"c11_{label.split()[0]}_{lo}")
        if not ok:
            r.broken('correspondence', f'{label}: coqc failed on the case file', out[-2000:])
            continue
        for i, codes in sorted(resd.items()):
            nbad += 1
            if nbad <= max_report:
                c, fl = shard[i]
                r.broken('correspondence', f"{label}: model and implementation differ in "
                         + ", ".join(DIFF_NAMES.get(x, str(x)) for x in codes),
                         json.dumps(dict(case=c, records=[(t_, coq_term(tm)) for t_, tm in fl['records']]))[:1800])
    r.log(f"{label}: {len(pairs)} data-flow traces compared exactly in Coq in {time.time() - t:.1f}s, {nbad} mismatch(es), "
          f"{nviol} property failure(s), worst ratio {worst:.3g}")
    r.coverage.setdefault('correspondence', {})[label] = dict(
        cases=len(cases), compared_in_coq=len(pairs), mismatches=nbad, property_failures=nviol,
        soft_hash_matches=sum(o.get('soft', 0) for o in results))
    return nbad, nviol


def check(r):
    r.trusted += [
        "hand-written data-flow model Model/FilterFlow.v on top of Model/FeedforwardSched.v (tied to "
        "pyins/filters.py by the exact comparison of the provenance of every recorded (x, P) on generated cases)",
        "generated MathComp terms of kalman.correct / compute_process_matrices (Gen/Kalman.v, tools/gen_mx.py) and of "
        "_initialize_covariance / _compute_error_propagation_matrices (Gen/C11Mx.v, tools/reg/c11.py on top of gen_mx: "
        "P_pva enters as an opaque diagonal parameter whose recorded assignments are checked, np.diag(q**2) as the "
        "primitive diag_sq); real-number formulas of _compute_feedforward_result (Gen/C11Gen.v, tools/sym.py)",
        "numpy / scipy linear algebra (expm, cholesky, QR) as used by the code and by the independent reference",
        "binary64 time arithmetic is exact on the generated (dyadic) stamps",
    ]
    r.assumptions += [
        "Tier B: kalman_eq_batch_pd needs P0, R_k, Qd_k positive definite; kalman_eq_batch_singular_noise covers the "
        "class of the real system -- Qd_k = Gam_k Gam_k^T of ANY rank, Phi_k invertible, P0 and R_k positive definite, "
        "any N -- through the noise-parametrised batch problem (free variables x_0, w_k; no inverse of Qd); that "
        "scipy's expm returns an invertible Phi and a Van Loan Qd that is a Gram matrix are hypotheses (properties "
        "of the exact exponential, C08)",
        "floating-point agreement of the recursion with a batch solver is a numerical statement checked with "
        "tolerances relative to the reported standard deviations",
    ]
    import gen
    import importlib
    regc11 = importlib.import_module('reg.c11')
    regc11.run_generate_mx(r)    # matrix-granularity trace of the two assembly functions -> Gen/C11Mx.v
    r.generate(['C11Gen'])       # traces _compute_feedforward_result (tools/reg/c11.py), validates, rewrites Gen/C11Gen.v
    r.prove('Props/C11.v')
    warm_up()
    import linecov
    r.linecov = linecov.LineCoverage(cov_functions())
    r.linecov_measured = False
    problems, hits, active = error_probes()
    if active:
        r.linecov.merge(hits)
        r.linecov_measured = True
    for pr in problems:
        r.broken('correspondence', 'documented error path', pr)
    process(r, corpus(), 'corpus')
    rng = random.Random(r.seed * 1000003 + 11)
    n = 200 if r.tier == 'quick' else 3000
    nmax = 10 if r.tier == 'quick' else 12
    cases = [gen_case(rng, nmax) for _ in range(n)]
    process(r, cases, 'random')
    cov_finish(r, r.linecov, r.linecov_measured)
    r.coverage['distribution'] = dict(sorted(r.coverage['distribution'].items()))
    if r.tier == 'thorough':
        r.hygiene('Props/C11.v')
        r.coqchk('Props/C11.v')


def falsify(r):
    """independent search on the implementation only: one-shot reference vs all result fields"""
    warm_up()
    rng = random.Random(r.seed * 7919 + 1311)
    cases = [gen_case(rng, 7) for _ in range(80)]
    results = run_many(cases)
    found = 0
    for c, o in zip(cases, results):
        if o['status'] == 'ok' and o['fails']:
            small = shrink(c, lambda x: bool(_work(x)['fails']))
            so = _work(small)
            msg = (so['fails'] or o['fails'])[0]
            r.log(f"falsifier: {msg}")
            r.violation(msg, dict(case=small, failures=so['fails'] or o['fails'], original=c))
            found += 1
            if found >= 2:
                break
        elif o['status'] in ('exception', 'nonterminating'):
            r.log(f"falsifier: filter {o['status']}: {o.get('error')}")
            r.violation(f"run_feedforward_filter {o['status']}: {o.get('error')}", dict(case=c, failures=[o.get('error')]))
            found += 1
            if found >= 2:
                break
    r.log(f"falsifier: {len(cases)} cases, {found} failing input(s) reported")


def replay(obj):
    rep = obj.get('replay', obj)
    c = rep['case']
    warm_up()
    print("case for pyins.filters.run_feedforward_filter (time unit = 1/%d s):" % DEN)
    print("  ", json.dumps(c))
    run = run_impl(c)
    print("implementation status:", run['status'], run.get('error', ''))
    if run['status'] != 'ok':
        return 1
    problems, flow = call_trace(c, run)
    print("call trace reconstructed from the recorded calls (content hashes):")
    for t, term in flow['records']:
        print(f"    row t={t}: {coq_term(term)}")
    print(f"    final: {coq_term(flow['final'])}")
    for p in problems:
        print("    TRACE PROBLEM:", p)
    print("model (Coq, vm_compute):")
    print(model_flow_text(c))
    ref = batch_reference(c, run['inp'], run['res'])
    fails, worst, wname = compare_fields(c, run, ref)
    print(f"one-shot Gauss-Markov reference: {ref['n']} states, {len(ref['times'])} rows, {len(ref['blocks'])} measurement "
          f"blocks, cond {ref['cond']:.2e}, normal-equation residual {ref['residual']:.1e}; worst ratio observed/tolerance {worst:.3g} ({wname})")
    if fails or problems:
        print("PROPERTY FAILS:")
        for f in fails + problems:
            print("   -", f)
        return 1
    print("all result fields agree with the one-shot solution on this case")
    return 0
