"""C17 — Attitude representations and rotation primitives are consistent.

Tie: translator (mat_from_rotvec both branches, mat_from_rph, mat_to_rph o mat_from_rph,
_phi_to_delta_rph, single and stacked forms) -> Gen/NumbaIntegrate.v, Gen/Transform.v,
Gen/C17Gen.v; theorems in Props/C17.v against the closed-form exponential map and the
as_euler spec of Spec/LibSpecs.v.  Numerical statement checks on the implementation
(closed form / scipy Rotation / expm comparison, Euler round trips, conventions, stacked
vs single, finite differences of the Euler angles under a platform rotation, also through the
attitude block of InsErrorModel.transform_to_output on relabelled / reordered inputs) run as
support and as the falsifier; margins are >= 100x above rounding.
"""
import math
import random
import numpy as np

RULE = ("translator: every traced function is validated on 60 random inputs per run (irrun vs real "
        "function, scipy stubs included); numeric support: rotation vectors log-uniform in |v| in "
        "[1e-12, pi] plus a dense cluster around the branch threshold |v| = 1e-3 plus |v| = pi - 10^-k (k=1..12), "
        "exactly pi and just above pi in 7 directions (compiled function and "
        ".py_func), Euler triples with roll/heading in [-360, 360] incl. +-180/+-360 and |pitch| up to "
        "89.9, random small rotations phi for the Jacobian; InsErrorModel(with_altitude in {True, False})."
        "transform_to_output on Pva Series / Trajectory DataFrames with 8 column layouts (attitude before velocity, "
        "heading-pitch-roll order, reversed, shuffled, extra columns), roll/heading in [-360, 360], |pitch| <= 85; "
        "histories of 2-4 calls with equal sample count whose results are kept and re-verified after all calls; "
        "rotation vectors also at 1e-3 (1 +- 2^-k), k = 1..52, and log-uniform in [1e-5, 1e-2] at 8 eps against a "
        "60-digit exponential map; a case is distinct by its rounded input")

EPS = 2.220446049250313e-16
TOL = 100 * EPS            # 100x unit roundoff, scaled by the magnitude of what is compared


# --------------------------------------------------------------------------------------------
# independent oracles

def expmap_exact(v):
    """exp([v x]) from the power series of cos n, sin n / n, (1 - cos n)/n^2 in n^2 with 60-digit decimal
    arithmetic on the exact binary64 inputs, each entry correctly rounded to binary64 at the end."""
    from decimal import Decimal, localcontext
    with localcontext() as ctx:
        ctx.prec = 60
        x, y, z = (Decimal(float(t)) for t in v)
        n2 = x * x + y * y + z * z
        c = k1 = k2 = Decimal(0)
        term = Decimal(1)                     # (-n2)^k / (2k)!
        k = 0
        while abs(term) > Decimal(10) ** -55:
            c += term
            k1 += term / (2 * k + 1)
            k2 += term / ((2 * k + 1) * (2 * k + 2))
            k += 1
            term = -term * n2 / ((2 * k - 1) * (2 * k))
        m = [[k2 * x * x + c, k2 * x * y - k1 * z, k2 * x * z + k1 * y],
             [k2 * y * x + k1 * z, k2 * y * y + c, k2 * y * z - k1 * x],
             [k2 * z * x - k1 * y, k2 * z * y + k1 * x, k2 * z * z + c]]
        return np.array([[float(e) for e in row] for row in m])


def rzryrx(rph):
    r, p, h = (math.radians(float(t)) for t in rph)
    cr, sr, cp, sp, ch, sh = math.cos(r), math.sin(r), math.cos(p), math.sin(p), math.cos(h), math.sin(h)
    rz = np.array([[ch, -sh, 0], [sh, ch, 0], [0, 0, 1]])
    ry = np.array([[cp, 0, sp], [0, 1, 0], [-sp, 0, cp]])
    rx = np.array([[1, 0, 0], [0, cr, -sr], [0, sr, cr]])
    return rz @ ry @ rx


def angdist(a, b):
    """distance of two angles in degrees modulo 360"""
    d = math.radians(a - b)
    return abs(math.degrees(math.atan2(math.sin(d), math.cos(d))))


def skew(v):
    return np.array([[0, -v[2], v[1]], [v[2], 0, -v[0]], [-v[1], v[0], 0]], dtype=float)


# --------------------------------------------------------------------------------------------
# single-case checks on the implementation: return None if fine, else a description

def check_rotvec(v, py):
    from pyins import _numba_integrate as ni
    from scipy.spatial.transform import Rotation
    from scipy.linalg import expm
    v = np.array(v, dtype=float)
    f = ni.mat_from_rotvec.py_func if py and hasattr(ni.mat_from_rotvec, 'py_func') else ni.mat_from_rotvec
    m = np.full((3, 3), np.nan)
    n = float(np.linalg.norm(v))
    try:
        with np.errstate(all='ignore'):
            f(v, m)
    except Exception as e:          # the routine must be total on rotation vectors
        return (f"mat_from_rotvec ({'py_func' if py else 'compiled'}) raised {type(e).__name__}: {e} "
                f"at |v| = {n!r}")
    if not np.isfinite(m).all():
        return f"mat_from_rotvec ({'py_func' if py else 'compiled'}) returned non-finite entries at |v| = {n!r}"
    want = expmap_exact(v)
    # every entry absolutely: 500 eps in general (observed worst 3.5 eps, near pi).  Around the branch threshold,
    # |v| in [1e-5, 1e-2], both branches evaluate 1 - n^2/2 (+...) resp. cos n and tiny products: every entry is
    # within 1 ulp(1) = 2.2e-16 of the exact value by forward error analysis (cos/sin to 1 ulp; observed worst
    # 0.5 eps over 4e4 vectors), the k2 cancellation just above the threshold included (<= 1.1e-16 n^2/n^2):
    # there the tolerance is 8 eps = 1.8e-15, so that a lowered series order or a jump between the branches of
    # more than a few ulp is a counterexample.
    abs_tol = 8 * EPS if 1e-5 <= n <= 1e-2 else 5 * TOL
    err = np.abs(m - want)
    if (err > abs_tol).any():
        i, j = np.unravel_index(np.argmax(err), (3, 3))
        return (f"mat_from_rotvec differs from the exponential map: entry ({i},{j}) off by {err[i, j]:.3e} "
                f"(allowed {abs_tol:.3e}) at |v| = {n:.6e}")
    # ... and the skew part (M - M^T)/2 = sin|v|/|v| [v x], which carries the small rotation itself,
    # relative to |v|
    sk = np.array([m[2, 1] - m[1, 2], m[0, 2] - m[2, 0], m[1, 0] - m[0, 1]]) / 2
    k1 = math.sin(n) / n if n > 0 else 1.0
    e2 = np.abs(sk - k1 * v)
    if (e2 > TOL * n * (1 + n)).any():
        return (f"skew part of mat_from_rotvec differs from sin|v|/|v| v by {e2.max():.3e} "
                f"(allowed {TOL * n * (1 + n):.3e}) at |v| = {n:.6e}")
    if np.abs(m.T @ m - np.eye(3)).max() > 20 * TOL or abs(np.linalg.det(m) - 1) > 20 * TOL:
        return f"mat_from_rotvec result is not a proper rotation at |v| = {n:.6e}"
    if np.abs(m @ v - v).max() > 20 * TOL * max(n, 1e-300):
        return f"mat_from_rotvec does not fix its axis at |v| = {n:.6e}"
    sc = Rotation.from_rotvec(v).as_matrix()
    if np.abs(m - sc).max() > 1e-13:
        return f"mat_from_rotvec differs from scipy Rotation.from_rotvec by {np.abs(m - sc).max():.3e}"
    ex = expm(skew(v))
    if np.abs(m - ex).max() > 1e-12:
        return f"mat_from_rotvec differs from scipy.linalg.expm by {np.abs(m - ex).max():.3e}"
    return None


def check_rph(rph):
    from pyins import transform
    rph = np.array(rph, dtype=float)
    m = transform.mat_from_rph(rph)
    if np.abs(m.T @ m - np.eye(3)).max() > 20 * TOL or abs(np.linalg.det(m) - 1) > 20 * TOL:
        return "mat_from_rph is not a proper rotation"
    want = rzryrx(rph)
    if np.abs(m - want).max() > 20 * TOL:
        return (f"mat_from_rph != Rz(heading) Ry(pitch) Rx(roll) (degrees): max entry difference "
                f"{np.abs(m - want).max():.3e}")
    r, p, h = (math.radians(t) for t in rph)
    nose = np.array([math.cos(p) * math.cos(h), math.cos(p) * math.sin(h), -math.sin(p)])
    if np.abs(m[:, 0] - nose).max() > 20 * TOL:
        return "body x axis is not (cos p cos h, cos p sin h, -sin p) in NED"
    if abs(m[2, 1] - math.sin(r) * math.cos(p)) > 20 * TOL:
        return "down component of the body y axis is not sin(roll) cos(pitch)"
    if abs(rph[1]) <= 89.9:
        back = transform.mat_to_rph(m)
        cp = math.cos(p)
        tol = 1e-9 + 1e-12 / cp
        d = [angdist(back[0], rph[0]), abs(back[1] - rph[1]), angdist(back[2], rph[2])]
        if d[0] > tol or d[1] > 1e-9 + 1e-12 / cp or d[2] > tol:
            return (f"mat_to_rph(mat_from_rph(rph)) != rph modulo 360: got {list(map(float, back))}, "
                    f"angular differences {d}")
    return None


def check_stacked(rphs):
    from pyins import transform, error_model
    rphs = np.array(rphs, dtype=float)
    ms = transform.mat_from_rph(rphs)
    bs = transform.mat_to_rph(ms)
    ts = error_model._phi_to_delta_rph(rphs)
    for i, rph in enumerate(rphs):
        m1 = transform.mat_from_rph(rph)
        if np.abs(ms[i] - m1).max() > 4 * EPS:
            return f"row {i} of stacked mat_from_rph differs from the single call"
        b1 = transform.mat_to_rph(m1)
        if max(angdist(bs[i][k], b1[k]) for k in range(3)) > 1e-10:
            return f"row {i} of stacked mat_to_rph differs from the single call"
        t1 = error_model._phi_to_delta_rph(rph)
        if np.abs(ts[i] - t1).max() > 4 * EPS * max(1.0, np.abs(t1).max()):
            return f"row {i} of stacked _phi_to_delta_rph differs from the single call"
    return None


def fd_euler_rate(rph, phi, eps=1e-5):
    """d/d eps mat_to_rph(Rot(-eps phi) mat_from_rph(rph)) at 0 by central differences (degrees per unit eps)"""
    from pyins import transform
    from scipy.spatial.transform import Rotation
    c = transform.mat_from_rph(np.array(rph, dtype=float))
    phi = np.array(phi, dtype=float)
    plus = transform.mat_to_rph(Rotation.from_rotvec(-eps * phi).as_matrix() @ c)
    minus = transform.mat_to_rph(Rotation.from_rotvec(eps * phi).as_matrix() @ c)
    return np.array([((plus[k] - minus[k] + 180) % 360 - 180) / (2 * eps) for k in range(3)])


CANON = ['lat', 'lon', 'alt', 'VN', 'VE', 'VD', 'roll', 'pitch', 'heading']


def _container(rows, order, stacked):
    import pandas as pd
    if stacked:
        return pd.DataFrame({c: [float(r[c]) for r in rows] for c in order},
                            index=pd.Index([0.5 * i for i in range(len(rows))], name='time'))
    return pd.Series({c: float(rows[0][c]) for c in order})


def check_output(with_altitude, stacked, order, rows, phi):
    """attitude block of InsErrorModel.transform_to_output on a Pva Series / Trajectory DataFrame whose labelled
    columns are in the given order (possibly with extra columns): must equal the block obtained from the
    canonical layout and be the derivative of the Euler angles of Rot(-phi) C(rph) with respect to phi."""
    from pyins import error_model
    em = error_model.InsErrorModel(with_altitude=with_altitude)
    pcols = [6, 7, 8] if with_altitude else [4, 5, 6]
    got = np.asarray(em.transform_to_output(_container(rows, order, stacked)), dtype=float)
    ref = np.asarray(em.transform_to_output(_container(rows, CANON, stacked)), dtype=float)
    ns = 9 if with_altitude else 7
    want_shape = (len(rows), 9, ns) if stacked else (9, ns)
    if got.shape != want_shape:
        return f"transform_to_output has shape {got.shape}, expected {want_shape}"
    if not stacked:
        got, ref = got[None], ref[None]
    phi = np.array(phi, dtype=float)
    for i, row in enumerate(rows):
        blk = got[i][6:9][:, pcols]
        rblk = ref[i][6:9][:, pcols]
        if not np.isfinite(blk).all() or np.abs(blk - rblk).max() > 4 * EPS * max(1.0, np.abs(rblk).max()):
            return (f"attitude block of transform_to_output depends on the column ORDER of the labelled input "
                    f"(row {i}): with columns {order} it is {blk.tolist()}, with the canonical layout {rblk.tolist()}")
        rest = np.delete(got[i][6:9], pcols, axis=1)
        if np.abs(rest).max() != 0:
            return f"attitude rows of transform_to_output have non-zero entries outside the phi columns (row {i})"
        rph = [row['roll'], row['pitch'], row['heading']]
        d = blk @ phi
        fd = fd_euler_rate(rph, phi)
        cp = math.cos(math.radians(row['pitch']))
        if np.abs(fd - d).max() > 1e-6 * (1 + np.abs(fd).max()) / cp ** 2:
            return (f"attitude block of transform_to_output times phi = {d.tolist()} but the Euler angles of "
                    f"Rot(-eps phi) C(rph) change at the rate {fd.tolist()} (row {i}, rph = {rph})")
    return None


def check_history(with_altitude, stacked, batches, phi):
    """results are VALUES: transform_to_output (and mat_from_rph / mat_to_rph / _phi_to_delta_rph) is called for a
    sequence of inputs with the same sample count, all results are kept, and each one is verified immediately AND
    after all the calls were made (unchanged, and its attitude block still the Euler-angle derivative at ITS rph)."""
    from pyins import error_model, transform
    em = error_model.InsErrorModel(with_altitude=with_altitude)
    pcols = [6, 7, 8] if with_altitude else [4, 5, 6]
    phi = np.array(phi, dtype=float)

    def verify(res, rows, when, ib):
        arr = np.asarray(res, dtype=float)
        arr = arr if stacked else arr[None]
        for i, row in enumerate(rows):
            rph = [row['roll'], row['pitch'], row['heading']]
            d = arr[i][6:9][:, pcols] @ phi
            fd = fd_euler_rate(rph, phi)
            cp = math.cos(math.radians(row['pitch']))
            if not np.isfinite(d).all() or np.abs(fd - d).max() > 1e-6 * (1 + np.abs(fd).max()) / cp ** 2:
                return (f"transform_to_output result of call #{ib} (row {i}, rph = {rph}) checked {when}: attitude "
                        f"block times phi = {d.tolist()}, Euler-angle rate of Rot(-eps phi) C(rph) = {fd.tolist()}")
        return None

    kept = []
    for ib, rows in enumerate(batches):
        cont = _container(rows, CANON, stacked)
        rphs = np.array([[r_['roll'], r_['pitch'], r_['heading']] for r_ in rows])
        rphs = rphs if stacked else rphs[0]
        mats = transform.mat_from_rph(rphs)
        res = dict(T=em.transform_to_output(cont), C=mats, rph=transform.mat_to_rph(mats),
                   J=error_model._phi_to_delta_rph(rphs))
        what = verify(res['T'], rows, 'immediately', ib)
        if what:
            return what
        kept.append((res, {k: np.array(v, dtype=float, copy=True) for k, v in res.items()}))
    for ib, (res, snap) in enumerate(kept):
        for k, nm in (('T', 'transform_to_output'), ('C', 'mat_from_rph'), ('rph', 'mat_to_rph'),
                      ('J', '_phi_to_delta_rph')):
            if not np.array_equal(np.asarray(res[k], dtype=float), snap[k]):
                return (f"the result of {nm} call #{ib} of {len(kept)} (same sample count) was changed by a later "
                        f"call: max difference {np.abs(np.asarray(res[k], dtype=float) - snap[k]).max():.3e}")
        what = verify(res['T'], batches[ib], 'after all calls', ib)
        if what:
            return what
    return None


def check_jacobian(rph, phi):
    """_phi_to_delta_rph(rph) phi  vs  d/d eps mat_to_rph(Rot(-eps phi) C(rph)) at 0 (central differences),
    and the matrix identity  sum_k dC/d angle_k (T phi)_k = -[phi x] C."""
    from pyins import transform, error_model
    from scipy.spatial.transform import Rotation
    rph = np.array(rph, dtype=float)
    phi = np.array(phi, dtype=float)
    c = transform.mat_from_rph(rph)
    t = error_model._phi_to_delta_rph(rph)
    d = t @ phi
    cp = math.cos(math.radians(rph[1]))
    fd = fd_euler_rate(rph, phi)
    tol = 1e-6 * (1 + np.abs(d).max()) / cp ** 2
    if np.abs(fd - d).max() > tol:
        return (f"_phi_to_delta_rph(rph) phi = {list(map(float, d))} but the Euler angles of Rot(-eps phi) C "
                f"change at the rate {list(map(float, fd))}")
    h = 1e-4
    lhs = np.zeros((3, 3))
    for k in range(3):
        e = np.zeros(3)
        e[k] = h
        lhs += (transform.mat_from_rph(rph + e) - transform.mat_from_rph(rph - e)) / (2 * h) * d[k]
    rhs = -skew(phi) @ c
    if np.abs(lhs - rhs).max() > 1e-8 * (1 + np.abs(d).max()):
        return (f"sum_k dC/d angle_k (T phi)_k != -[phi x] C: max entry difference "
                f"{np.abs(lhs - rhs).max():.3e}")
    return None


CHECKS = dict(rotvec=lambda o: check_rotvec(o['v'], o['py']),
              rph=lambda o: check_rph(o['rph']),
              stacked=lambda o: check_stacked(o['rphs']),
              jacobian=lambda o: check_jacobian(o['rph'], o['phi']),
              history=lambda o: check_history(o['with_altitude'], o['stacked'], o['batches'], o['phi']),
              output=lambda o: check_output(o['with_altitude'], o['stacked'], o['order'], o['rows'], o['phi']))


# --------------------------------------------------------------------------------------------
# input generation

def _unit(rng):
    while True:
        u = np.array([rng.gauss(0, 1) for _ in range(3)])
        n = np.linalg.norm(u)
        if n > 1e-3:
            return u / n


def _rotvecs(rng, n):
    out = []
    axes = [np.array(a, dtype=float) for a in ([1, 0, 0], [0, 1, 0], [0, 0, 1], [0, 0, -1])]
    for a in axes:                                   # axis-aligned, incl. exactly at the threshold
        for mag in (1e-3, math.pi, math.pi / 2, 1e-12):
            out.append(a * mag)
    out.append(np.zeros(3))
    # the upper end of the quantifier: |v| = pi - 10^-k (k = 1..12), exactly pi, and just above pi
    # (1 + cos|v| -> 0 there), axis-aligned and oblique directions
    dirs = axes[:3] + [-axes[0], np.array([1.0, 1.0, 0.0]) / math.sqrt(2), _unit(rng), _unit(rng)]
    mags = [math.pi - 10.0 ** -k for k in range(1, 13)]
    mags += [math.pi, math.nextafter(math.pi, 0.0), math.nextafter(math.pi, 4.0)]
    mags += [math.pi + 10.0 ** -k for k in (1, 2, 4, 6, 8, 10, 12)]
    for a in dirs:
        for mag in mags:
            out.append(a * mag)
    # both sides of the branch threshold: |v| = 1e-3 (1 +- 2^-k), k = 1..52, and log-uniform in [1e-5, 1e-2]
    for a in (axes[1], np.array([1.0, -1.0, 1.0]) / math.sqrt(3), _unit(rng)):
        for k in range(1, 53):
            for sgn in (-1.0, 1.0):
                out.append(a * (1e-3 * (1 + sgn * 2.0 ** -k)))
    for _ in range(max(40, n // 3)):
        out.append(_unit(rng) * 10 ** rng.uniform(-5, -2))
    k = n // 3
    for _ in range(k):                               # dense around |v| = 1e-3 (|v|^2 = 1e-6)
        u = _unit(rng)
        mag = 1e-3 * (1 + rng.choice([1e-15, 1e-12, 1e-9, 1e-6, 1e-3, 1e-1]) * rng.uniform(-1, 1))
        out.append(u * mag)
    while len(out) < n:                              # log-uniform in [1e-12, pi]
        u = _unit(rng)
        mag = 10 ** rng.uniform(-12, math.log10(math.pi))
        out.append(u * min(mag, math.pi))
    return out


def _rphs(rng, n):
    out = []
    sp_a = [-360.0, -270.0, -180.0, -90.0, 0.0, 90.0, 180.0, 270.0, 360.0, 179.999999, -179.999999]
    sp_p = [-89.9, -89.0, -45.0, 0.0, 1e-9, 45.0, 89.0, 89.9]
    for p in sp_p:
        out.append((rng.choice(sp_a), p, rng.choice(sp_a)))
        out.append((rng.uniform(-360, 360), p, rng.choice(sp_a)))
    while len(out) < n:
        p = rng.choice([rng.uniform(-89.9, 89.9), rng.uniform(-60, 60)])
        out.append((rng.uniform(-360, 360), p, rng.uniform(-360, 360)))
    return out


def _layouts(rng):
    """column orders of a labelled Pva / Trajectory: permutations of the nine columns, optionally with extras"""
    att_first = ['lat', 'lon', 'alt', 'roll', 'pitch', 'heading', 'VN', 'VE', 'VD']
    hpr = ['lat', 'lon', 'alt', 'VN', 'VE', 'VD', 'heading', 'pitch', 'roll']
    rev = list(reversed(CANON))
    sh = list(CANON)
    rng.shuffle(sh)
    sh2 = list(CANON) + ['extra']
    rng.shuffle(sh2)
    return [att_first, hpr, rev, sh, ['extra'] + att_first, sh2, CANON + ['extra'], ['extra'] + CANON]


def _pva_row(rng):
    return dict(lat=rng.uniform(-80, 80), lon=rng.uniform(-180, 180), alt=rng.uniform(-100, 5000),
                VN=rng.uniform(-50, 50), VE=rng.uniform(-50, 50), VD=rng.uniform(-5, 5),
                roll=rng.choice([rng.uniform(-360, 360), rng.uniform(-180, 180)]),
                pitch=rng.choice([rng.uniform(-85, 85), rng.uniform(-60, 60), 85.0, -85.0]),
                heading=rng.choice([rng.uniform(-360, 360), rng.uniform(-180, 180), 360.0, -360.0]),
                extra=rng.uniform(-1000, 1000))


def numeric_statements(r, n):
    """Check the property's own statements on the implementation.  Returns [(what, replay)]."""
    rng = random.Random(r.seed + 17)
    fails = []
    dist = dict(rotvec_small=0, rotvec_threshold=0, rotvec_large=0, rotvec_near_pi=0, rph=0, rph_pitch_gt_85=0, jacobian=0,
                stacked=0)

    def run(kind, obj, key):
        r.case((kind,) + key, sample=dict(kind=kind, **obj))
        what = CHECKS[kind](obj)
        if what is not None:
            fails.append((what, dict(kind=kind, **obj)))

    for v in _rotvecs(rng, n):
        nv = float(np.linalg.norm(v))
        dist['rotvec_threshold' if abs(nv - 1e-3) < 2e-4 else
             'rotvec_small' if nv < 1e-3 else
             'rotvec_near_pi' if abs(nv - math.pi) <= 0.11 else 'rotvec_large'] += 1
        for py in (False, True):
            run('rotvec', dict(v=[float(t) for t in v], py=py), (tuple(float(t).hex() for t in v), py))
    rphs = _rphs(rng, n)
    for rph in rphs:
        dist['rph'] += 1
        dist['rph_pitch_gt_85'] += abs(rph[1]) > 85
        run('rph', dict(rph=list(rph)), tuple(round(t, 9) for t in rph))
    for i in range(0, min(len(rphs), 120), 6):
        dist['stacked'] += 1
        run('stacked', dict(rphs=[list(t) for t in rphs[i:i + 6]]), (i,))
    for _ in range(max(20, n // 3)):
        rph = (rng.uniform(-180, 180), rng.uniform(-80, 80), rng.uniform(-180, 180))
        phi = [rng.uniform(-1, 1) for _ in range(3)]
        dist['jacobian'] += 1
        run('jacobian', dict(rph=list(rph), phi=phi), tuple(round(t, 9) for t in rph))
    reps = max(1, n // 150)
    for rep_i in range(reps):
        for li, order in enumerate(_layouts(rng)):
            for with_altitude in (True, False):
                for stacked in (False, True):
                    rows = [_pva_row(rng) for _ in range(3 if stacked else 1)]
                    phi = [rng.uniform(-1, 1) for _ in range(3)]
                    dist['output'] = dist.get('output', 0) + 1
                    run('output', dict(with_altitude=with_altitude, stacked=stacked, order=list(order),
                                       rows=rows, phi=phi), (rep_i, li, with_altitude, stacked))
    for rep_i in range(reps):
        for with_altitude in (True, False):
            for stacked in (False, True):
                nb = rng.randint(2, 4)
                batches = [[_pva_row(rng) for _ in range(3 if stacked else 1)] for _ in range(nb)]
                phi = [rng.uniform(-1, 1) for _ in range(3)]
                dist['history'] = dist.get('history', 0) + 1
                run('history', dict(with_altitude=with_altitude, stacked=stacked, batches=batches, phi=phi),
                    (rep_i, with_altitude, stacked))
    r.coverage.setdefault('distribution', {}).update(dist)
    return fails


def check(r):
    r.trusted += [
        "translator tools/sym.py + tools/ir2coq.py (symbolic tracing of _numba_integrate.mat_from_rotvec.py_func, "
        "transform.mat_from_rph / mat_to_rph, error_model._phi_to_delta_rph); compiled mat_from_rotvec vs .py_func "
        "compared numerically each run",
        "scipy Rotation.from_euler('xyz', degrees=True) read as Rz(a2)Ry(a1)Rx(a0), as_euler('xyz', degrees=True) "
        "read as (atan2(m21,m22), atan2(-m20, sqrt(m21^2+m22^2)), atan2(m10,m00)) * 180/pi "
        "(Spec/LibSpecs.v; stubs validated numerically on |pitch| <= 85 deg at each run)",
        "scipy Rotation.from_rotvec read as the closed-form exponential map rotvec_mij of Spec/LibSpecs.v "
        "(Rodrigues); its identity with the matrix exponential series is not formalised (checked against "
        "scipy.linalg.expm numerically)",
        "binary64 rounding not modelled: theorems are over the reals, decimal literals (1e-6, 1/24, ...) read as "
        "exact rationals, np.deg2rad as multiplication by PI/180",
    ]
    r.assumptions += [
        "round trip proved for the generated composition mat_to_rph(mat_from_rph(.)) through the as_euler spec; "
        "scipy's own as_euler algorithm near |pitch| = 90 deg (gimbal-lock warning branch) is outside the statement",
    ]
    r.generate(['NumbaIntegrate', 'Transform', 'C17Gen'])
    r.prove('Props/C17.v')
    n = 150 if r.tier == 'quick' else 30000
    fails = numeric_statements(r, n)
    r.coverage['numeric_support'] = dict(cases_per_kind=n, failures=len(fails))
    for what, rep in fails[:5]:
        r.violation(what, rep)
    if r.tier == 'thorough':
        r.hygiene('Props/C17.v')
        r.coqchk('Props/C17.v')


def falsify(r):
    fails = numeric_statements(r, 3000)
    for what, rep in fails[:5]:
        r.violation(what, rep)


def replay(obj):
    rep = obj.get('replay', obj)
    if obj.get('no_failing_input_found') or 'kind' not in rep:
        print("no concrete failing input was recorded; broken obligations:")
        for b in obj.get('broken', []):
            print(f"  {b.get('kind')}: {b.get('name')}")
        print("re-run:", obj.get('rerun', './check C17'))
        return 0
    kind = rep['kind']
    print(f"replaying {kind} case on the implementation: "
          f"{ {k: v for k, v in rep.items() if k != 'kind'} }")
    if kind == 'rotvec':
        from pyins import _numba_integrate as ni
        m = np.empty((3, 3))
        f = ni.mat_from_rotvec.py_func if rep['py'] else ni.mat_from_rotvec
        try:
            f(np.array(rep['v'], dtype=float), m)
            print("implementation:\n", m)
        except Exception as e:
            print(f"implementation raised {type(e).__name__}: {e}")
        print("exponential map (60-digit series, rounded):\n", expmap_exact(rep['v']))
    elif kind == 'rph':
        from pyins import transform
        m = transform.mat_from_rph(rep['rph'])
        print("mat_from_rph:\n", m, "\nRz Ry Rx:\n", rzryrx(rep['rph']), "\nmat_to_rph:", transform.mat_to_rph(m))
    what = CHECKS[kind](rep)
    if what is None:
        print("property statement holds on this input now")
        return 0
    print("STILL FAILS:", what)
    return 1
