"""C03 — the IMU synthesiser matches the true kinematics and inverts the strapdown equations.

Tie: translator (sim._compute_increment_readings, sim.generate_imu on two samples with the scipy
splines replaced by their written contract; earth.py / transform.py) -> Gen/C03Gen.v, Gen/Earth.v,
Gen/Transform.v; theorems in Props/C03.v against Spec/NavODE.v.

Numerical support / falsifier on the implementation (independent oracle: a Python transcription of
the navigation equations written from the physics, on analytic trajectories, with exact first and
second time derivatives carried by 2-jets):
  * rate and increment readings of generate_imu for the three input forms against the closed-form
    body rate  w = C^T (Omega + rho) + Euler-rate term  and specific force
    f = C^T (v' + (2 Omega + rho) x v - g)  (resp. their Gauss-Legendre integrals over each
    sampling interval): the error must fall when the sampling interval is halved and be below a
    generous absolute bound at the finest interval;
  * the three input forms agree (difference falls with the interval);
  * a body at rest at random latitude / altitude / attitude senses C^T rate_n and -C^T gravity_n;
  * closed loop: strapdown.Integrator fed with the synthesised readings from the first returned row
    reproduces the returned trajectory (error falls with the interval).
All margins are >= 100x above the measured interpolation / rounding level of the unchanged code.
"""
import math
import random
import numpy as np

RULE = ("translator: every traced function validated on 40-60 random inputs per run; numeric support: "
        "analytic smooth trajectories (constant-speed great-circle-like, helical climb, 3-axis tumbling; "
        "speeds up to 300 m/s, |lat| <= 85 deg, both hemispheres) x 3 input forms x 2 sensor types x "
        "sampling intervals 100/50(/25/12.5) ms, plus bodies at rest at random latitude/altitude/attitude; "
        "a case is distinct by (family, seed index, form, sensor type, interval)")

# ---------------------------------------------------------------------------
# independent Earth model (WGS-84 numbers written out; nothing imported from pyins)
A_E = 6378137.0
E2 = 6.6943799901413e-3
W_E = 7.292115e-5
G_E = 9.7803253359
G_F = 0.0019318526463962815       # (b gp - a ge)/(a ge) of the Somigliana formula as pyins evaluates it


class J:
    """2-jet (value, d/dt, d2/dt2) arithmetic: exact time derivatives of analytic trajectories."""
    __slots__ = ('v', 'd', 'dd')

    def __init__(self, v, d=0.0, dd=0.0):
        self.v, self.d, self.dd = v, d, dd

    @staticmethod
    def lift(x):
        return x if isinstance(x, J) else J(float(x))

    def __add__(self, o):
        o = J.lift(o)
        return J(self.v + o.v, self.d + o.d, self.dd + o.dd)
    __radd__ = __add__

    def __neg__(self):
        return J(-self.v, -self.d, -self.dd)

    def __sub__(self, o):
        return self + (-J.lift(o))

    def __rsub__(self, o):
        return J.lift(o) + (-self)

    def __mul__(self, o):
        o = J.lift(o)
        return J(self.v * o.v, self.d * o.v + self.v * o.d,
                 self.dd * o.v + 2 * self.d * o.d + self.v * o.dd)
    __rmul__ = __mul__

    def fn(self, f, f1, f2):
        return J(f, f1 * self.d, f2 * self.d ** 2 + f1 * self.dd)

    def __truediv__(self, o):
        o = J.lift(o)
        return self * o.fn(1 / o.v, -1 / o.v ** 2, 2 / o.v ** 3)

    def __rtruediv__(self, o):
        return J.lift(o) / self

    def sin(self):
        return self.fn(math.sin(self.v), math.cos(self.v), -math.sin(self.v))

    def cos(self):
        return self.fn(math.cos(self.v), -math.sin(self.v), -math.cos(self.v))

    def sqrt(self):
        s = math.sqrt(self.v)
        return self.fn(s, 0.5 / s, -0.25 / (s * self.v))


def jt(t):
    return J(t, 1.0, 0.0)


D2R = math.pi / 180


def cross(a, b):
    return [a[1] * b[2] - a[2] * b[1], a[2] * b[0] - a[0] * b[2], a[0] * b[1] - a[1] * b[0]]


def cnb_from_rph(r, p, h):
    """body -> NED direction cosines of the aerospace roll/pitch/heading sequence Rz(h) Ry(p) Rx(r)."""
    cr, sr, cp, sp, ch, sh = math.cos(r), math.sin(r), math.cos(p), math.sin(p), math.cos(h), math.sin(h)
    return np.array([[ch * cp, ch * sp * sr - sh * cr, ch * sp * cr + sh * sr],
                     [sh * cp, sh * sp * sr + ch * cr, sh * sp * cr - ch * sr],
                     [-sp, cp * sr, cp * cr]])


class Traj:
    """Analytic trajectory: lat, lon [deg], alt [m], roll, pitch, heading [deg] as functions t -> J."""

    def __init__(self, lat, lon, alt, roll, pitch, heading, name, meta):
        self.f = (lat, lon, alt, roll, pitch, heading)
        self.name = name
        self.meta = meta
        self.origin = 0.0      # time stamp of the start of the motion (the time axis need not start at 0)

    def state(self, t):
        """(lla, v_n, rph, w_ib^b, f^b) at time t from the navigation equations."""
        T = jt(t - self.origin)
        lat, lon, alt, roll, pitch, head = [g(T) for g in self.f]
        phi = lat * D2R
        s, c = phi.sin(), phi.cos()
        w2 = 1 - E2 * s * s
        w = w2.sqrt()
        rn = A_E * (1 - E2) / (w2 * w) + alt           # meridian radius + h
        re = A_E / w + alt                              # prime-vertical radius + h
        phid = J(phi.d, phi.dd, 0.0)
        lamd = J(lon.d * D2R, lon.dd * D2R, 0.0)
        hd = J(alt.d, alt.dd, 0.0)
        rn1 = J(rn.v, rn.d, 0.0)
        re1 = J(re.v, re.d, 0.0)
        c1, s1 = J(c.v, c.d, 0.0), J(s.v, s.d, 0.0)
        vN = phid * rn1                                 # v_n and its first derivative (1-jets)
        vE = lamd * re1 * c1
        vD = -hd
        v = np.array([vN.v, vE.v, vD.v])
        vdot = np.array([vN.d, vE.d, vD.d])
        Om = np.array([W_E * c.v, 0.0, -W_E * s.v])
        rho = np.array([lamd.v * c.v, -phid.v, -lamd.v * s.v])
        g = G_E * (1 + G_F * s.v ** 2) / math.sqrt(1 - E2 * s.v ** 2) * (1 - 2 * alt.v / A_E)
        f_n = vdot + np.array(cross(2 * Om + rho, v)) - np.array([0.0, 0.0, g])
        r, p, h = roll.v * D2R, pitch.v * D2R, head.v * D2R
        rd, pd_, hdot = roll.d * D2R, pitch.d * D2R, head.d * D2R
        C = cnb_from_rph(r, p, h)
        w_nb = np.array([rd - hdot * math.sin(p),
                         pd_ * math.cos(r) + hdot * math.sin(r) * math.cos(p),
                         -pd_ * math.sin(r) + hdot * math.cos(r) * math.cos(p)])
        w_b = C.T @ (Om + rho) + w_nb
        f_b = C.T @ f_n
        return (np.array([lat.v, lon.v, alt.v]), v, np.array([roll.v, pitch.v, head.v]), w_b, f_b)


def _sinus(a0, a1, amp, om, ph):
    return lambda T: a0 + a1 * T + amp * ((om * T + ph).sin())


def make_traj(rng, family, leg_az=None):
    """families: 'gc' constant-speed great-circle-like, 'helix' climbing turn, 'tumble' 3-axis tumbling."""
    lat0 = rng.choice([-1, 1]) * rng.uniform(0.0, 84.0)
    lon0 = rng.uniform(-179, 179)
    alt0 = rng.uniform(-200, 12000)
    speed = rng.uniform(5, 290)
    az = rng.uniform(0, 2 * math.pi)
    rm = 6.37e6
    coslat = math.cos(lat0 * D2R)
    latr = speed * math.cos(az) / rm / D2R                 # deg/s
    lonr = speed * math.sin(az) / (rm * coslat) / D2R
    if abs(lat0) + abs(latr) * 10 > 85:
        latr = -abs(latr) * (1 if lat0 > 0 else -1)
    meta = dict(family=family, lat0=lat0, lon0=lon0, alt0=alt0, speed=speed, az=az)
    z = lambda T: J.lift(0.0) * T
    if family == 'gc':
        lat = _sinus(lat0, latr, 0.0, 0.0, 0.0)
        lon = _sinus(lon0, lonr, 0.0, 0.0, 0.0)
        alt = _sinus(alt0, 0.0, 0.0, 0.0, 0.0)
        roll = _sinus(rng.uniform(-20, 20), 0.0, 0.0, 0.0, 0.0)
        pitch = _sinus(rng.uniform(-10, 10), 0.0, 0.0, 0.0, 0.0)
        head = _sinus(math.degrees(az), 0.0, 0.0, 0.0, 0.0)
    elif family == 'helix':
        om = min(rng.uniform(0.1, 0.6), 30.0 / speed)     # turn rate rad/s, centripetal acceleration <= 3 g
        rad = speed / om                                  # turn radius m
        lat = _sinus(lat0, 0.0, rad / rm / D2R, om, rng.uniform(0, 6))
        lon = _sinus(lon0, 0.0, rad / (rm * coslat) / D2R, om, rng.uniform(0, 6) + math.pi / 2)
        alt = _sinus(alt0, rng.uniform(-20, 20), rng.uniform(0, 5), rng.uniform(0.2, 1.0), rng.uniform(0, 6))
        roll = _sinus(rng.uniform(-30, 30), 0.0, rng.uniform(0, 15), rng.uniform(0.2, 1.0), rng.uniform(0, 6))
        pitch = _sinus(rng.uniform(-10, 10), 0.0, rng.uniform(0, 8), rng.uniform(0.2, 1.0), rng.uniform(0, 6))
        head = _sinus(rng.uniform(-180, 180), -math.degrees(om), 0.0, 0.0, 0.0)
        meta.update(turn_rate=om)
    elif family == 'tumble':
        lat = _sinus(lat0, latr, rng.uniform(0, 20) / rm / D2R, rng.uniform(0.2, 1.0), rng.uniform(0, 6))
        lon = _sinus(lon0, lonr, rng.uniform(0, 20) / (rm * coslat) / D2R, rng.uniform(0.2, 1.0), rng.uniform(0, 6))
        alt = _sinus(alt0, rng.uniform(-10, 10), rng.uniform(0, 10), rng.uniform(0.2, 1.0), rng.uniform(0, 6))
        roll = _sinus(rng.uniform(-180, 180), rng.uniform(-25, 25), rng.uniform(0, 20), rng.uniform(0.3, 1.5), rng.uniform(0, 6))
        pitch = _sinus(0.0, 0.0, rng.uniform(10, 70), rng.uniform(0.2, 0.8), rng.uniform(0, 6))
        head = _sinus(rng.uniform(-180, 180), rng.uniform(-25, 25), rng.uniform(0, 20), rng.uniform(0.3, 1.5), rng.uniform(0, 6))
    elif family == 'leg':
        # long, fast, mostly north-south (or diagonal) leg: tens of minutes at ~290 m/s, several degrees of latitude
        speed = rng.uniform(250, 295)
        lat0 = rng.choice([-1, 1]) * rng.uniform(25, 60)
        az = (rng.choice([0.0, math.pi, math.pi / 4, 5 * math.pi / 4]) if leg_az is None else leg_az) + rng.uniform(-0.15, 0.15)
        coslat = math.cos(lat0 * D2R)
        latr = speed * math.cos(az) / rm / D2R
        lonr = speed * math.sin(az) / (rm * coslat) / D2R
        meta.update(lat0=lat0, speed=speed, az=az)
        lat = _sinus(lat0, latr, 30.0 / rm / D2R, rng.uniform(0.005, 0.02), rng.uniform(0, 6))
        lon = _sinus(lon0, lonr, 30.0 / (rm * coslat) / D2R, rng.uniform(0.005, 0.02), rng.uniform(0, 6))
        alt = _sinus(alt0, 0.0, rng.uniform(0, 200), rng.uniform(0.005, 0.02), rng.uniform(0, 6))
        roll = _sinus(0.0, 0.0, rng.uniform(0, 5), rng.uniform(0.01, 0.05), rng.uniform(0, 6))
        pitch = _sinus(rng.uniform(-3, 3), 0.0, rng.uniform(0, 2), rng.uniform(0.01, 0.05), rng.uniform(0, 6))
        head = _sinus(math.degrees(az), 0.0, rng.uniform(0, 2), rng.uniform(0.01, 0.05), rng.uniform(0, 6))
    else:
        raise ValueError(family)
    return Traj(lat, lon, alt, roll, pitch, head, family, meta)


_GL = np.polynomial.legendre.leggauss(10)


def truth(traj, time, integrals=True):
    """sampled states and the exact rate / increment readings on the grid `time` (any, also non-uniform, grid:
    the increment of row k is the integral over [time[k-1], time[k]])."""
    st = [traj.state(float(t)) for t in time]
    lla = np.array([s[0] for s in st])
    vel = np.array([s[1] for s in st])
    rph = np.array([s[2] for s in st])
    w = np.array([s[3] for s in st])
    f = np.array([s[4] for s in st])
    dth = np.zeros((len(time), 3))
    dv = np.zeros((len(time), 3))
    x, wt = _GL
    for k in range(1, len(time) if integrals else 0):
        a, b = float(time[k - 1]), float(time[k])
        for xi, wi in zip(x, wt):
            s = traj.state(0.5 * (a + b) + 0.5 * (b - a) * xi)
            dth[k] += 0.5 * (b - a) * wi * s[3]
            dv[k] += 0.5 * (b - a) * wi * s[4]
    dth[0], dv[0] = dth[1], dv[1]
    return dict(lla=lla, vel=vel, rph=rph, w=w, f=f, dth=dth, dv=dv)


FORMS = ('pos+vel', 'pos', 'init+vel')


def synthesise(time, tr, form, sensor_type):
    from pyins import sim
    if form == 'pos+vel':
        return sim.generate_imu(time, tr['lla'], tr['rph'], tr['vel'], sensor_type)
    if form == 'pos':
        return sim.generate_imu(time, tr['lla'], tr['rph'], None, sensor_type)
    return sim.generate_imu(time, tr['lla'][0], tr['rph'], tr['vel'], sensor_type)


ORIGINS = (0.0, 40.0, -17.3, 1e5)      # time stamps of the first sample used across the cases
NOISE = lambda origin: 1.0 + abs(origin) / 1e4   # rounding noise grows with |time stamp| (lon + RATE*t, time differences)
VEL_TOL = 1.0   # [m/s] returned velocity of the position-only form vs the analytic one (clean: <= 7e-3 at 100 ms)
TRIM = 3        # samples dropped at both ends for the absolute bounds
EDGE = 1.0      # [s] margin at both ends excluded from the convergence (halving) tests


def make_grid(rng, dt, total, uniform):
    """sample times: uniform with step dt, or jittered steps dt*U(0.42, 0.5) with ~10 % dropped samples
    (steps between 0.42 dt and dt)."""
    if uniform:
        return np.arange(int(round(total / dt)) + 1) * dt
    t, out, dropped = 0.0, [0.0], True
    while t < total:
        t += dt * rng.uniform(0.42, 0.5)
        if not dropped and rng.random() < 0.1:
            dropped = True                            # dropped sample (never two in a row: steps <= dt)
            continue
        dropped = False
        out.append(t)
    return np.array(out)


def refine(time):
    """halve every sampling interval (insert the midpoints)."""
    out = np.empty(2 * len(time) - 1)
    out[0::2] = time
    out[1::2] = 0.5 * (time[:-1] + time[1:])
    return out


def steps_of(time):
    """per-row sampling interval; row 0 carries the duplicate of row 1 (generate_imu convention)."""
    d = np.diff(time)
    return np.r_[d[0], d]


def imu_errors(traj, time, form, sensor_type, trim=TRIM, tr=None):
    """max |gyro error| [rad/s], max |accel error| [m/s^2] (increments divided by THEIR OWN interval), plus the
    returned trajectory's deviation from the analytic one (position [m], velocity [m/s])."""
    n = len(time)
    if tr is None:
        tr = truth(traj, time)
    trj, imu = synthesise(time, tr, form, sensor_type)
    g = imu[['gyro_x', 'gyro_y', 'gyro_z']].values
    a = imu[['accel_x', 'accel_y', 'accel_z']].values
    if sensor_type == 'rate':
        eg, ea = g - tr['w'], a - tr['f']
    else:
        dtv = steps_of(time)[:, None]
        eg, ea = (g - tr['dth']) / dtv, (a - tr['dv']) / dtv
    # fall tests use the interior window (the end conditions of the splines give errors that decay by ~0.27 per
    # knot away from the ends); the absolute bounds are applied to everything but `trim` samples at each end
    win = (time >= time[0] + EDGE) & (time <= time[-1] - EDGE)
    sl = slice(trim, n - trim)
    lla = trj[['lat', 'lon', 'alt']].values
    dpos = np.abs(np.column_stack([(lla[:, 0] - tr['lla'][:, 0]) * D2R * 6.4e6,
                                   (lla[:, 1] - tr['lla'][:, 1]) * D2R * 6.4e6 * np.cos(tr['lla'][:, 0] * D2R),
                                   lla[:, 2] - tr['lla'][:, 2]])).max()
    dvel = np.abs(trj[['VN', 'VE', 'VD']].values - tr['vel']).max()
    return dict(gyro=float(np.abs(eg[win]).max()), accel=float(np.abs(ea[win]).max()),
                gyro_all=float(np.abs(eg[sl]).max()), accel_all=float(np.abs(ea[sl]).max()),
                pos=float(dpos), vel=float(dvel)), (trj, imu, tr)


def closed_loop(trj, imu, sensor_type):
    """integrate the synthesised readings from the first returned row; deviation from the returned
    trajectory: position [m], velocity [m/s], attitude [rad]."""
    from pyins import strapdown, transform
    inc = strapdown.compute_increments_from_imu(imu, sensor_type)
    integ = strapdown.Integrator(trj.iloc[0])
    out = integ.integrate(inc)
    out = out.loc[trj.index[1:]]
    ref = trj.iloc[1:]
    lla, lla0 = out[['lat', 'lon', 'alt']].values, ref[['lat', 'lon', 'alt']].values
    dpos = np.abs(np.column_stack([(lla[:, 0] - lla0[:, 0]) * D2R * 6.4e6,
                                   (lla[:, 1] - lla0[:, 1]) * D2R * 6.4e6 * np.cos(lla0[:, 0] * D2R),
                                   lla[:, 2] - lla0[:, 2]])).max()
    dvel = np.abs(out[['VN', 'VE', 'VD']].values - ref[['VN', 'VE', 'VD']].values).max()
    m1 = transform.mat_from_rph(out[['roll', 'pitch', 'heading']].values)
    m0 = transform.mat_from_rph(ref[['roll', 'pitch', 'heading']].values)
    datt = np.abs(np.einsum('kji,kjl->kil', m0, m1) - np.eye(3)).max()
    return dict(pos=float(dpos), vel=float(dvel), att=float(datt))


# ---------------------------------------------------------------------------
# thresholds (calibrated on the unchanged tree; see the module docstring)
#   noise: second differences of r_i ~ 6.4e6 m in binary64 give ~1.5e-8 / dt^2 m/s^2 of rounding noise in the
#   accelerometer channel, the gyro channel sits at ~1e-13 rad/s; floors are >= 100x these.
ACC_FLOOR = lambda dt: 4e-6 / dt ** 2
GYRO_FLOOR = 1e-10
FALL = 0.85            # error(dt/2) <= FALL * error(dt)   (expected 0.5 .. 0.06) unless below the floor
ABS = dict(gyro=2e-2, accel=1e-1)                  # at dt <= 0.05 s; >= 100x the observed interpolation error
CL_FLOOR = dict(pos=1e-3, vel=1e-4, att=1e-8)
CL_FALL = 0.85         # expected 0.25 .. 0.125 (up to 0.75 on jittered grids)
CL_ABS = dict(pos=5.0, vel=3.0, att=3e-2)          # after 4 s at dt = 0.05 s
TOTAL = 4.0


def _case_rng(seed, k):
    return random.Random(seed * 1000003 + 7919 * k + 3)


POS_TOL = 5e-3         # returned position of the initial-value form vs the analytic motion [m] (clean: < 1e-5 m in 4 s)


def traj_case(seed, k, family, dts, want_closed_loop=True):
    """all checks on one analytic trajectory; odd k use a NON-UNIFORM time grid (jitter + dropped samples), the
    finer grids are obtained by halving every interval.  Returns (list of failure strings, summary dict)."""
    rng = _case_rng(seed, k)
    traj = make_traj(rng, family)
    uniform = (k % 2 == 0)
    fails = []
    summ = {}
    imus = {}
    grids = {}
    origin = ORIGINS[k % 4]
    traj.origin = origin
    g = origin + make_grid(_case_rng(seed, 500000 + k), dts[0], TOTAL, uniform)
    for dt in dts:
        grids[dt] = g
        g = refine(g)
    truths = {dt: truth(traj, grids[dt]) for dt in dts}
    hmin = {dt: float(np.diff(grids[dt]).min()) for dt in dts}
    for form in FORMS:
        for st in ('rate', 'increment'):
            prev = None
            for dt in dts:
                e, (trj, imu, tr) = imu_errors(traj, grids[dt], form, st, tr=truths[dt])
                imus[(form, st, dt)] = imu
                summ[f"{form}/{st}/{dt}"] = e
                fl = dict(gyro=GYRO_FLOOR * NOISE(origin), accel=ACC_FLOOR(hmin[dt]) * NOISE(origin))
                for ch in ('gyro', 'accel'):
                    if not np.isfinite(e[ch]):
                        fails.append(f"{form}/{st} dt={dt}: {ch} reading not finite")
                    if prev is not None and e[ch] > max(FALL * prev[ch], fl[ch]):
                        fails.append(f"{form}/{st}: {ch} error does not fall with the sampling interval: "
                                     f"{prev[ch]:.3e} -> {e[ch]:.3e} at dt={dt}")
                    if dt <= 0.05 and e[ch + '_all'] > ABS[ch] + fl[ch]:
                        fails.append(f"{form}/{st} dt={dt}: {ch} error {e[ch + '_all']:.3e} above bound {ABS[ch]}")
                if e['vel'] > (VEL_TOL if form == 'pos' else 1e-9):
                    fails.append(f"{form}/{st} dt={dt}: returned velocity is {e['vel']:.3e} m/s off the velocity of the motion "
                                 f"(time axis starts at {origin})")
                if form == 'init+vel' and e['pos'] > POS_TOL:
                    fails.append(f"init+vel/{st} dt={dt}: returned position is {e['pos']:.3e} m off the motion "
                                 f"that has the given velocity")
                prev = e
                if want_closed_loop:
                    cl = closed_loop(trj, imu, st)
                    summ[f"loop/{form}/{st}/{dt}"] = cl
    # the three forms describe the same motion
    for st in ('rate', 'increment'):
        for other in ('pos', 'init+vel'):
            prev = None
            for dt in dts:
                a, b = imus[('pos+vel', st, dt)].values, imus[(other, st, dt)].values
                tg = grids[dt]
                win = (tg >= tg[0] + EDGE) & (tg <= tg[-1] - EDGE)
                sc = 1.0 if st == 'rate' else steps_of(tg)[win, None]
                d = dict(gyro=float(np.abs((a[win, :3] - b[win, :3]) / sc).max()),
                         accel=float(np.abs((a[win, 3:] - b[win, 3:]) / sc).max()))
                fl = dict(gyro=GYRO_FLOOR * NOISE(origin), accel=2 * ACC_FLOOR(hmin[dt]) * NOISE(origin))
                for ch in ('gyro', 'accel'):
                    if prev is not None and d[ch] > max(FALL * prev[ch], fl[ch]):
                        fails.append(f"forms pos+vel and {other} ({st}): {ch} difference does not fall: "
                                     f"{prev[ch]:.3e} -> {d[ch]:.3e} at dt={dt}")
                    if dt <= 0.05 and d[ch] > 2 * ABS[ch] + fl[ch]:
                        fails.append(f"forms pos+vel and {other} ({st}) dt={dt}: {ch} difference {d[ch]:.3e}")
                prev = d
    if want_closed_loop:
        for form in FORMS:
            for st in ('rate', 'increment'):
                prev = None
                for dt in dts:
                    cl = summ[f"loop/{form}/{st}/{dt}"]
                    for ch in ('pos', 'vel', 'att'):
                        if not np.isfinite(cl[ch]):
                            fails.append(f"closed loop {form}/{st} dt={dt}: {ch} not finite")
                        if prev is not None and cl[ch] > max(CL_FALL * prev[ch], CL_FLOOR[ch]):
                            fails.append(f"closed loop {form}/{st}: {ch} error does not fall: "
                                         f"{prev[ch]:.3e} -> {cl[ch]:.3e} at dt={dt}")
                        if dt <= 0.05 and cl[ch] > CL_ABS[ch]:
                            fails.append(f"closed loop {form}/{st} dt={dt}: {ch} error {cl[ch]:.3e} above {CL_ABS[ch]}")
                    prev = cl
    meta = dict(traj.meta, t_first=origin, grid='uniform' if uniform else 'non-uniform',
                steps_ms=[round(1e3 * float(np.diff(grids[dts[0]]).min()), 1), round(1e3 * float(np.diff(grids[dts[0]]).max()), 1)])
    return fails, dict(meta=meta, errors=summ)


LEG_TOTAL = 2400.0
LEG_POS_TOL = 5e-3       # [m]   clean tree: <= 4e-5 m after 2400 s
LEG_ACC = lambda dt: 1e-4 + 2 * ACC_FLOOR(dt)   # forms difference / truth error [m/s^2]; clean: 5e-6 (0.1), 1.6e-5 (0.05)


def leg_case(seed, k, dt=0.1, total=LEG_TOTAL):
    """a long fast north-south / diagonal leg (40 min at ~290 m/s, ~6 deg of latitude) in the
    'initial position + velocity' form: the returned position must be the motion that has the given velocity
    (analytic position, velocity from it by the independent WGS-84 kinematics), and the readings must agree
    with the position+velocity form and with the closed-form specific force."""
    # even k: north / south legs, odd k: diagonal legs
    base = [0.0, math.pi / 4, math.pi, 5 * math.pi / 4][k % 4]
    traj = make_traj(_case_rng(seed, 300000 + k), 'leg', leg_az=base)
    origin = (40.0, 0.0, 1e5, -17.3)[k % 4]
    traj.origin = origin
    time = origin + np.arange(int(round(total / dt)) + 1) * dt
    tr = truth(traj, time, integrals=False)
    fails = []
    summ = {}
    trj_c, _ = synthesise(time, tr, 'pos', 'rate')
    dvc = float(np.abs(trj_c[['VN', 'VE', 'VD']].values - tr['vel']).max())
    summ['pos_form_velocity'] = dvc
    if dvc > VEL_TOL:
        fails.append(f"pos/rate: returned velocity is {dvc:.3e} m/s off the velocity of the motion on the long leg "
                     f"(time axis starts at {origin})")
    for st in ('rate', 'increment'):
        trj_a, imu_a = synthesise(time, tr, 'pos+vel', st)
        trj_b, imu_b = synthesise(time, tr, 'init+vel', st)
        lla = trj_b[['lat', 'lon', 'alt']].values
        dn = float(np.abs((lla[:, 0] - tr['lla'][:, 0]) * D2R * 6.4e6).max())
        de = float(np.abs((lla[:, 1] - tr['lla'][:, 1]) * D2R * 6.4e6 * np.cos(tr['lla'][:, 0] * D2R)).max())
        dd = float(np.abs(lla[:, 2] - tr['lla'][:, 2]).max())
        sc = 1.0 if st == 'rate' else dt
        dacc = float(np.abs(imu_a.values[3:-3, 3:] - imu_b.values[3:-3, 3:]).max()) / sc
        dgyr = float(np.abs(imu_a.values[3:-3, :3] - imu_b.values[3:-3, :3]).max()) / sc
        summ[st] = dict(north=dn, east=de, down=dd, accel_forms=dacc, gyro_forms=dgyr)
        for nm, tj in (('pos+vel', trj_a), ('init+vel', trj_b)):
            dv = float(np.abs(tj[['VN', 'VE', 'VD']].values - tr['vel']).max())
            if dv > 1e-9:
                fails.append(f"{nm}/{st}: returned velocity differs from the given one by {dv:.3e} m/s")
        if max(dn, de, dd) > LEG_POS_TOL:
            fails.append(f"init+vel/{st}: after {total:.0f} s the returned position is off the motion with the given "
                         f"velocity by north {dn:.3e} east {de:.3e} down {dd:.3e} m")
        if dacc > LEG_ACC(dt) * NOISE(origin):
            fails.append(f"forms pos+vel and init+vel ({st}) disagree on the long leg: accel {dacc:.3e} m/s^2 at dt={dt}")
        if dgyr > 1e-9:
            fails.append(f"forms pos+vel and init+vel ({st}) disagree on the long leg: gyro {dgyr:.3e} rad/s")
        if st == 'rate':
            ea = float(np.abs(imu_b.values[3:-3, 3:] - tr['f'][3:-3]).max())
            summ[st]['accel_truth'] = ea
            if ea > LEG_ACC(dt) * NOISE(origin):
                fails.append(f"init+vel/rate: accel differs from the closed-form specific force by {ea:.3e} m/s^2 on the long leg")
    return fails, dict(meta=dict(traj.meta, t_first=origin), dt=dt, errors=summ)


def rest_case(seed, k, dt=0.1, n=12):
    """a body at rest: gyro == C^T rate_n, accel == - C^T gravity_n for the three forms and both types."""
    rng = _case_rng(seed, 100000 + k)
    lat = rng.choice([-1, 1]) * rng.uniform(0, 85) if k % 7 else rng.choice([-85.0, 0.0, 85.0])
    lon = rng.uniform(-180, 180)
    alt = rng.uniform(-400, 20000)
    rph = [rng.uniform(-180, 180), rng.uniform(-89, 89), rng.uniform(-180, 180)]
    if k % 2 == 0:
        time = np.arange(n) * dt
    else:                                           # non-uniform: steps 30 .. 100 ms
        time = np.concatenate([[0.0], np.cumsum([rng.uniform(0.03, 0.1) for _ in range(n - 1)])])
    origin = ORIGINS[k % 4]
    time = origin + time
    dtv = steps_of(time)[:, None]
    hmin = float(dtv.min())
    phi = lat * D2R
    C = cnb_from_rph(*(np.array(rph) * D2R))
    g = G_E * (1 + G_F * math.sin(phi) ** 2) / math.sqrt(1 - E2 * math.sin(phi) ** 2) * (1 - 2 * alt / A_E)
    w_true = C.T @ np.array([W_E * math.cos(phi), 0.0, -W_E * math.sin(phi)])
    f_true = -C.T @ np.array([0.0, 0.0, g])
    tr = dict(lla=np.tile([lat, lon, alt], (n, 1)), rph=np.tile(rph, (n, 1)), vel=np.zeros((n, 3)))
    fails = []
    worst = dict(gyro=0.0, accel=0.0)
    for form in FORMS:
        for st in ('rate', 'increment'):
            trj, imu = synthesise(time, tr, form, st)
            sc = 1.0 if st == 'rate' else dtv              # each increment over ITS OWN interval
            eg = float(np.abs(imu.values[:, :3] / sc - w_true).max())
            ea = float(np.abs(imu.values[:, 3:] / sc - f_true).max())
            worst['gyro'] = max(worst['gyro'], eg)
            worst['accel'] = max(worst['accel'], ea)
            if not (eg <= 1e-11 * NOISE(origin)):
                fails.append(f"at rest, {form}/{st}: gyro differs from C^T rate_n by {eg:.3e} rad/s")
            if not (ea <= ACC_FLOOR(hmin) * NOISE(origin)):
                fails.append(f"at rest, {form}/{st}: accel differs from -C^T gravity_n by {ea:.3e} m/s^2")
            if np.abs(trj[['lat', 'lon', 'alt']].values - [lat, lon, alt]).max() > 1e-9 or \
                    np.abs(trj[['VN', 'VE', 'VD']].values).max() > 2e-5 * NOISE(origin):
                fails.append(f"at rest, {form}/{st}: returned trajectory moves")
    return fails, dict(lat=lat, lon=lon, alt=alt, rph=rph, worst=worst, t_first=origin,
                       steps_ms=[round(1e3 * hmin, 1), round(1e3 * float(dtv.max()), 1)])


def poly_case(seed, k):
    """_compute_increment_readings on a stack of intervals of DIFFERENT lengths against Gauss-Legendre quadrature
    of the polynomial model of the theorem (exact for degree 7), row by row."""
    from pyins import sim
    rng = _case_rng(seed, 200000 + k)
    n = 4
    dt = np.array([[rng.uniform(0.005, 0.1)] for _ in range(n)])
    a, b, c, d, e = [np.array([[rng.uniform(-s, s) for _ in range(3)] for _ in range(n)])
                     for s in (1.0, 3.0, 5.0, 30.0, 50.0)]
    gy, ac = sim._compute_increment_readings(dt, a, b, c, d, e)
    x, w = np.polynomial.legendre.leggauss(6)
    fails = []
    for i in range(n):
        G = np.zeros(3)
        F = np.zeros(3)
        h = float(dt[i, 0])
        for xi, wi in zip(x, w):
            t = 0.5 * h * (xi + 1)
            th = a[i] * t + b[i] * t * t + c[i] * t ** 3
            thd = a[i] + 2 * b[i] * t + 3 * c[i] * t * t
            f = d[i] + e[i] * t
            G += 0.5 * h * wi * (thd - 0.5 * np.cross(th, thd) + np.cross(th, np.cross(th, thd)) / 6)
            F += 0.5 * h * wi * (f - np.cross(th, f) + 0.5 * np.cross(th, np.cross(th, f)))
        eg = float(np.abs(gy[i] - G).max())
        ea = float(np.abs(ac[i] - F).max())
        if eg > 1e-12 * max(1.0, np.abs(G).max()):
            fails.append(f"row {i}: gyro increment is not the integral over [0, {h:.4f}] of theta' - 1/2 th x th' "
                         f"+ 1/6 th x (th x th'): off by {eg:.3e}")
        if ea > 1e-12 * max(1.0, np.abs(F).max()):
            fails.append(f"row {i}: accel increment is not the integral over [0, {h:.4f}] of "
                         f"(I - [th x] + 1/2 [th x]^2)(d + e t): off by {ea:.3e}")
    return fails, dict(dt=dt.ravel().tolist(), a=a.tolist(), b=b.tolist(), c=c.tolist(), d=d.tolist(), e=e.tolist())


SINE_ACC_TOL = 0.05     # [m/s^2]; clean tree: see calibration in the docstring of sine_case


def sine_case(seed, k):
    """generate_sine_velocity_motion: the returned NED velocity is the documented
        V(t) = V_mean + V_ampl * sin(2 pi t / period + phase_offset [deg])
    and the accelerometer readings are the specific force of that motion (independent navigation equations, attitude
    and position taken from the returned trajectory).  The function is called TWICE with the SAME argument objects
    (rate, then increment); phase offsets (non-default) come as float64 ndarray / list / pandas Series; the arguments
    must be unchanged afterwards.  Clean tree: velocity exact to 1e-12, accel within ~2e-3 m/s^2."""
    import pandas as pd
    from pyins import sim
    rng = _case_rng(seed, 400000 + k)
    dt = rng.choice([0.05, 0.1])
    total = 20.0
    lla0 = np.array([rng.choice([-1, 1]) * rng.uniform(0, 80), rng.uniform(-179, 179), rng.uniform(0, 10000)])
    az = rng.uniform(0, 2 * math.pi)
    sp = rng.uniform(50, 250)
    vmean = np.array([sp * math.cos(az), sp * math.sin(az), rng.uniform(-5, 5)])
    vamp = np.array([rng.uniform(0, 15), rng.uniform(0, 15), rng.uniform(0, 2)])
    period = rng.uniform(20, 60)
    ph = [rng.uniform(-180, 180) for _ in range(3)]
    kind = ('float64 ndarray', 'list', 'Series')[k % 3]
    phase = np.array(ph, dtype=float) if k % 3 == 0 else (list(ph) if k % 3 == 1 else pd.Series(ph, dtype=float))
    saved = dict(lla0=lla0.copy(), vmean=vmean.copy(), vamp=vamp.copy(), phase=list(ph))
    fails = []
    summ = dict(dt=dt, lla0=lla0.tolist(), velocity_mean=vmean.tolist(), amplitude=vamp.tolist(), period=period,
                phase_offset=ph, phase_type=kind)
    for call, st in enumerate(('rate', 'increment')):
        try:
            trj, imu = sim.generate_sine_velocity_motion(dt, total, lla0, vmean, vamp, period, phase, st)
        except Exception as ex:
            fails.append(f"call {call + 1} ({st}): generate_sine_velocity_motion raised {type(ex).__name__}: {ex} "
                         f"(phase offset passed as {kind})")
            break
        if not (np.array_equal(lla0, saved['lla0']) and np.array_equal(vmean, saved['vmean'])
                and np.array_equal(vamp, saved['vamp']) and list(np.asarray(phase, dtype=float)) == saved['phase']):
            fails.append(f"call {call + 1} ({st}): generate_sine_velocity_motion modified its arguments "
                         f"(phase offset passed as {kind} is now {list(np.asarray(phase, dtype=float))})")
        t = np.asarray(trj.index, dtype=float)
        arg = 2 * math.pi * t[:, None] / period + np.array(ph) * D2R
        v = saved['vmean'] + saved['vamp'] * np.sin(arg)
        vd = saved['vamp'] * np.cos(arg) * 2 * math.pi / period
        dv = float(np.abs(trj[['VN', 'VE', 'VD']].values - v).max())
        summ[f'velocity_{st}'] = dv
        if dv > 1e-9:
            fails.append(f"call {call + 1} ({st}): returned velocity is {dv:.3e} m/s off V_mean + V_ampl sin(2 pi t/period + phase)")
        # specific force of the documented motion at the returned position / attitude
        lla = trj[['lat', 'lon', 'alt']].values
        rph = trj[['roll', 'pitch', 'heading']].values
        fb = np.zeros((len(t), 3))
        for i in range(len(t)):
            phi = lla[i, 0] * D2R
            s, c = math.sin(phi), math.cos(phi)
            w = math.sqrt(1 - E2 * s * s)
            rn = A_E * (1 - E2) / w ** 3 + lla[i, 2]
            re = A_E / w + lla[i, 2]
            Om = np.array([W_E * c, 0.0, -W_E * s])
            rho = np.array([v[i, 1] / re, -v[i, 0] / rn, -v[i, 1] * s / (c * re)])
            g = G_E * (1 + G_F * s * s) / w * (1 - 2 * lla[i, 2] / A_E)
            fn = vd[i] + np.array(cross(2 * Om + rho, v[i])) - np.array([0.0, 0.0, g])
            fb[i] = cnb_from_rph(*(rph[i] * D2R)).T @ fn
        a = imu[['accel_x', 'accel_y', 'accel_z']].values
        if st == 'rate':
            ea = float(np.abs(a - fb)[3:-3].max())
        else:
            ea = float(np.abs(a[1:] / dt - 0.5 * (fb[1:] + fb[:-1]))[3:-3].max())
        summ[f'accel_{st}'] = ea
        if not (ea <= SINE_ACC_TOL + ACC_FLOOR(dt)):
            fails.append(f"call {call + 1} ({st}): accel readings are {ea:.3e} m/s^2 off the specific force of the documented motion")
    return fails, summ


CLIMB_T = 300.0


def climb_case(seed, k, dt=0.1, total=CLIMB_T):
    """round trip on a sustained fast climb / descent (|VD| 80..150 m/s for 5 minutes, 50..250 m/s horizontal, coarse
    sampling): strapdown.Integrator fed with the synthesised readings from the first returned row must reproduce the
    returned trajectory.  The scheme is first order in dt in the vertical channel, and the vertical channel is
    sensitive to WHERE in the interval gravity is taken: a half-sample altitude offset |VD| dt / 2 in the gravity
    model gives a bias (2 g / R) |VD| dt / 2.  The tolerance is a fifth of the effect of a full-sample offset:
        VD:  0.2 (2g/R) |VD| dt T      altitude:  0.2 (2g/R) |VD| dt T^2 / 2
    (clean tree over 800 cases: at most 0.09 of it; gravity taken one full sample off, e.g. on the wrong side of the
    current altitude: 5x above it),
    horizontal velocity 0.25 dt m/s, horizontal position 50 dt m: all linear in dt like the scheme."""
    from pyins import sim, strapdown
    rng = _case_rng(seed, 600000 + k)
    origin = ORIGINS[k % 4]
    tau_t = np.arange(int(round(total / dt)) + 1) * dt
    n = len(tau_t)
    vz = (-1 if k % 2 == 0 else 1) * rng.uniform(80, 150)          # even k climb (VD < 0), odd k descend
    az = rng.uniform(0, 2 * math.pi)
    sp = rng.uniform(50, 250)
    tau = rng.uniform(10, 30)
    vel = np.empty((n, 3))
    vel[:, 0] = sp * math.cos(az) + 5 * np.sin(0.02 * tau_t + rng.uniform(0, 6))
    vel[:, 1] = sp * math.sin(az) + 5 * np.cos(0.02 * tau_t + rng.uniform(0, 6))
    vel[:, 2] = vz * (1 - np.exp(-tau_t / tau))
    rph = np.empty((n, 3))
    rph[:, 0] = rng.uniform(0, 5) * np.sin(0.05 * tau_t)
    rph[:, 1] = rng.uniform(-20, 20) + 2 * np.sin(0.03 * tau_t)
    rph[:, 2] = math.degrees(az) + rng.uniform(-0.5, 0.5) * tau_t
    alt0 = 200.0 if vz < 0 else 200.0 + abs(vz) * total
    lla0 = [rng.choice([-1, 1]) * rng.uniform(0, 70), rng.uniform(-179, 179), alt0]
    k_grav = 2 * G_E / A_E                                          # d gravity / d altitude, 3.1e-6 1/s^2
    tol = dict(VD=0.2 * k_grav * abs(vz) * dt * total, alt=0.1 * k_grav * abs(vz) * dt * total ** 2,
               Vh=0.25 * dt, pos=50.0 * dt)
    fails = []
    summ = dict(vertical_speed=vz, horizontal_speed=sp, dt=dt, t_first=origin, lla0=lla0, tol=tol)
    for st in ('rate', 'increment'):
        trj, imu = sim.generate_imu(origin + tau_t, lla0, rph, vel, st)
        inc = strapdown.compute_increments_from_imu(imu, st)
        out = strapdown.Integrator(trj.iloc[0]).integrate(inc)
        d = out[['alt', 'VD', 'VN', 'VE']].values - trj[['alt', 'VD', 'VN', 'VE']].values
        dl = (out[['lat', 'lon']].values - trj[['lat', 'lon']].values) * D2R * 6.4e6
        dl[:, 1] *= np.cos(trj['lat'].values * D2R)
        e = dict(alt=float(np.abs(d[:, 0]).max()), VD=float(np.abs(d[:, 1]).max()),
                 Vh=float(np.abs(d[:, 2:]).max()), pos=float(np.abs(dl).max()))
        summ[st] = e
        for ch, unit in (('alt', 'm'), ('VD', 'm/s'), ('Vh', 'm/s'), ('pos', 'm')):
            if not (e[ch] <= tol[ch]):
                fails.append(f"round trip {st}, {total:.0f} s at vertical speed {-vz:+.0f} m/s up, dt={dt}: strapdown from the "
                             f"first returned row is off the returned trajectory by {e[ch]:.3e} {unit} in {ch} (tolerance {tol[ch]:.2e})")
    return fails, summ


FAMILIES = ('gc', 'helix', 'tumble')


def numeric(r, n_traj, n_rest, dts, seed=None, closed=True, legs=((0.1, 1),), n_sine=6, climbs=((0.1, 1),)):
    seed = r.seed if seed is None else seed
    out = []
    dist = {}
    for k in range(n_traj):
        fam = FAMILIES[k % 3]
        fails, summ = traj_case(seed, k, fam, dts, closed)
        dist[fam] = dist.get(fam, 0) + 1
        for form in FORMS:
            for st in ('rate', 'increment'):
                for dt in dts:
                    r.case(('traj', fam, k, form, st, dt),
                           sample=dict(kind='traj', family=fam, k=k, form=form, sensor_type=st, dt=dt,
                                       meta=summ['meta'], errors=summ['errors'][f"{form}/{st}/{dt}"]))
        for f in fails[:3]:
            out.append((f, dict(kind='traj', seed=seed, k=k, family=fam, dts=list(dts), closed_loop=closed, what=f)))
    for k in range(n_rest):
        fails, summ = rest_case(seed, k)
        r.case(('rest', k), sample=dict(kind='rest', **summ))
        for f in fails[:2]:
            out.append((f, dict(kind='rest', seed=seed, k=k, what=f)))
    dist['rest'] = n_rest
    nleg = 0
    for dt, cnt in legs:
        for j in range(cnt):
            kk = nleg
            nleg += 1
            fails, summ = leg_case(seed, kk, dt)
            r.case(('leg', kk, dt), sample=dict(kind='leg', k=kk, dt=dt, meta=summ['meta'], errors=summ['errors']))
            for f in fails[:2]:
                out.append((f, dict(kind='leg', seed=seed, k=kk, dt=dt, what=f)))
    dist['leg'] = nleg
    for k in range(n_sine):
        fails, summ = sine_case(seed, k)
        r.case(('sine', k), sample=dict(kind='sine', k=k, **summ))
        for f in sorted(fails, key=lambda s: 'modified its arguments' in s)[:2]:
            out.append((f, dict(kind='sine', seed=seed, k=k, what=f)))
    dist['sine_velocity_motion'] = n_sine
    dist['time_origins'] = list(ORIGINS)
    ncl = 0
    for dt, cnt in climbs:
        for j in range(cnt):
            kk = ncl
            ncl += 1
            fails, summ = climb_case(seed, kk, dt)
            r.case(('climb', kk, dt), sample=dict(kind='climb', k=kk, **summ))
            for f in fails[:2]:
                out.append((f, dict(kind='climb', seed=seed, k=kk, dt=dt, what=f)))
    dist['climb_round_trip'] = ncl
    dist['non_uniform_grids'] = dict(trajectories=n_traj // 2, rest=n_rest // 2)
    r.coverage['distribution'] = dict(trajectories=dist, forms=list(FORMS), sensor_types=['rate', 'increment'],
                                      intervals=list(dts), total_time_s=TOTAL)
    return out


def check(r):
    r.trusted += [
        "translator tools/sym.py + tools/ir2coq.py + tools/reg/c03.py (symbolic tracing of sim._compute_increment_readings, "
        "sim.generate_imu on two samples, earth.py, transform.py)",
        "scipy CubicHermiteSpline read as THE cubic matching values and first derivatives per interval, PPoly layout "
        "c[m,k]*(x-x_k)^(3-m), breakpoint x_k evaluated in interval min(k,n-2) (tools/reg/c03.py::_Hermite; validated "
        "against the real class on 40 random sample pairs each run)",
        "scipy RotationSpline is opaque: only its documented coefficient array interpolator.c (rotation-vector cubic per "
        "interval, c[3]=0) is used, as free parameters; its angular-rate output is not modelled",
        "scipy Rotation.from_euler('ZY'/'xyz') stubs of tools/gen.py (validated numerically each run)",
        "binary64 rounding not modelled: theorems are over the reals; decimal literals exact, pi/180 read as PI/180, "
        "np.rad2deg(RATE) read as RATE*(180/PI)",
        "Spec/NavODE.v (hand-written navigation equations) is the reference physics for C03_specific_force_inverts_rhs "
        "and C03_angular_rate_inverts_rhs",
    ]
    r.assumptions += [
        "NOT proved: convergence of the scipy spline derivatives to the true derivatives (interpolation error -> 0 with the "
        "sampling interval); checked numerically by halving tests only",
        "NOT proved: agreement of the three input forms (position-only form and initial-value form with its latitude fixed "
        "point are not traced); checked numerically only",
        "NOT proved: closed loop through strapdown.Integrator (= C01 + theorems here + spline error); checked numerically only",
        "generate_imu is traced on TWO samples in the position+velocity form; longer inputs run the same vectorised code row-wise",
        "C03_stationary_* and the gravitation identity need -90 <= lat <= 90 (gravitation_ecef uses sqrt(1 - sin^2) for cos lat)",
    ]
    r.generate(['Earth', 'Transform', 'C03Gen'])
    r.prove('Props/C03.v')
    if r.tier == 'quick':
        fails = numeric(r, n_traj=6, n_rest=20, dts=(0.1, 0.05), legs=((0.1, 1),))
    else:
        fails = numeric(r, n_traj=120, n_rest=1000, dts=(0.1, 0.05, 0.025, 0.0125), legs=((0.1, 6), (0.05, 3)), n_sine=60, climbs=((0.1, 12), (0.05, 6)))
        for k in range(1000):
            f, rep = poly_case(r.seed, k)
            r.case(('poly', k))
            for x in f[:1]:
                fails.append((x, dict(kind='poly', seed=r.seed, k=k, what=x)))
    if r.tier == 'quick':
        for k in range(50):
            f, rep = poly_case(r.seed, k)
            r.case(('poly', k))
            for x in f[:1]:
                fails.append((x, dict(kind='poly', seed=r.seed, k=k, what=x)))
    r.coverage['numeric_support'] = dict(failures=len(fails))
    for what, rep in fails[:5]:
        r.violation(what, rep)
    if r.tier == 'thorough':
        r.hygiene('Props/C03.v')
        r.coqchk('Props/C03.v')


def falsify(r):
    """seeded search on the implementation for an input on which the property's own statement fails."""
    found = []
    for k in range(60):
        f, rep = poly_case(r.seed, k)
        for x in f[:1]:
            found.append((x, dict(kind='poly', seed=r.seed, k=k, what=x)))
        if found:
            break
    for k in range(40):
        f, _ = rest_case(r.seed + 1, k)
        for x in f[:1]:
            found.append((x, dict(kind='rest', seed=r.seed + 1, k=k, what=x)))
        if len(found) >= 3:
            break
    if len(found) < 3:
        for k in range(12):
            f, _ = traj_case(r.seed + 1, k, FAMILIES[k % 3], (0.1, 0.05, 0.025))
            for x in f[:1]:
                found.append((x, dict(kind='traj', seed=r.seed + 1, k=k, family=FAMILIES[k % 3],
                                      dts=[0.1, 0.05, 0.025], closed_loop=True, what=x)))
            if len(found) >= 3:
                break
    if len(found) < 3:
        for k in range(4):
            f, _ = climb_case(r.seed + 1, k, 0.1)
            for x in f[:1]:
                found.append((x, dict(kind='climb', seed=r.seed + 1, k=k, dt=0.1, what=x)))
            if len(found) >= 3:
                break
    if len(found) < 3:
        for k in range(12):
            f, _ = sine_case(r.seed + 1, k)
            for x in f[:1]:
                found.append((x, dict(kind='sine', seed=r.seed + 1, k=k, what=x)))
            if len(found) >= 3:
                break
    if len(found) < 3:
        for k in range(3):
            f, _ = leg_case(r.seed + 1, k, 0.1)
            for x in f[:1]:
                found.append((x, dict(kind='leg', seed=r.seed + 1, k=k, dt=0.1, what=x)))
    for what, rep in found[:5]:
        r.violation(what, rep)


def replay(obj):
    rep = obj.get('replay', obj)
    kind = rep.get('kind')
    print("replaying", rep)
    if kind == 'traj':
        fails, summ = traj_case(rep['seed'], rep['k'], rep['family'], tuple(rep['dts']), rep.get('closed_loop', True))
        print("trajectory:", summ['meta'])
        for k, v in summ['errors'].items():
            print("  ", k, v)
    elif kind == 'rest':
        fails, summ = rest_case(rep['seed'], rep['k'])
        print("body at rest:", summ)
    elif kind == 'poly':
        fails, summ = poly_case(rep['seed'], rep['k'])
        print("increment kernel input:", summ)
    elif kind == 'climb':
        fails, summ = climb_case(rep['seed'], rep['k'], rep.get('dt', 0.1))
        print("climb / descent round trip:", summ)
    elif kind == 'sine':
        fails, summ = sine_case(rep['seed'], rep['k'])
        print("generate_sine_velocity_motion:", summ)
    elif kind == 'leg':
        fails, summ = leg_case(rep['seed'], rep['k'], rep.get('dt', 0.1))
        print("long leg:", summ)
    else:
        print("unknown replay kind")
        return 0
    for f in fails:
        print("FAIL:", f)
    print("still failing" if fails else "passes now")
    return 1 if fails else 0
