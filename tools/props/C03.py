"""C03 — the IMU synthesiser matches the true kinematics and inverts the strapdown equations.

Tie: translator (sim._compute_increment_readings, sim.generate_imu on two samples with the scipy
splines replaced by their written contract; earth.py / transform.py) -> Gen/C03Gen.v, Gen/Earth.v,
Gen/Transform.v; theorems in Props/C03.v against Spec/NavODE.v.

Numerical support / falsifier on the implementation (independent oracle: a Python transcription of
the navigation equations written from the physics, on analytic trajectories, with exact first and
second time derivatives carried by 2-jets):
  * rate and increment readings of generate_imu for the three input forms against the closed-form
    body rate  w = C^T (Omega + rho) + Euler-rate term  and specific force
    f = C^T (v' + (2 Omega + rho) x v - g)  (resp. their Gauss-Legendre integrals over each
    sampling interval): the error must fall when the sampling interval is halved and be below a
    generous absolute bound at the finest interval;
  * the three input forms agree (difference falls with the interval);
  * a body at rest at random latitude / altitude / attitude senses C^T rate_n and -C^T gravity_n;
  * closed loop: strapdown.Integrator fed with the synthesised readings from the first returned row
    reproduces the returned trajectory (error falls with the interval).
All margins are >= 100x above the measured interpolation / rounding level of the unchanged code.
"""
import math
import random
import numpy as np

RULE = ("translator: every traced function validated on 40-60 random inputs per run; numeric support: "
        "analytic smooth trajectories (constant-speed great-circle-like, helical climb, 3-axis tumbling; "
        "speeds up to 300 m/s, |lat| <= 85 deg, both hemispheres) x 3 input forms x 2 sensor types x "
        "sampling intervals 100/50(/25/12.5) ms, plus bodies at rest at random latitude/altitude/attitude; "
        "a case is distinct by (family, seed index, form, sensor type, interval)")

# ---------------------------------------------------------------------------
# independent Earth model (WGS-84 numbers written out; nothing imported from pyins)
A_E = 6378137.0
E2 = 6.6943799901413e-3
W_E = 7.292115e-5
G_E = 9.7803253359
G_F = 0.0019318526463962815       # (b gp - a ge)/(a ge) of the Somigliana formula as pyins evaluates it


class J:
    """2-jet (value, d/dt, d2/dt2) arithmetic: exact time derivatives of analytic trajectories."""
    __slots__ = ('v', 'd', 'dd')

    def __init__(self, v, d=0.0, dd=0.0):
        self.v, self.d, self.dd = v, d, dd

    @staticmethod
    def lift(x):
        return x if isinstance(x, J) else J(float(x))

    def __add__(self, o):
        o = J.lift(o)
        return J(self.v + o.v, self.d + o.d, self.dd + o.dd)
    __radd__ = __add__

    def __neg__(self):
        return J(-self.v, -self.d, -self.dd)

    def __sub__(self, o):
        return self + (-J.lift(o))

    def __rsub__(self, o):
        return J.lift(o) + (-self)

    def __mul__(self, o):
        o = J.lift(o)
        return J(self.v * o.v, self.d * o.v + self.v * o.d,
                 self.dd * o.v + 2 * self.d * o.d + self.v * o.dd)
    __rmul__ = __mul__

    def fn(self, f, f1, f2):
        return J(f, f1 * self.d, f2 * self.d ** 2 + f1 * self.dd)

    def __truediv__(self, o):
        o = J.lift(o)
        return self * o.fn(1 / o.v, -1 / o.v ** 2, 2 / o.v ** 3)

    def __rtruediv__(self, o):
        return J.lift(o) / self

    def sin(self):
        return self.fn(math.sin(self.v), math.cos(self.v), -math.sin(self.v))

    def cos(self):
        return self.fn(math.cos(self.v), -math.sin(self.v), -math.cos(self.v))

    def sqrt(self):
        s = math.sqrt(self.v)
        return self.fn(s, 0.5 / s, -0.25 / (s * self.v))


def jt(t):
    return J(t, 1.0, 0.0)


D2R = math.pi / 180


def cross(a, b):
    return [a[1] * b[2] - a[2] * b[1], a[2] * b[0] - a[0] * b[2], a[0] * b[1] - a[1] * b[0]]


def cnb_from_rph(r, p, h):
    """body -> NED direction cosines of the aerospace roll/pitch/heading sequence Rz(h) Ry(p) Rx(r)."""
    cr, sr, cp, sp, ch, sh = math.cos(r), math.sin(r), math.cos(p), math.sin(p), math.cos(h), math.sin(h)
    return np.array([[ch * cp, ch * sp * sr - sh * cr, ch * sp * cr + sh * sr],
                     [sh * cp, sh * sp * sr + ch * cr, sh * sp * cr - ch * sr],
                     [-sp, cp * sr, cp * cr]])


class Traj:
    """Analytic trajectory: lat, lon [deg], alt [m], roll, pitch, heading [deg] as functions t -> J."""

    def __init__(self, lat, lon, alt, roll, pitch, heading, name, meta):
        self.f = (lat, lon, alt, roll, pitch, heading)
        self.name = name
        self.meta = meta

    def state(self, t):
        """(lla, v_n, rph, w_ib^b, f^b) at time t from the navigation equations."""
        T = jt(t)
        lat, lon, alt, roll, pitch, head = [g(T) for g in self.f]
        phi = lat * D2R
        s, c = phi.sin(), phi.cos()
        w2 = 1 - E2 * s * s
        w = w2.sqrt()
        rn = A_E * (1 - E2) / (w2 * w) + alt           # meridian radius + h
        re = A_E / w + alt                              # prime-vertical radius + h
        phid = J(phi.d, phi.dd, 0.0)
        lamd = J(lon.d * D2R, lon.dd * D2R, 0.0)
        hd = J(alt.d, alt.dd, 0.0)
        rn1 = J(rn.v, rn.d, 0.0)
        re1 = J(re.v, re.d, 0.0)
        c1, s1 = J(c.v, c.d, 0.0), J(s.v, s.d, 0.0)
        vN = phid * rn1                                 # v_n and its first derivative (1-jets)
        vE = lamd * re1 * c1
        vD = -hd
        v = np.array([vN.v, vE.v, vD.v])
        vdot = np.array([vN.d, vE.d, vD.d])
        Om = np.array([W_E * c.v, 0.0, -W_E * s.v])
        rho = np.array([lamd.v * c.v, -phid.v, -lamd.v * s.v])
        g = G_E * (1 + G_F * s.v ** 2) / math.sqrt(1 - E2 * s.v ** 2) * (1 - 2 * alt.v / A_E)
        f_n = vdot + np.array(cross(2 * Om + rho, v)) - np.array([0.0, 0.0, g])
        r, p, h = roll.v * D2R, pitch.v * D2R, head.v * D2R
        rd, pd_, hdot = roll.d * D2R, pitch.d * D2R, head.d * D2R
        C = cnb_from_rph(r, p, h)
        w_nb = np.array([rd - hdot * math.sin(p),
                         pd_ * math.cos(r) + hdot * math.sin(r) * math.cos(p),
                         -pd_ * math.sin(r) + hdot * math.cos(r) * math.cos(p)])
        w_b = C.T @ (Om + rho) + w_nb
        f_b = C.T @ f_n
        return (np.array([lat.v, lon.v, alt.v]), v, np.array([roll.v, pitch.v, head.v]), w_b, f_b)


def _sinus(a0, a1, amp, om, ph):
    return lambda T: a0 + a1 * T + amp * ((om * T + ph).sin())


def make_traj(rng, family):
    """families: 'gc' constant-speed great-circle-like, 'helix' climbing turn, 'tumble' 3-axis tumbling."""
    lat0 = rng.choice([-1, 1]) * rng.uniform(0.0, 84.0)
    lon0 = rng.uniform(-179, 179)
    alt0 = rng.uniform(-200, 12000)
    speed = rng.uniform(5, 290)
    az = rng.uniform(0, 2 * math.pi)
    rm = 6.37e6
    coslat = math.cos(lat0 * D2R)
    latr = speed * math.cos(az) / rm / D2R                 # deg/s
    lonr = speed * math.sin(az) / (rm * coslat) / D2R
    if abs(lat0) + abs(latr) * 10 > 85:
        latr = -abs(latr) * (1 if lat0 > 0 else -1)
    meta = dict(family=family, lat0=lat0, lon0=lon0, alt0=alt0, speed=speed, az=az)
    z = lambda T: J.lift(0.0) * T
    if family == 'gc':
        lat = _sinus(lat0, latr, 0.0, 0.0, 0.0)
        lon = _sinus(lon0, lonr, 0.0, 0.0, 0.0)
        alt = _sinus(alt0, 0.0, 0.0, 0.0, 0.0)
        roll = _sinus(rng.uniform(-20, 20), 0.0, 0.0, 0.0, 0.0)
        pitch = _sinus(rng.uniform(-10, 10), 0.0, 0.0, 0.0, 0.0)
        head = _sinus(math.degrees(az), 0.0, 0.0, 0.0, 0.0)
    elif family == 'helix':
        om = rng.uniform(0.1, 0.6)                        # turn rate rad/s
        rad = speed / om                                  # turn radius m
        lat = _sinus(lat0, 0.0, rad / rm / D2R, om, rng.uniform(0, 6))
        lon = _sinus(lon0, 0.0, rad / (rm * coslat) / D2R, om, rng.uniform(0, 6) + math.pi / 2)
        alt = _sinus(alt0, rng.uniform(-20, 20), rng.uniform(0, 5), rng.uniform(0.2, 1.0), rng.uniform(0, 6))
        roll = _sinus(rng.uniform(-30, 30), 0.0, rng.uniform(0, 15), rng.uniform(0.2, 1.0), rng.uniform(0, 6))
        pitch = _sinus(rng.uniform(-10, 10), 0.0, rng.uniform(0, 8), rng.uniform(0.2, 1.0), rng.uniform(0, 6))
        head = _sinus(rng.uniform(-180, 180), -math.degrees(om), 0.0, 0.0, 0.0)
        meta.update(turn_rate=om)
    elif family == 'tumble':
        lat = _sinus(lat0, latr, rng.uniform(0, 20) / rm / D2R, rng.uniform(0.2, 1.0), rng.uniform(0, 6))
        lon = _sinus(lon0, lonr, rng.uniform(0, 20) / (rm * coslat) / D2R, rng.uniform(0.2, 1.0), rng.uniform(0, 6))
        alt = _sinus(alt0, rng.uniform(-10, 10), rng.uniform(0, 10), rng.uniform(0.2, 1.0), rng.uniform(0, 6))
        roll = _sinus(rng.uniform(-180, 180), rng.uniform(-25, 25), rng.uniform(0, 20), rng.uniform(0.3, 1.5), rng.uniform(0, 6))
        pitch = _sinus(0.0, 0.0, rng.uniform(10, 70), rng.uniform(0.2, 0.8), rng.uniform(0, 6))
        head = _sinus(rng.uniform(-180, 180), rng.uniform(-25, 25), rng.uniform(0, 20), rng.uniform(0.3, 1.5), rng.uniform(0, 6))
    else:
        raise ValueError(family)
    return Traj(lat, lon, alt, roll, pitch, head, family, meta)


_GL = np.polynomial.legendre.leggauss(10)


def truth(traj, time):
    """sampled states and the exact rate / increment readings on the grid `time`."""
    st = [traj.state(float(t)) for t in time]
    lla = np.array([s[0] for s in st])
    vel = np.array([s[1] for s in st])
    rph = np.array([s[2] for s in st])
    w = np.array([s[3] for s in st])
    f = np.array([s[4] for s in st])
    dth = np.zeros((len(time), 3))
    dv = np.zeros((len(time), 3))
    x, wt = _GL
    for k in range(1, len(time)):
        a, b = float(time[k - 1]), float(time[k])
        for xi, wi in zip(x, wt):
            s = traj.state(0.5 * (a + b) + 0.5 * (b - a) * xi)
            dth[k] += 0.5 * (b - a) * wi * s[3]
            dv[k] += 0.5 * (b - a) * wi * s[4]
    dth[0], dv[0] = dth[1], dv[1]
    return dict(lla=lla, vel=vel, rph=rph, w=w, f=f, dth=dth, dv=dv)


FORMS = ('pos+vel', 'pos', 'init+vel')


def synthesise(time, tr, form, sensor_type):
    from pyins import sim
    if form == 'pos+vel':
        return sim.generate_imu(time, tr['lla'], tr['rph'], tr['vel'], sensor_type)
    if form == 'pos':
        return sim.generate_imu(time, tr['lla'], tr['rph'], None, sensor_type)
    return sim.generate_imu(time, tr['lla'][0], tr['rph'], tr['vel'], sensor_type)


def imu_errors(traj, dt, total, form, sensor_type, trim=3):
    """max |gyro error| [rad/s], max |accel error| [m/s^2] (increments divided by dt), plus the returned
    trajectory's deviation from the analytic one (position [m], velocity [m/s])."""
    n = int(round(total / dt)) + 1
    time = np.arange(n) * dt
    tr = truth(traj, time)
    trj, imu = synthesise(time, tr, form, sensor_type)
    g = imu[['gyro_x', 'gyro_y', 'gyro_z']].values
    a = imu[['accel_x', 'accel_y', 'accel_z']].values
    if sensor_type == 'rate':
        eg, ea = g - tr['w'], a - tr['f']
    else:
        eg, ea = (g - tr['dth']) / dt, (a - tr['dv']) / dt
    sl = slice(trim, n - trim)
    lla = trj[['lat', 'lon', 'alt']].values
    dpos = np.abs(np.column_stack([(lla[:, 0] - tr['lla'][:, 0]) * D2R * 6.4e6,
                                   (lla[:, 1] - tr['lla'][:, 1]) * D2R * 6.4e6 * np.cos(tr['lla'][:, 0] * D2R),
                                   lla[:, 2] - tr['lla'][:, 2]])).max()
    dvel = np.abs(trj[['VN', 'VE', 'VD']].values - tr['vel']).max()
    return dict(gyro=float(np.abs(eg[sl]).max()), accel=float(np.abs(ea[sl]).max()),
                pos=float(dpos), vel=float(dvel)), (trj, imu, tr)


def closed_loop(trj, imu, sensor_type):
    """integrate the synthesised readings from the first returned row; deviation from the returned
    trajectory: position [m], velocity [m/s], attitude [rad]."""
    from pyins import strapdown, transform
    inc = strapdown.compute_increments_from_imu(imu, sensor_type)
    integ = strapdown.Integrator(trj.iloc[0])
    out = integ.integrate(inc)
    out = out.loc[trj.index[1:]]
    ref = trj.iloc[1:]
    lla, lla0 = out[['lat', 'lon', 'alt']].values, ref[['lat', 'lon', 'alt']].values
    dpos = np.abs(np.column_stack([(lla[:, 0] - lla0[:, 0]) * D2R * 6.4e6,
                                   (lla[:, 1] - lla0[:, 1]) * D2R * 6.4e6 * np.cos(lla0[:, 0] * D2R),
                                   lla[:, 2] - lla0[:, 2]])).max()
    dvel = np.abs(out[['VN', 'VE', 'VD']].values - ref[['VN', 'VE', 'VD']].values).max()
    m1 = transform.mat_from_rph(out[['roll', 'pitch', 'heading']].values)
    m0 = transform.mat_from_rph(ref[['roll', 'pitch', 'heading']].values)
    datt = np.abs(np.einsum('kji,kjl->kil', m0, m1) - np.eye(3)).max()
    return dict(pos=float(dpos), vel=float(dvel), att=float(datt))
