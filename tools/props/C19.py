"""C19 — Public functions are pure, deterministic and keep the documented schema.

Static part: tools/alias2ir.py translates every function of pyins (Python `ast`) into the aliasing
IR of coq/Model/Alias.v, validates its numpy/pandas/scipy classification tables by micro-tests on the
installed libraries, computes points-to solutions and callee summaries and writes coq/Gen/AliasIR.v;
Coq re-validates the solutions and summaries and proves (Props/C19.v) that the verified checker accepts
every public callable, that random draws come from caller-supplied generators, and that the schema
constants are the documented ones.

Dynamic part (validates the abstraction Python -> IR and is the falsifier): every public callable is
executed on writable float64 ndarray / list / DataFrame / Series argument forms with byte snapshots
before and after, twice with equal inputs and equal integer seeds (bit-identical results, also with
other calls in between), scalar vs stacked vs list vs array vs table forms are compared (1e-12), and
returned tables are compared with the documented schema.
"""
import os
import sys
import time
import traceback

HERE = os.path.dirname(os.path.abspath(__file__))
sys.path.insert(0, os.path.dirname(HERE))
import common

RULE = ("static: all functions/methods of the ten pyins modules are translated (fail closed) and the "
        "classification tables are micro-tested on every run; dynamic: every public callable (enumerated "
        "from the autosummary lists + public methods; a callable without an argument builder is a coverage "
        "break) x every applicable argument form (C/F-ordered and non-contiguous ndarray, list, tuple, "
        "DataFrame, Series, scalar / 1-row / n-row) on a simulated data set drawn from random.Random(seed); "
        "a case is distinct by (callable, argument form, check kind)")


def _dyn():
    try:
        from props import C19_dyn
        return C19_dyn
    except ImportError:
        return None


def static_part(r):
    t = time.time()
    try:
        import alias2ir
        with common.Lock():
            stats = alias2ir.generate(repo=common.REPO)
    except Exception as e:
        r.broken('translator', type(e).__name__, traceback.format_exc())
        return None
    mt = stats['microtests']
    r.evaluations += mt.get('tests', 0)
    r.coverage['translator'] = dict(
        functions=stats['functions'], public=stats['public'], statements=stats['statements'],
        variables=stats['variables'], slots=stats['slots'], readonly_slots=stats['readonly'],
        microtests=mt, gen_changed=stats['changed'], drawing=stats['drawing'],
        slot_categories=stats['slot_categories'])
    r.log(f"translator: {stats['functions']} functions ({stats['public']} public), "
          f"{stats['statements']} IR statements, {mt.get('tests', 0)} micro-tests of the classification "
          f"tables, Gen changed: {stats['changed']}, {time.time() - t:.1f}s")
    # diagnostics of the (untrusted) python mirror of the checker: the verdict that counts is Coq's
    for fid, why in stats['rejected'].items():
        r.log(f"static checker (mirror) rejects {fid}: {why[:3]}")
    for fid in stats['unplumbed']:
        r.log(f"static checker (mirror): {fid} draws random numbers not derived from its rng argument")
    r.coverage['static_rejected'] = {k: v[:4] for k, v in stats['rejected'].items()}
    r.coverage['static_unplumbed'] = stats['unplumbed']
    return stats


def check(r):
    r.trusted += [
        "translator tools/alias2ir.py (Python ast -> aliasing IR): the classification of numpy/pandas/scipy "
        "operations (fresh / may alias / writes) is data, micro-tested against the installed libraries on every run",
        "abstract semantics of calls: a call behaves as any sequence of the effects its (Coq-validated) callee "
        "summary allows; the points-to solver and the summary computation (python) are NOT trusted: their output "
        "is re-validated by Coq (valid_hints, summary_ok, check_fun)",
        "heap model: one cell per buffer/container/object, views = same cell, flow-insensitive executions",
    ]
    r.assumptions += [
        "entry condition of checker_sound: caller memory, the receiver's private state and numpy's global "
        "generator are disjoint regions at entry (no references across, except from the receiver's own containers "
        "into caller memory)",
        "bit-identical repeated results, equality of argument forms and the schema of returned VALUES are "
        "validated dynamically, not proved (C19_partial in DESIGN.md)",
        "documented exceptions (policy C19_policy): filters may rebind/update EstimationModel.transform/.bias of "
        "the models they are given; apply_imu_parameters (like Parameters.apply) sets Parameters.data_frame and, "
        "with default Parameters(), draws from numpy's global generator (rng=None: documented nondeterministic seeding)",
        "shallow copies of Python containers of arrays (list.copy()) are classified as fresh; pyins has none",
    ]
    stats = static_part(r)
    if stats is not None:
        r.prove('Props/C19.v')
    dyn = _dyn()
    if dyn is None:
        r.broken('harness', 'dynamic validation module missing', 'tools/props/C19_dyn.py')
    else:
        n_rounds = 1 if r.tier == 'quick' else 6
        try:
            dyn.run_dynamic(r, n_rounds)
        except Exception:
            r.broken('dynamic', 'exception in run_dynamic', traceback.format_exc())
        if stats is not None:
            try:
                mine = set(stats['public_names'])
                theirs = set(dyn.public_callables())
                norm = lambda s: s.replace('pyins.', '')
                theirs = {norm(x) for x in theirs}
                missing = sorted(mine - theirs)
                if missing:
                    r.broken('coverage', 'public callables of the static enumeration not exercised dynamically',
                             missing[:20])
            except Exception:
                r.broken('coverage', 'enumeration comparison failed', traceback.format_exc())
    if r.tier == 'thorough':
        r.hygiene()


def falsify(r):
    dyn = _dyn()
    if dyn is not None:
        dyn.run_dynamic(r, 4)


def replay(obj):
    dyn = _dyn()
    rep = obj.get('replay', obj)
    if dyn is None or not isinstance(rep, dict) or 'callable' not in rep:
        print(obj)
        return 1 if obj.get('no_failing_input_found') else 0
    return dyn.replay(rep)
